"""The record of a value axis stays one record: data[k] = start + k*step.

An axis keeps its points twice - as the array `data` and as (`start`, `step`, `length`).  Look-ups (locate, nearest),
comparisons of axes (is_subsection_of, is_equal_to), the conjugate axis and the propagators read sometimes the one and
sometimes the other; a method that changes one of them has to change the other by the same amount.

Every method of the axis classes that writes `self.start` or `self.data` (constructors excepted - they create the
record) is interpreted on a symbolic record

    start = S          data = S + K        (K = k*step, K[0] = 0)

with values kept as linear forms a*S + b*K + c.  Statements are executed in order (an attribute written earlier in the
method is read with its new value - `self.start = 0.0` followed by `... - self.start` subtracts zero); both arms of
every `if` are followed; a path ending in `raise` is dropped.  At every exit the record must still be one record:
data = start + K.  A value the evaluator cannot express (a call it does not know) makes the path undecided: it is
counted, not reported.
"""
import ast

from .loader import norm, walk_no_nested

UNKNOWN = None


def _lin(s=0.0, k=0.0, c=0.0):
    return (float(s), float(k), float(c))


def _add(a, b, sign=1.0):
    if a is UNKNOWN or b is UNKNOWN:
        return UNKNOWN
    return (a[0] + sign * b[0], a[1] + sign * b[1], a[2] + sign * b[2])


def _scale(a, f):
    if a is UNKNOWN:
        return UNKNOWN
    return (a[0] * f, a[1] * f, a[2] * f)


def _is_const(a):
    return a is not UNKNOWN and a[0] == 0.0 and a[1] == 0.0


class Record:
    def __init__(self, getters):
        self.start = _lin(s=1.0)
        self.data = _lin(s=1.0, k=1.0)
        self.locals = {}
        self.getters = getters          # property name -> 'start' | 'data0' | 'dataN'
        self.step_written = False

    def copy(self):
        r = Record(self.getters)
        r.start, r.data, r.locals, r.step_written = self.start, self.data, dict(self.locals), self.step_written
        return r


def ev(e, rec, recv="self"):
    if isinstance(e, ast.Constant):
        return _lin(c=e.value) if isinstance(e.value, (int, float)) and not isinstance(e.value, bool) else UNKNOWN
    if isinstance(e, ast.Name):
        return rec.locals.get(e.id, UNKNOWN)
    if isinstance(e, ast.Attribute) and norm(e.value) == recv:
        if e.attr == "start":
            return rec.start
        if e.attr == "data":
            return rec.data
        g = rec.getters.get(e.attr)
        if g == "start":
            return rec.start
        if g == "data0" and rec.data is not UNKNOWN:
            return (rec.data[0], 0.0, rec.data[2])
        return UNKNOWN
    if isinstance(e, ast.Subscript):
        b = ev(e.value, rec, recv)
        if b is UNKNOWN:
            return UNKNOWN
        sl = e.slice
        if isinstance(sl, ast.Slice) and sl.lower is None and sl.upper is None and sl.step is None:
            return b
        if isinstance(sl, ast.Constant) and sl.value == 0:
            return (b[0], 0.0, b[2])           # first point: K[0] = 0
        return UNKNOWN
    if isinstance(e, ast.UnaryOp) and isinstance(e.op, ast.USub):
        return _scale(ev(e.operand, rec, recv), -1.0)
    if isinstance(e, ast.BinOp):
        a, b = ev(e.left, rec, recv), ev(e.right, rec, recv)
        if isinstance(e.op, ast.Add):
            return _add(a, b)
        if isinstance(e.op, ast.Sub):
            return _add(a, b, -1.0)
        if isinstance(e.op, ast.Mult):
            if _is_const(a):
                return _scale(b, a[2])
            if _is_const(b):
                return _scale(a, b[2])
            return UNKNOWN
        if isinstance(e.op, ast.Div) and _is_const(b) and b[2] != 0.0:
            return _scale(a, 1.0 / b[2])
        return UNKNOWN
    if isinstance(e, ast.Call):
        fn = e.func.attr if isinstance(e.func, ast.Attribute) else (e.func.id if isinstance(e.func, ast.Name) else "")
        if fn in ("copy", "array", "asarray", "float", "real") and (e.args or isinstance(e.func, ast.Attribute)):
            return ev(e.args[0] if e.args else e.func.value, rec, recv)
        return UNKNOWN
    return UNKNOWN


def run_block(stmts, rec, exits, recv="self"):
    """Executes the statements on `rec`; returns the list of records that fall through the end of the block."""
    live = [rec]
    for st in stmts:
        nxt = []
        for r in live:
            if isinstance(st, ast.Assign):
                v = ev(st.value, r, recv)
                for t_ in st.targets:
                    b_, whole = t_, True
                    if isinstance(b_, ast.Subscript):
                        whole = isinstance(b_.slice, ast.Slice) and b_.slice.lower is None and b_.slice.upper is None
                        b_ = b_.value
                    if isinstance(b_, ast.Attribute) and norm(b_.value) == recv:
                        if b_.attr == "start":
                            r.start = v
                        elif b_.attr == "data":
                            r.data = v if whole else UNKNOWN
                        elif b_.attr == "step":
                            r.step_written = True
                    elif isinstance(b_, ast.Name) and whole:
                        r.locals[b_.id] = v
                nxt.append(r)
            elif isinstance(st, ast.AugAssign):
                t_ = st.target
                cur = ev(t_, r, recv)
                v = ev(st.value, r, recv)
                if isinstance(st.op, ast.Add):
                    nv = _add(cur, v)
                elif isinstance(st.op, ast.Sub):
                    nv = _add(cur, v, -1.0)
                elif isinstance(st.op, ast.Mult) and _is_const(v):
                    nv = _scale(cur, v[2])
                else:
                    nv = UNKNOWN
                b_ = t_.value if isinstance(t_, ast.Subscript) else t_
                if isinstance(b_, ast.Attribute) and norm(b_.value) == recv:
                    if b_.attr == "start":
                        r.start = nv
                    elif b_.attr == "data":
                        r.data = nv if (b_ is t_ or (isinstance(t_.slice, ast.Slice) and t_.slice.lower is None
                                                      and t_.slice.upper is None)) else UNKNOWN
                elif isinstance(b_, ast.Name):
                    r.locals[b_.id] = nv
                nxt.append(r)
            elif isinstance(st, ast.If):
                a, b = r.copy(), r.copy()
                nxt.extend(run_block(st.body, a, exits, recv))
                nxt.extend(run_block(st.orelse, b, exits, recv))
            elif isinstance(st, ast.Raise):
                pass
            elif isinstance(st, ast.Return):
                exits.append((st, r))
            elif isinstance(st, (ast.For, ast.While, ast.With, ast.Try)):
                # not interpreted: whatever such a statement writes of the record is unknown afterwards
                for x in ast.walk(st):
                    if isinstance(x, ast.Attribute) and norm(x.value) == recv and isinstance(x.ctx, ast.Store):
                        if x.attr == "start":
                            r.start = UNKNOWN
                        if x.attr == "data":
                            r.data = UNKNOWN
                    if isinstance(x, ast.Subscript) and isinstance(x.ctx, ast.Store) and isinstance(x.value, ast.Attribute) \
                            and norm(x.value.value) == recv and x.value.attr == "data":
                        r.data = UNKNOWN
                nxt.append(r)
            else:
                nxt.append(r)
        live = nxt
    return live


def writers(cls):
    """Methods of the class (constructors excepted) that write self.start or self.data."""
    out = []
    for nme, f in cls.methods.items():
        if nme == "__init__" or not isinstance(f.node, ast.FunctionDef):
            continue
        w = set()
        for x in walk_no_nested(f.node):
            if isinstance(x, ast.Attribute) and norm(x.value) == "self" and x.attr in ("start", "data"):
                if isinstance(x.ctx, ast.Store):
                    w.add(x.attr)
            if isinstance(x, ast.Subscript) and isinstance(x.ctx, ast.Store) and isinstance(x.value, ast.Attribute) \
                    and norm(x.value.value) == "self" and x.value.attr == "data":
                w.add("data")
        if w:
            out.append((f, w))
    return out


def start_getters(prog, classes):
    """Properties of the axis classes whose getter returns self.start or self.data[0] (ValueAxis.min)."""
    g = {}
    for cls in classes:
        for nme, f in cls.methods.items():
            if not isinstance(f.node, ast.FunctionDef):
                continue
            if any(norm(d) == "property" for d in f.node.decorator_list):
                body = [s for s in f.node.body if not (isinstance(s, ast.Expr) and isinstance(s.value, ast.Constant))]
                if len(body) == 1 and isinstance(body[0], ast.Return) and body[0].value is not None:
                    v = body[0].value
                    if norm(v) == "self.start":
                        g[nme] = "start"
                    elif isinstance(v, ast.Subscript) and norm(v.value) == "self.data" and isinstance(v.slice, ast.Constant) \
                            and v.slice.value == 0:
                        g[nme] = "data0"
    return g


def check_method(f, getters):
    """[(exit node or None, verdict, detail)] with verdict in 'ok' | 'broken' | 'undecided'."""
    rec = Record(getters)
    exits = []
    for r in run_block(f.node.body, rec, exits):
        exits.append((None, r))
    res = []
    for node, r in exits:
        if r.start is UNKNOWN or r.data is UNKNOWN:
            res.append((node, "undecided", ""))
            continue
        want = _add(r.start, _lin(k=1.0)) if not r.step_written else None
        if want is None:
            first = (r.data[0], 0.0, r.data[2])
            ok = first == r.start
        else:
            ok = all(abs(x - y) < 1e-12 for x, y in zip(r.data, want))
        def show(v):
            parts = []
            if v[0]:
                parts.append("%g*start" % v[0] if v[0] != 1 else "start")
            if v[1]:
                parts.append("%g*k*step" % v[1] if v[1] != 1 else "k*step")
            if v[2] or not parts:
                parts.append("%g" % v[2])
            return " + ".join(parts)
        res.append((node, "ok" if ok else "broken",
                    "on leaving, start = %s and data[k] = %s (in terms of the start and step on entry)" % (show(r.start), show(r.data))))
    return res
