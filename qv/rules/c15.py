"""C15 - propagation results are functions of their inputs only.

Decided statically: scratch state is reset before use (E1), settings are not
carried between calls (E2: the attributes a propagation may leave on the
propagator form a frozen, individually justified table), inputs are not
mutated (E3: effect analysis over parameters and input-holding attributes,
every reported effect either paired/justified in a frozen table or a
finding), temporary modifications of the Hamiltonian are undone in nesting
order on every normal path (E4).  Not decided: bit-for-bit reproducibility of
NumPy.
"""
import ast

from ..loader import AnalysisError, norm, walk_no_nested, call_name, parents_map, protocol_body
from ..effects import Effects, base_chain
from . import c16, c08, c02

PROPS = {
    "quantarhei.qm.propagators.rdmpropagator.ReducedDensityMatrixPropagator": "propagate",
    "quantarhei.qm.propagators.svpropagator.StateVectorPropagator": "propagate",
    "quantarhei.qm.propagators.poppropagator.PopulationPropagator": "propagate",
    "quantarhei.qm.liouvillespace.heom.KTHierarchyPropagator": "propagate",
    "quantarhei.qm.liouvillespace.evolutionsuperoperator.EvolutionSuperOperator": "calculate",
}
LS = "quantarhei.qm.liouvillespace."
TENSORS = [LS + "redfieldtensor.RedfieldRelaxationTensor", LS + "tdredfieldtensor.TDRedfieldRelaxationTensor",
           LS + "lindbladform.LindbladForm", LS + "lindbladform.ElectronicLindbladForm",
           LS + "foerstertensor.FoersterRelaxationTensor", LS + "tdfoerstertensor.TDFoersterRelaxationTensor",
           LS + "redfieldfoerster.RedfieldFoersterRelaxationTensor",
           LS + "tdredfieldfoerster.TDRedfieldFoersterRelaxationTensor",
           LS + "rates.redfieldrates.RedfieldRateMatrix", LS + "rates.foersterrates.FoersterRateMatrix",
           LS + "rates.tdredfieldrates.TDRedfieldRateMatrix"]

# attributes a propagation call may leave written on the propagator, each with the rule that makes it harmless
E2_TABLE = {
    ("ReducedDensityMatrixPropagator", "Nref"): "restored",
    ("ReducedDensityMatrixPropagator", "dt"): "restored",
    ("ReducedDensityMatrixPropagator", "expo"): "boot-before-apply",
    ("ReducedDensityMatrixPropagator", "t0"): "boot-before-apply",
    ("ReducedDensityMatrixPropagator", "has_Iterm"): "assigned-from-input-before-read",
    ("KTHierarchyPropagator", "Nref"): "constant-store",
    ("KTHierarchyPropagator", "hy"): "scratch-reset-before-use",
    ("EvolutionSuperOperator", "data"): "reinitialised-first",
    ("EvolutionSuperOperator", "is_in_rwa"): "derived-from-input",
}

# effects on input objects that are accepted, with the reason (one line each)
E3_ACCEPTED = {
    ("ReducedDensityMatrixPropagator._CLOSE_RWA", "pr", "store"):
        "pr is the evolution object created by _INIT_EXP in the same call, not a caller's object",
    ("ReducedDensityMatrixPropagator.*", "self.RelaxationTensor", "call:initial_term"):
        "the inhomogeneous term is recomputed from the initial state at the start of every call "
        "(reset-before-use, checked below)",
    ("ReducedDensityMatrixPropagator.*", "self.EField", "call:set_rwa"):
        "temporary rotating-frame frequency, paired with restore_rwa in the same routine (checked below)",
    ("ReducedDensityMatrixPropagator.*", "self.EField", "call:restore_rwa"): "the restoring half of the pair",
    ("KTHierarchyPropagator.propagate", "self.hy", "store"):
        "ado/hpop are the designated scratch fields of the hierarchy, fully reset/allocated before use (E1)",
    ("KTHierarchyPropagator.propagate", "self.hy", "call:reset_ados"): "the reset itself",
    ("EvolutionSuperOperator.apply", "target", "store"):
        "documented opt-in: apply(..., copy=False) assigns the result to the target",
    ("OpenSystem.get_RelaxationTensor", "ham", "call:protect_basis"): "paired with unprotect_basis (E4)",
    ("OpenSystem.get_RelaxationTensor", "ham", "call:unprotect_basis"): "paired (E4)",
    ("OpenSystem.get_RelaxationTensor", "ham", "call:subtract_cutoff_coupling"): "paired with recover_cutoff_coupling (E4)",
    ("OpenSystem.get_RelaxationTensor", "ham", "call:recover_cutoff_coupling"): "paired (E4)",
    ("OpenSystem.get_RedfieldRateMatrix", "ham", "call:protect_basis"): "paired with unprotect_basis (E4)",
    ("OpenSystem.get_RedfieldRateMatrix", "ham", "call:unprotect_basis"): "paired (E4)",
}


def check(run, prog, tier):
    run.explanation = (
        "Effect analysis (stores, in-place operations and mutating method calls on parameters and on "
        "input-holding attributes, with function summaries over the resolved call graph) on every "
        "propagator, tensor constructor, the evolution superoperator and the OpenSystem factory "
        "methods; reset-before-use ordering; a frozen table of attributes a propagation may leave on "
        "the propagator with the rule that justifies each; pairing of temporary Hamiltonian "
        "modifications. Every accepted effect is listed with its reason; anything else is a finding.")
    run.trusted_base = ["may-call resolution of methods on unknown receivers by name (over-approximation)",
                        "managed property getters only change representation (C04), not content"]
    run.rule("C15-E1", "scratch state is reset before use", minimum=3)
    run.rule("C15-E2", "settings are not carried between calls", minimum=9)
    run.rule("C15-E3", "inputs are not mutated (effect analysis)", minimum=40)
    run.rule("C15-E5", "builders return stored results only under a key that covers every argument the result "
                       "depends on", minimum=5)
    run.rule("C15-E4", "temporary modifications of the Hamiltonian are undone, in nesting order", minimum=7)
    E = Effects(prog, depth=4)
    rule_E1(run, prog)
    rule_E2(run, prog, E)
    rule_E3(run, prog, E)
    rule_E4(run, prog)
    rule_E5(run, prog)
    run.rule("C15-E6", "propagators, hierarchy and tensors keep no result of an earlier call that a later call could be answered with", minimum=8)
    from . import memorule
    memorule.check(run, prog, "C15-E6", ['quantarhei.qm.propagators.rdmpropagator.ReducedDensityMatrixPropagator', 'quantarhei.qm.propagators.svpropagator.StateVectorPropagator', 'quantarhei.qm.propagators.poppropagator.PopulationPropagator', 'quantarhei.qm.liouvillespace.heom.KTHierarchy', 'quantarhei.qm.liouvillespace.heom.KTHierarchyPropagator', 'quantarhei.qm.liouvillespace.evolutionsuperoperator.EvolutionSuperOperator', 'quantarhei.qm.liouvillespace.redfieldtensor.RedfieldRelaxationTensor', 'quantarhei.qm.liouvillespace.relaxationtensor.RelaxationTensor', 'quantarhei.builders.opensystem.OpenSystem'],
                   "the result then depends on the history of the object, not only on the inputs of the call")
    run.rule("C15-E8", "what a propagation asks of its relaxation tensor is computed from nothing: no accumulation into storage that "
                       "outlives the call", minimum=2)
    rule_E8(run, prog)
    run.rule("C15-E7", "option setters are absolute: what a set* method of a propagator stores is computed from its argument and "
                       "from state the method does not itself overwrite (setting the same option twice gives the same object)", minimum=8)
    rule_E7(run, prog)


def rule_E7(run, prog):
    """'Repeating the call with the same inputs returns the same result whatever was computed in between.'  An option setter
    (set*, e.g. setDtRefinement) whose stored value depends on the attribute it overwrites - self.dt = self.dt/Nref -
    compounds: the second call with the same argument leaves another object than the first, and every later propagation
    depends on how often and in which order options were set.  In every set* method of the propagator classes the value
    assigned to an attribute of self does not read that same attribute (the original quantity is kept separately)."""
    rid = "C15-E7"
    n = 0
    for q in ('quantarhei.qm.propagators.rdmpropagator.ReducedDensityMatrixPropagator',
              'quantarhei.qm.propagators.svpropagator.StateVectorPropagator',
              'quantarhei.qm.propagators.poppropagator.PopulationPropagator',
              'quantarhei.qm.propagators.oqssvpropagator.OQSStateVectorPropagator',
              'quantarhei.qm.liouvillespace.heom.KTHierarchyPropagator',
              'quantarhei.qm.liouvillespace.evolutionsuperoperator.EvolutionSuperOperator'):
        cls = prog.cls(q)
        for nme, fn in sorted(cls.methods.items()):
            if not (nme.startswith("set") and len(fn.node.args.args) >= 2):
                continue
            prog.consulted.add(fn.relpath)
            for st in walk_no_nested(fn.node):
                tg = st.targets if isinstance(st, ast.Assign) else ([st.target] if isinstance(st, ast.AugAssign) else [])
                for t_ in tg:
                    if not (isinstance(t_, ast.Attribute) and norm(t_.value) == "self"):
                        continue
                    n += 1
                    selfref = isinstance(st, ast.AugAssign) or any(
                        isinstance(x, ast.Attribute) and norm(x.value) == "self" and x.attr == t_.attr and isinstance(x.ctx, ast.Load)
                        for x in ast.walk(st.value))
                    run.obligation(rid, fn.short, not selfref, key="absolute:" + norm(st)[:50],
                                   message="%s stores %s, computed from the attribute it overwrites: a second call does not set the option, "
                                           "it compounds it (for the refinement: the step becomes (previous step)/Nref instead of "
                                           "(axis step)/Nref) - results depend on the history of the propagator" % (fn.short, norm(st)[:60]),
                                   loc=fn.loc(st))
    if n < 8:
        raise AnalysisError("only %d attribute stores in option setters of the propagators found (8 confirmed)" % n)



class _Proxy:
    def __init__(self, run, rid, keep):
        self.run, self.rid, self.keep = run, rid, keep

    def obligation(self, rid, construct, ok, **kw):
        if self.keep(construct, kw.get("key", "")):
            self.run.obligation(self.rid, construct, ok, **kw)

    def __getattr__(self, name):
        return getattr(self.run, name)


def rule_E1(run, prog):
    c16.rule_D(_Proxy(run, "C15-E1", lambda c, k: True), prog)
    cls = prog.cls("quantarhei.qm.liouvillespace.evolutionsuperoperator.EvolutionSuperOperator")
    c08.rule_C(_Proxy(run, "C15-E1", lambda c, k: k == "reinitialise"), prog, cls)


def _input_holders(prog, cls):
    init = prog.find_method(cls, "__init__")
    out = set()
    if init is None:
        return out
    params = {a.arg for a in init.node.args.args} - {"self"}
    for n in ast.walk(init.node):
        if isinstance(n, ast.Assign) and isinstance(n.value, ast.Name) and n.value.id in params:
            for t in n.targets:
                ch = base_chain(t)
                if ch and ch[0] == "self" and len(ch) == 2:
                    out.add(ch[1])
    return out


def rule_E2(run, prog, E):
    rid = "C15-E2"
    for q, mname in PROPS.items():
        cls = prog.cls(q)
        f = cls.methods[mname]
        prog.consulted.add(f.relpath)
        writes = sorted(E.self_writes(f))
        for a in writes:
            key = (cls.name, a)
            run.obligation(rid, "%s.%s" % (cls.name, mname), key in E2_TABLE, key="leaves:" + a,
                           message="a call of %s() leaves attribute '%s' written on the %s; it is not in the "
                                   "table of justified leftovers: a later call with the same arguments may "
                                   "see it" % (mname, a, cls.name), loc=f.loc(),
                           sample={"entry": "%s.%s" % (cls.name, mname), "attribute": a,
                                   "justification": E2_TABLE.get(key)})
    # justifications
    rp = prog.cls("quantarhei.qm.propagators.rdmpropagator.ReducedDensityMatrixPropagator")
    pf, _ = protocol_body(prog, rp, "propagate")
    sets = [n for n in walk_no_nested(pf.node) if isinstance(n, ast.Call) and call_name(n) == "setDtRefinement"]
    pm = parents_map(pf.node)
    ok = bool(sets)
    saved = None
    for c in sets:
        # either inside the finalbody of a try (restoring a saved value), or directly followed by such a try
        anc = []
        p = pm.get(c)
        while p is not None:
            anc.append(p)
            p = pm.get(p)
        tries = [a for a in anc if isinstance(a, ast.Try)]
        in_final = any(any(c is x for s in t.finalbody for x in ast.walk(s)) for t in tries)
        if in_final:
            continue
        st = anc[0] if isinstance(anc[0], ast.Expr) else None
        blk = None
        for a in anc:
            for fld in ("body", "orelse"):
                b = getattr(a, fld, None)
                if isinstance(b, list) and st in b:
                    blk = b
        follow = blk[blk.index(st) + 1] if blk and st in blk and blk.index(st) + 1 < len(blk) else None
        before = blk[:blk.index(st)] if blk and st in blk else []
        sv = [s for s in before if isinstance(s, ast.Assign) and norm(s.value) == "self.Nref"]
        good = isinstance(follow, ast.Try) and sv and \
            any(isinstance(x, ast.Call) and call_name(x) == "setDtRefinement" and x.args
                and norm(x.args[0]) == norm(sv[-1].targets[0]) for s in follow.finalbody for x in ast.walk(s)) \
            and all(isinstance(s, ast.Return) for s in follow.body)
        ok = ok and bool(good)
    run.obligation(rid, "ReducedDensityMatrixPropagator.propagate", ok, key="refinement-restored",
                   message="a refinement passed to propagate() must be restored when the call returns "
                           "(save, set, try: return ..., finally: restore)", loc=pf.loc(),
                   sample={"setDtRefinement_calls": len(sets)})
    # the restore goes through setDtRefinement: it only restores if that setter is total, i.e. it
    # assigns the attributes it manages on every path and for every argument value
    sf = prog.find_method(rp, "setDtRefinement")
    top = {norm(t_) for s_ in sf.node.body if isinstance(s_, ast.Assign) for t_ in s_.targets}
    everywhere = {norm(t_) for n in walk_no_nested(sf.node) if isinstance(n, ast.Assign) for t_ in n.targets
                  if norm(t_).startswith("self.")}
    cond = sorted(everywhere - top)
    early = [n for n in walk_no_nested(sf.node) if isinstance(n, (ast.Return, ast.Raise))
             and n is not sf.node.body[-1]]
    run.obligation(rid, "ReducedDensityMatrixPropagator.setDtRefinement", not cond and not early
                   and {"self.Nref", "self.dt"} <= top, key="restoring-setter-total",
                   message="propagate() restores the saved refinement by calling setDtRefinement(saved): the "
                           "setter must assign Nref and dt unconditionally; conditional stores %s / early exits %d "
                           "leave the per-call refinement in force for later calls" % (cond, len(early)),
                   loc=sf.loc(), sample={"unconditional": sorted(top), "conditional": cond})
    # _BOOT_DEPH before _APPLY_DEPH in every routine
    for name, f in rp.methods.items():
        ap = [n for n in walk_no_nested(f.node) if isinstance(n, ast.Call) and call_name(n) == "_APPLY_DEPH"]
        if not ap or name == "_APPLY_DEPH":
            continue
        from ..fresh import dominated_by_call
        # a boot call must precede every apply in an enclosing statement list (or run under the same condition)
        good = all(dominated_by_call(f.node, a, "_BOOT_DEPH") for a in ap)
        run.obligation(rid, f.short, good, key="boot-before-apply",
                       message="pure-dephasing factors (expo, t0) must be recomputed by _BOOT_DEPH before the "
                               "time loop of every routine that applies them", loc=f.loc(),
                       sample={"routine": f.short, "apply_sites": len(ap)})
    # has_Iterm assigned before read in the routines that write it
    for name, f in rp.methods.items():
        ws = [n for n in walk_no_nested(f.node) if isinstance(n, ast.Assign) and norm(n.targets[0]) == "self.has_Iterm"]
        if not ws or name == "__init__":
            continue
        first_w = min(n.lineno for n in ws)
        reads = [n.lineno for n in walk_no_nested(f.node) if isinstance(n, ast.Attribute) and norm(n) == "self.has_Iterm"
                 and isinstance(n.ctx, ast.Load)]
        srcs = {norm(n.value) for n in ws}
        good = all(r > first_w for r in reads) and srcs <= {"self.RelaxationTensor.has_Iterm", "False"}
        run.obligation(rid, f.short, good, key="iterm-flag",
                       message="has_Iterm must be taken from the relaxation tensor before it is read", loc=f.loc(),
                       sample={"routine": f.short})
    hp = prog.func("quantarhei.qm.liouvillespace.heom.KTHierarchyPropagator.propagate")
    ws = [norm(n.value) for n in walk_no_nested(hp.node) if isinstance(n, ast.Assign) and norm(n.targets[0]) == "self.Nref"]
    run.obligation(rid, "KTHierarchyPropagator.propagate", ws == ["1"], key="constant-store",
                   message="the hierarchy propagator may only store the constant refinement 1", loc=hp.loc())


def _scan(prog, E, f, roots):
    """effects on objects rooted at roots: (root text, kind, text, node)"""
    out = []
    for r, kind, n, text in E.direct_effects(f, roots):
        out.append((".".join(r), "store" if kind in ("store", "augassign", "delete", "inplace-method") else kind, text, n))
    al = E.aliases(f, roots)
    for call in [x for x in walk_no_nested(f.node) if isinstance(x, ast.Call)]:
        if isinstance(call.func, ast.Attribute):
            ch = base_chain(call.func.value)
            r = E.root_of(ch, roots, al)
            if r is not None and ch is not None and (ch == r or (ch[0] in al and len(ch) == 1)):
                w = set()
                for cl in prog.all_classes():
                    if call.func.attr in cl.methods:
                        w |= {(cl.name, x) for x in E.self_writes(cl.methods[call.func.attr])}
                if w:
                    out.append((".".join(r), "call:" + call.func.attr, "%s  [may write %s]" % (norm(call)[:70], sorted(w)[:3]), call))
    for k, v in E.param_effects(f).items():
        for d in v:
            if " via " in d:
                out.append((k, "via", d, f.node))
    return out


def rule_E8(run, prog):
    """'Repeating the call with the same inputs returns the same result whatever was computed with those objects in
    between': the propagators call methods of the relaxation tensor they were given (initial_term for the non-equilibrium
    theories).  Such a method may leave a result on the tensor, but it must compute it from nothing: an accumulation
    (`+=`) into storage that outlives the call - an attribute of the tensor, or a local bound to one - adds the
    contribution of this propagation to those of all earlier ones, unless the storage is allocated anew earlier in the
    same method.  All methods of the classes of qm.liouvillespace that the propagators call on self.RelaxationTensor, and
    the methods of self these call, are examined."""
    from .. import arrays, memo
    rid = "C15-E8"
    called = set()
    for q in PROPS:
        cls = prog.cls(q)
        for f in cls.methods.values():
            for c in walk_no_nested(f.node):
                if isinstance(c, ast.Call) and isinstance(c.func, ast.Attribute) and norm(c.func.value) in ("self.RelaxationTensor", "self.relt", "RR"):
                    called.add(c.func.attr)
    if not called:
        raise AnalysisError("C15-E8: the propagators call no method of their relaxation tensor")
    n = 0
    seen = set()
    for cls in prog.all_classes():
        if not cls.qualname.startswith("quantarhei.qm.liouvillespace.") or ".tests." in cls.qualname:
            continue
        methods = memo._class_methods(prog, cls)
        work = [m_ for m_ in called if m_ in cls.methods]
        depth = {m_: 0 for m_ in work}
        while work:
            m_ = work.pop()
            f = methods.get(m_)
            if f is None or (f.qualname in seen):
                continue
            seen.add(f.qualname)
            n += 1
            prog.consulted.add(f.relpath)
            acc = arrays.persistent_accumulators(f.node)
            run.obligation(rid, f.short, not acc, key="computed-from-nothing",
                           message="%s, which a propagation calls on its relaxation tensor, accumulates with `%s` into %s, storage that "
                                   "is not allocated anew in the method: the contribution of this propagation is added to those of all "
                                   "earlier propagations with the same tensor, so a repeated call returns another result"
                                   % (f.short, norm(acc[0][0])[:60] if acc else "", acc[0][1] if acc else ""),
                           loc=f.loc(acc[0][0]) if acc else f.loc(f.node))
            if depth[m_] < 2:
                for c in walk_no_nested(f.node):
                    if isinstance(c, ast.Call) and isinstance(c.func, ast.Attribute) and norm(c.func.value) == "self" and c.func.attr in methods:
                        if c.func.attr not in depth:
                            depth[c.func.attr] = depth[m_] + 1
                            work.append(c.func.attr)
    if n < 2:
        raise AnalysisError("C15-E8: only %d tensor methods reachable from the propagators found (initial_term, initial_term_nsc confirmed)" % n)


def rule_E3(run, prog, E):
    rid = "C15-E3"
    nfun = 0
    # arrays handed to the population propagator (initial populations, rate matrix): no write into them, also not
    # through numpy.asarray / slices / .T, which return the same storage (rule of C17-D)
    from . import c17
    from ..report import RuleProxy
    c17.rule_D(RuleProxy(run, rid, keep=lambda c, k: k in ("inputs-intact", "no-inplace")), prog)
    stored_inputs_intact(run, rid, prog, TENSORS + list(PROPS))


    def judge(f, found):
        nonlocal nfun
        nfun += 1
        if not found:
            run.instance(rid, {"function": f.short, "effects_on_inputs": 0})
            return
        for root, kind, text, node in found:
            acc = E3_ACCEPTED.get((f.short, root, kind)) or \
                E3_ACCEPTED.get((f.short.split(".")[0] + ".*", root, kind))
            run.obligation(rid, f.short, acc is not None, key="%s:%s:%s" % (root, kind, text.split("  [may write")[0][:60]),
                           message="%s modifies its input '%s' (%s): %s" % (f.short, root, kind, text),
                           loc=f.loc(node), sample={"function": f.short, "input": root, "effect": kind,
                                                    "accepted_because": acc})
    for q in PROPS:
        cls = prog.cls(q)
        hold = _input_holders(prog, cls)
        for name, f in cls.methods.items():
            if name == "__init__":
                continue
            params = [a.arg for a in f.node.args.args if a.arg != "self"]
            roots = [(x,) for x in params] + [("self", h) for h in sorted(hold)]
            judge(f, _scan(prog, E, f, roots))
    for q in TENSORS:
        cls = prog.cls(q)
        for name in ("__init__", "_implementation", "initialize", "_reference_implementation", "_set_rates"):
            f = cls.methods.get(name)
            if f is None:
                continue
            params = [a.arg for a in f.node.args.args if a.arg != "self"]
            hold = _input_holders(prog, cls) | {"Hamiltonian", "SystemBathInteraction"}
            roots = [(x,) for x in params] + [("self", h) for h in sorted(hold)]
            judge(f, _scan(prog, E, f, roots))
    osys = prog.cls("quantarhei.builders.opensystem.OpenSystem")
    for name, f in osys.methods.items():
        if not name.startswith("get_"):
            continue
        params = [a.arg for a in f.node.args.args if a.arg != "self"]
        roots = [(x,) for x in params]
        for n in walk_no_nested(f.node):
            if isinstance(n, ast.Assign) and isinstance(n.value, ast.Call) and \
                    call_name(n.value) in ("get_Hamiltonian", "get_SystemBathInteraction") and \
                    isinstance(n.targets[0], ast.Name):
                roots.append((n.targets[0].id,))
        judge(f, _scan(prog, E, f, roots))
    if nfun < 40:
        raise AnalysisError("effect analysis covered only %d functions" % nfun)
    # numerical kernels: module-level functions of the propagator modules that the methods call with the arrays of their
    # arguments.  A kernel may write into the array it is given for the result; a write (also through a local alias:
    # `psi2 = psii; psi2 += ...`) into a parameter that a caller binds to the data of one of its own arguments is a
    # write into the caller's state.
    from .. import arrays
    from ..loader import FuncInfo
    nker = 0
    for q in list(PROPS) + ["quantarhei.qm.propagators.oqssvpropagator.OQSStateVectorPropagator"]:
        cls = prog.cls(q)
        for name, f in cls.methods.items():
            mparams = [a.arg for a in f.node.args.args if a.arg != "self"]
            for c in walk_no_nested(f.node):
                if not (isinstance(c, ast.Call) and isinstance(c.func, ast.Name)):
                    continue
                try:
                    tgt = prog.resolve_name(f.module, c.func.id, f)
                except Exception:
                    tgt = None
                if not isinstance(tgt, FuncInfo) or tgt.cls is not None or not hasattr(tgt.node, "args"):
                    continue
                kparams = [a.arg for a in tgt.node.args.args]
                al = arrays.aliases(tgt.node, kparams)
                written = {}
                for node, text in arrays.inplace_effects(tgt.node, set(kparams) | al):
                    # which parameter does the written name go back to?
                    base = node.target if isinstance(node, ast.AugAssign) else (node.targets[0] if isinstance(node, ast.Assign) else None)
                    while isinstance(base, ast.Subscript):
                        base = base.value
                    nm = base.id if isinstance(base, ast.Name) else None
                    if nm is None:
                        continue
                    srcs = {nm} if nm in kparams else {p_ for p_ in kparams if nm in arrays.aliases(tgt.node, [p_])}
                    for p_ in srcs:
                        written.setdefault(p_, (node, text))
                nker += 1
                for p_, a_ in zip(kparams, c.args):
                    if p_ not in written:
                        continue
                    root = a_
                    while isinstance(root, (ast.Attribute, ast.Subscript)):
                        root = root.value
                    from_input = isinstance(root, ast.Name) and root.id in mparams
                    run.obligation(rid, f.short, not from_input, key="kernel-writes-input:%s:%s" % (tgt.name, p_),
                                   message="%s hands %s to the kernel %s as `%s`, and the kernel writes into that array (`%s`): the "
                                           "caller's %s is changed by the call, and the next call with it starts from another state"
                                           % (f.short, norm(a_), tgt.name, p_, written[p_][1], root.id if isinstance(root, ast.Name) else ""),
                                   loc=f.loc(c), sample={"kernel": tgt.name, "parameter": p_})
    if nker < 1:
        raise AnalysisError("C15-E3: no call of a module-level kernel found in the propagators")
    # justification checks for the accepted effects
    rp = prog.cls("quantarhei.qm.propagators.rdmpropagator.ReducedDensityMatrixPropagator")
    for name, f in rp.methods.items():
        its = [n for n in walk_no_nested(f.node) if isinstance(n, ast.Call) and call_name(n) == "initial_term"]
        for c in its:
            loops = [n.lineno for n in walk_no_nested(f.node) if isinstance(n, (ast.For, ast.While))
                     and any(isinstance(x, ast.Attribute) and x.attr == "Iterm" for x in ast.walk(n))]
            ok = [norm(a) for a in c.args] == ["rhoi"] and all(c.lineno < l for l in loops)
            run.obligation(rid, f.short, ok, key="iterm-recomputed",
                           message="the inhomogeneous term must be recomputed from this call's initial state "
                                   "before the loop that reads it", loc=f.loc(c))
        sr = [n for n in walk_no_nested(f.node) if isinstance(n, ast.Call) and call_name(n) == "set_rwa"
              and "EField" in norm(n.func)]
        rr = [n for n in walk_no_nested(f.node) if isinstance(n, ast.Call) and call_name(n) == "restore_rwa"
              and "EField" in norm(n.func)]
        if sr or rr:
            ok = len(sr) == len(rr) and sorted(norm(n.func.value) for n in sr) == sorted(norm(n.func.value) for n in rr) \
                and max(n.lineno for n in sr) < min(n.lineno for n in rr)
            loops = [n.lineno for n in walk_no_nested(f.node) if isinstance(n, ast.For) and "TimeAxis" in norm(n.iter)]
            ok = ok and all(max(n.lineno for n in rr) < l for l in loops)
            run.obligation(rid, f.short, ok, key="field-rwa-paired",
                           message="every set_rwa on the field object must be paired with restore_rwa on the "
                                   "same object before the time loop", loc=f.loc())


def rule_E5(run, prog):
    """'Repeating the call with the same inputs returns the same result whatever was computed in
    between.'  A builder of the open system that hands back something it keeps on self from an earlier
    call (self.RelaxationTensor, ...) makes the result depend on that earlier call unless the guard of
    the early return tests every argument that the computation below it reads."""
    rid = "C15-E5"
    osys = prog.cls("quantarhei.builders.opensystem.OpenSystem")
    n = 0
    for name, f in sorted(osys.methods.items()):
        if not name.startswith("get_"):
            continue
        params = [a.arg for a in f.node.args.args if a.arg != "self"] + [a.arg for a in f.node.args.kwonlyargs]
        if not params:
            continue
        n += 1
        stored = {t_.attr for x in walk_no_nested(f.node) if isinstance(x, ast.Assign) for t_ in x.targets
                  if isinstance(t_, ast.Attribute) and isinstance(t_.value, ast.Name) and t_.value.id == "self"}
        pm = parents_map(f.node)
        used = {p_: [x for x in walk_no_nested(f.node) if isinstance(x, ast.Name) and x.id == p_ and isinstance(x.ctx, ast.Load)]
                for p_ in params}
        bad = []
        for r in [x for x in walk_no_nested(f.node) if isinstance(x, ast.Return) and x.value is not None]:
            elts = r.value.elts if isinstance(r.value, ast.Tuple) else [r.value]
            kept = [e for e in elts if isinstance(e, ast.Attribute) and isinstance(e.value, ast.Name) and e.value.id == "self"
                    and e.attr in stored]
            if not kept:
                continue
            # a return of what this very call has just stored is not a cache: some store of the attribute precedes it
            fresh_ = all(any(isinstance(x, ast.Assign) and x.lineno < r.lineno and any(
                isinstance(t_, ast.Attribute) and norm(t_) == norm(e) for t_ in x.targets) for x in walk_no_nested(f.node))
                for e in kept)
            guards = []
            node = r
            while node in pm:
                par = pm[node]
                if isinstance(par, ast.If):
                    guards.append(par.test)
                node = par
            if fresh_ and not guards:
                continue
            tested = {x.id for g in guards for x in ast.walk(g) if isinstance(x, ast.Name)}
            # arguments read by the code after this return (the computation it skips)
            later = sorted(p_ for p_ in params if any(u.lineno > r.lineno for u in used[p_]) and p_ not in tested)
            if later and not fresh_:
                bad.append((r, [norm(e) for e in kept], later))
        run.obligation(rid, f.short, not bad, key="stored-result-key",
                       message="%s returns %s kept from an earlier call although the computation it skips depends on the "
                               "arguments %s, which the guard does not test" % (
                                   f.short, bad[0][1] if bad else "", bad[0][2] if bad else ""),
                       loc=f.loc(bad[0][0]) if bad else f.loc(), sample={"builder": f.short, "arguments": params[:8]})
    if n < 5:
        raise AnalysisError("only %d builders with arguments found on OpenSystem" % n)


def rule_E4(run, prog):
    rid = "C15-E4"
    for q in ("quantarhei.builders.opensystem.OpenSystem.get_RelaxationTensor",
              "quantarhei.builders.opensystem.OpenSystem.get_RedfieldRateMatrix"):
        f = prog.func(q)
        pm = parents_map(f.node)
        blocks = {}
        for n in walk_no_nested(f.node):
            if isinstance(n, ast.Expr) and isinstance(n.value, ast.Call) and \
                    call_name(n.value) in ("protect_basis", "unprotect_basis", "subtract_cutoff_coupling",
                                           "recover_cutoff_coupling"):
                par = pm.get(n)
                for fld in ("body", "orelse"):
                    b = getattr(par, fld, None)
                    if isinstance(b, list) and n in b:
                        blocks.setdefault(id(b), b)
        if not blocks:
            raise AnalysisError("%s: no protect/subtract calls found" % f.short)
        for bi, b in enumerate(sorted(blocks.values(), key=lambda b: b[0].lineno)):
            seq = []
            for s in b:
                if isinstance(s, ast.Expr) and isinstance(s.value, ast.Call) and isinstance(s.value.func, ast.Attribute):
                    nm = s.value.func.attr
                    if nm in ("protect_basis", "unprotect_basis", "subtract_cutoff_coupling", "recover_cutoff_coupling"):
                        seq.append((nm, norm(s.value.func.value)))
                elif isinstance(s, ast.With):
                    seq.append(("with", ""))
                elif isinstance(s, (ast.Return, ast.Raise)):
                    seq.append(("exit", ""))
            names = [x[0] for x in seq]
            if names and names[-1] == "exit":
                names = names[:-1]      # leaving after the restoring call is fine
            recv = {x[1] for x in seq if x[1]}
            ok = names in (["protect_basis", "with", "unprotect_basis"],
                           ["subtract_cutoff_coupling", "protect_basis", "with", "unprotect_basis",
                            "recover_cutoff_coupling"]) and len(recv) == 1
            run.obligation(rid, f.short, ok, key="paired#%d" % bi,
                           message="temporary modifications must be undone in nesting order on the normal "
                                   "path: found %s" % names, loc="%s:%d" % (f.relpath, b[0].lineno),
                           sample={"function": f.short, "sequence": names, "receiver": sorted(recv)})
        # no early exit inside the with blocks between protect and unprotect
        for bi, b in enumerate(sorted(blocks.values(), key=lambda b: b[0].lineno)):
            for s in b:
                if isinstance(s, ast.With):
                    esc = [x for x in ast.walk(s) if isinstance(x, (ast.Return, ast.Break, ast.Continue))]
                    run.obligation(rid, f.short, not esc, key="no-escape#%d" % bi,
                                   message="return/break inside the protected region skips the restoring call",
                                   loc="%s:%d" % (f.relpath, s.lineno))
    # the paired operations are inverse of each other
    h = "quantarhei.qm.hilbertspace.hamiltonian.Hamiltonian."
    rec = prog.func(h + "recover_cutoff_coupling")
    st = [norm(s) for s in ast.walk(rec.node) if isinstance(s, ast.stmt)]
    ok = "self._data += self.JR" in st and "self._has_remainder_coupling = False" in st
    run.obligation(rid, "Hamiltonian.recover_cutoff_coupling", ok, key="inverse",
                   message="recover_cutoff_coupling must add the remainder coupling back", loc=rec.loc())
    bm = prog.cls("quantarhei.core.managers.BasisManaged")
    ok = [norm(s) for s in bm.methods["protect_basis"].node.body] == ["self.is_basis_protected = True"] and \
        [norm(s) for s in bm.methods["unprotect_basis"].node.body] == ["self.is_basis_protected = False"]
    run.obligation(rid, "BasisManaged.protect_basis", ok, key="flag-pair",
                   message="protect/unprotect must set and clear the same flag", loc=bm.module.relpath)


def stored_inputs_intact(run, rid, prog, classes):
    """An object that keeps an array of one of its arguments without a copy (directly, through a local, through a
    helper that stores what it is handed) must never write into it in place - not in the constructor and not in
    any later method (a basis transformation of the stored operators, say): the argument belongs to the caller and
    to every other object built from it."""
    from .. import arrays
    n = 0
    for q in classes:
        cls = prog.cls(q)
        res, methods = arrays.stored_input_aliases(prog, cls)
        writes = arrays.inplace_writes_to_attributes(methods, set(res))
        by_attr = {}
        for fn, node, text in writes:
            for a in res:
                if ("self.%s" % a) in text or ("self._%s" % a.lstrip("_")) in text:
                    by_attr.setdefault(a, []).append((fn, node, text))
        for a, (desc, sf, snode) in sorted(res.items()):
            n += 1
            prog.consulted.add(sf.relpath)
            w = by_attr.get(a, [])
            run.obligation(rid, "%s.%s" % (cls.name, a), not w, key="stored-input-intact",
                           message="%s keeps %s as self.%s without a copy and %s writes into it in place (%s): the caller's "
                                   "array, and every other object built from the same argument, is changed"
                                   % (cls.name, desc, a, w[0][0].short if w else "", w[0][2] if w else ""),
                           loc=(w[0][0].loc(w[0][1]) if w else sf.loc(snode)),
                           sample={"class": cls.name, "attribute": a, "bound_to": desc})
    if n < 20:
        raise AnalysisError("stored-input analysis found only %d attributes bound to arguments" % n)
