"""C18 - saved objects and exported data load back to the same physical values.

Decided statically: the extension lists and the save/load dispatch of
DataSaveable and MatrixData agree pairwise, each branch pairs a writer with
the matching reader and key, every API they call exists (A); pickled state
must be basis-context free (B, one open finding); the text importers of the
two classes handle the same dtypes (C); storage of units-managed classes is
internal, so pickles are unit-context free (D, C05-U5 instances); whole-object
pickling goes through one versioned parcel (E).  Not decided: byte-level
contents of pickles, scipy's shape conventions for .mat files.
"""
import ast

from ..loader import parents_map, AnalysisError, norm, walk_no_nested, call_name, const_value
from .. import apiexist
from . import c05

DS = "quantarhei.core.datasaveable.DataSaveable"
MD = "quantarhei.core.matrixdata.MatrixData"

# writer API -> (reader API, how the reader selects the stored array)
PAIRS = {
    "numpy.save": ("numpy.load", None),
    "numpy.savez_compressed": ("numpy.load", "data"),
    "numpy.savetxt": ("numpy.loadtxt", None),
    "scipy.io.savemat": ("scipy.io.loadmat", "data"),
}


def check(run, prog, tier):
    run.explanation = (
        "Table agreement between extension lists, save dispatch and load dispatch (constant folding "
        "of the literal lists and comparison chains), writer/reader pairing with key agreement per "
        "format, API existence of every numpy/scipy call on these paths, sibling comparison of the "
        "two text importers, a mechanism rule for basis tags in pickles, and the C05-U5 instances "
        "that make pickled unit-managed storage context free.")
    run.trusted_base = ["numpy/scipy writers and readers of one format are mutually inverse on values",
                        "dill pickles the instance dictionary unchanged"]
    run.rule("C18-A", "format tables agree; writers paired with matching readers; APIs exist", minimum=30)
    run.rule("C18-B", "pickled state is basis-context free", minimum=1)
    run.rule("C18-C", "text importers handle real and complex data alike", minimum=2)
    run.rule("C18-D", "units-managed storage is internal (pickles are unit-context free)", minimum=10)
    run.rule("C18-E", "whole-object save/load go through one parcel format", minimum=4)
    run.rule("C18-G", "the index of a save directory is rebuilt from the directory on every save", minimum=2)
    run.rule("C18-F", "pickling hooks restore state without recomputing from units- or basis-managed reads", minimum=20)
    rule_A(run, prog)
    rule_B(run, prog)
    rule_C(run, prog)
    rule_D(run, prog)
    rule_E(run, prog)
    rule_F(run, prog)
    rule_G(run, prog)
    run.rule("C18-H", "exporters and importers of basis- or units-managed classes move the values through the managed "
                      "property, never through its raw storage", minimum=8)
    rule_H(run, prog)
    run.rule("C18-J", "importers hand internal values to units-managed setters only under internal units (rule of C05-U16, "
                      "load/import functions)", minimum=10)
    from . import c05
    from ..report import RuleProxy
    c05.rule_U16(RuleProxy(run, "C18-J", keep=lambda construct, key: any(w in construct for w in ("load", "import", "Load", "Import"))), prog,
                 always=lambda f: any(w in f.name for w in ("load", "import", "Load", "Import")))
    run.rule("C18-I", "exported arrays can hold what is put into them (axis next to data), and what a format cannot represent "
                      "(the rank of one-dimensional data in a Matlab file) is stored with the data and restored", minimum=4)
    rule_I(run, prog)
    run.rule("C18-K", "what is imported belongs to the object: arrays are read from the file into memory, never mapped onto it "
                      "(a mapped array changes with the file, and writes into it rewrite the file)", minimum=8)
    rule_K(run, prog)
    run.rule("C18-L", "text files keep the shape of what was exported (rank written, nothing squeezed on reading), and an axis "
                      "filled from a file is changed as a whole (points, start, step, length)", minimum=5)
    rule_L(run, prog)
    run.rule("C18-O", "data read from a text file get the rank recorded in the file: where a rank was recorded the array is brought to "
                      "exactly that rank; dropping 'all dimensions of length one' (squeeze without an axis) is what is done when no rank "
                      "was recorded, only then", minimum=1)
    rule_O(run, prog)
    run.rule("C18-N", "saving and loading leave the position of a file handed in by the caller alone (except under the test option)", minimum=4)
    rule_N(run, prog)
    run.rule("C18-M", "the save/load entry points of every class call the routines they delegate to with arguments these take "
                      "(an override that passes keywords its parent does not know cannot import what was exported)", minimum=10)
    from .. import apiexist
    entry = [f for f in prog.all_functions() if f.name in ("load_data", "save_data", "load", "save", "loaddir", "savedir")
             and ".tests." not in f.qualname and ".wizard." not in f.qualname]
    n_ = apiexist.check_call_arity(run, "C18-M", prog, entry, "the file cannot be read back by this class")
    if n_ < 10:
        raise AnalysisError("C18-M: only %d save/load entry points with resolved calls (14 confirmed)" % n_)


def rule_N(run, prog):
    """'Saving any saveable object and loading it returns an object with the same observable data': save() and
    save_parcel() accept an open file and write the parcel at the position where the file stands, so several objects can be
    saved one after another into one file and read back in the same order.  That works only if saving and loading leave
    the position of the caller's file alone: a loader that rewinds the file it is given returns the first object for
    every load.  In core/parcel.py and core/saveable.py a parameter is never repositioned (seek / truncate) except under
    the explicit `test` option of save() and load(), which is documented to rewind."""
    rid = "C18-N"
    n = 0
    for f in prog.all_functions():
        if not (f.qualname.startswith("quantarhei.core.parcel.") or f.qualname.startswith("quantarhei.core.saveable.")) \
                or not hasattr(f.node, "args"):
            continue
        params = {a.arg for a in f.node.args.args}
        if not params & {"filename", "file", "fid", "f", "fname"}:
            continue
        n += 1
        prog.consulted.add(f.relpath)
        pm = parents_map(f.node)
        bad = None
        for c in walk_no_nested(f.node):
            if isinstance(c, ast.Call) and isinstance(c.func, ast.Attribute) and c.func.attr in ("seek", "truncate") \
                    and isinstance(c.func.value, ast.Name) and c.func.value.id in params:
                under_test = False
                node = c
                while node is not None and node is not f.node:
                    node = pm.get(node)
                    if isinstance(node, ast.If) and "test" in {y.id for y in ast.walk(node.test) if isinstance(y, ast.Name)}:
                        under_test = True
                if not under_test:
                    bad = c
        run.obligation(rid, f.short, bad is None, key="stream-position-left-alone",
                       message="%s repositions the file it was given (`%s`): objects saved one after another into one open file can "
                                   "no longer be read back in order - every load starts at the same place and returns the same "
                                   "(first) object" % (f.short, norm(bad) if bad else ""), loc=f.loc(bad) if bad else f.loc(f.node))
    if n < 4:
        raise AnalysisError("C18-N: only %d functions of the parcel machinery take a file" % n)


def rule_L(run, prog):
    """'... returns the same values, with or without an accompanying axis' (i) A text file holds rows and columns.
    numpy.loadtxt squeezes what it reads - a (1, N) or (N, 1) matrix comes back as (N,), a 1x1 matrix as a 0-d array -
    unless told ndmin=2; and a one-dimensional array is written as a column, so the rank has to travel with the file:
    every text exporter writes it (a header line that names ndim), every text importer of the same class reads with
    ndmin=2.  (ii) An axis is start, step, length and the points computed from them.  An importer that assigns the points
    read from the file to the axis object it was given (`axis.data = ...`) assigns start, step and length as well:
    look-ups on the axis (DFunction.at, locate, nearest) go through start and step."""
    rid = "C18-L"
    n = 0
    for q in ("quantarhei.core.matrixdata.MatrixData", "quantarhei.core.datasaveable.DataSaveable"):
        cls = prog.cls(q)
        exp, imp = cls.methods.get("_exportDataToText"), cls.methods.get("_importDataFromText")
        if exp is None or imp is None:
            raise AnalysisError("%s: text exporter / importer not found" % cls.name)
        prog.consulted.add(exp.relpath)
        for c in walk_no_nested(exp.node):
            if isinstance(c, ast.Call) and (call_name(c) or "").split(".")[-1] == "savetxt":
                n += 1
                hd = [k for k in c.keywords if k.arg == "header"]
                ok = bool(hd) and "ndim" in norm(hd[0].value)
                # the table of data with an axis is two-dimensional by construction
                tab = c.args[1] if len(c.args) > 1 else None
                if isinstance(tab, ast.Name) and any(isinstance(a_, ast.Assign) and norm(a_.targets[0]) == tab.id and isinstance(a_.value, ast.Call)
                                                      and (call_name(a_.value) or "").endswith("_data_with_axis") for a_ in walk_no_nested(exp.node)):
                    ok = True
                run.obligation(rid, exp.short, ok, key="rank-written:" + norm(c)[:40],
                               message="%s writes `%s` without recording the number of dimensions: a text file holds rows and columns "
                                       "only - a one-dimensional array is written as a column, a (1, N) matrix as one row - and the "
                                       "importer cannot tell them apart" % (exp.short, norm(c)[:60]), loc=exp.loc(c))
        for c in walk_no_nested(imp.node):
            if isinstance(c, ast.Call) and (call_name(c) or "").split(".")[-1] == "loadtxt":
                n += 1
                nd = [k for k in c.keywords if k.arg == "ndmin"]
                ok = bool(nd) and isinstance(nd[0].value, ast.Constant) and nd[0].value.value == 2
                run.obligation(rid, imp.short, ok, key="not-squeezed:" + norm(c)[:40],
                               message="%s reads with `%s`: numpy.loadtxt drops every dimension of length one - a (1, N) or (N, 1) "
                                       "matrix comes back as (N,), a 1x1 matrix as a number" % (imp.short, norm(c)[:60]), loc=imp.loc(c))
    # (ii)
    for f in prog.all_functions():
        if ".tests." in f.qualname or ".wizard." in f.qualname or not hasattr(f.node, "args"):
            continue
        params = {a.arg for a in f.node.args.args[1:]}
        stores = {}
        for st in walk_no_nested(f.node):
            if isinstance(st, ast.Assign):
                for t_ in st.targets:
                    if isinstance(t_, ast.Attribute) and isinstance(t_.value, ast.Name) and t_.value.id in params \
                            and "axis" in t_.value.id.lower():
                        stores.setdefault(t_.value.id, {})[t_.attr] = st
        for obj, att in stores.items():
            if "data" not in att:
                continue
            n += 1
            prog.consulted.add(f.relpath)
            missing = [a for a in ("start", "step", "length") if a not in att]
            run.obligation(rid, f.short, not missing, key="axis-kept-whole:" + obj,
                           message="%s assigns the points of the axis it was given (%s.data = ...) and leaves %s as they were: the axis "
                                   "object then answers look-ups (at, locate, nearest) from the old start and step - values are found "
                                   "at the wrong points or 'out of bounds'" % (f.short, obj, ", ".join(obj + "." + a for a in missing)),
                           loc=f.loc(att["data"]), sample={"axis": obj})
    # (iii) the points read from the file are in the units current for the caller, and the setters of a frequency axis
    # convert what they are given.  Points and start convert element by element; a step is a *difference*, and the
    # difference of two values in a reciprocal unit (nm) converts to nothing meaningful: the step is computed from the
    # internal values, i.e. inside an energy_units("int") block and not from the parameter.
    from ..loader import parents_map
    for f in prog.all_functions():
        if ".tests." in f.qualname or ".wizard." in f.qualname or not hasattr(f.node, "args"):
            continue
        params = {a.arg for a in f.node.args.args[1:]}
        pm = None
        for st in walk_no_nested(f.node):
            if not (isinstance(st, ast.Assign) and len(st.targets) == 1 and isinstance(st.targets[0], ast.Attribute)
                    and st.targets[0].attr == "step" and isinstance(st.targets[0].value, ast.Name)
                    and st.targets[0].value.id in params and "axis" in st.targets[0].value.id.lower()):
                continue
            n += 1
            prog.consulted.add(f.relpath)
            pm = pm or parents_map(f.node)
            inside = False
            p_ = pm.get(st)
            while p_ is not None:
                if isinstance(p_, ast.With) and any(norm(i.context_expr).replace('"', "'") == "energy_units('int')" for i in p_.items):
                    inside = True
                p_ = pm.get(p_)
            from_param = any(isinstance(x, ast.Name) and x.id in params and x.id != st.targets[0].value.id for x in ast.walk(st.value))
            is_diff = any(isinstance(x, ast.BinOp) and isinstance(x.op, ast.Sub) for x in ast.walk(st.value))
            ok = inside or not (from_param and is_diff)
            run.obligation(rid, f.short, ok, key="axis-step-internal:" + st.targets[0].value.id,
                           message="%s assigns `%s`: a difference of two values given in the caller's units goes through the "
                                   "converting setter of the step - under a reciprocal unit (nm) the axis read back has another "
                                   "step than the one exported" % (f.short, norm(st)[:70]), loc=f.loc(st))
    if n < 6:
        raise AnalysisError("C18-L: only %d text readers/writers and axis assignments found" % n)


def _implies_none(test, name, when):
    """Does `test` being `when` (True/False) imply that <name> is None?"""
    t_, neg = test, False
    while isinstance(t_, ast.UnaryOp) and isinstance(t_.op, ast.Not):
        t_, neg = t_.operand, not neg
    want = when != neg
    if isinstance(t_, ast.Compare) and len(t_.ops) == 1 and isinstance(t_.left, ast.Name) and t_.left.id == name \
            and isinstance(t_.comparators[0], ast.Constant) and t_.comparators[0].value is None:
        return isinstance(t_.ops[0], ast.Is) == want
    if isinstance(t_, ast.BoolOp):
        if isinstance(t_.op, ast.And) and want:
            return any(_implies_none(v, name, True) for v in t_.values)
        if isinstance(t_.op, ast.Or) and not want:
            return any(_implies_none(v, name, False) for v in t_.values)
    return False


def _ends(stmts):
    return bool(stmts) and isinstance(stmts[-1], (ast.Return, ast.Raise))


def rule_O(run, prog):
    """'... returns the same values': an array of one value, a (1, N) row, an (N, 1) column and an (N,) vector are four
    different arrays.  The exporters record the rank; the function that gives the table read with ndmin=2 its rank back
    knows it (`ndim`).  numpy.squeeze without an axis makes the rank depend on the *shape*: a one-dimensional array with
    one element comes back as a number.  Every such call in the text importers stands where `ndim is None` holds: in the
    arm of an `if` that implies it, or after an `if ndim is not None` whose body leaves the function."""
    from ..loader import parents_map
    rid = "C18-O"
    n = 0
    for q in ("quantarhei.core.matrixdata", "quantarhei.core.datasaveable"):
        prog.module(q)
    for f in list(prog.all_functions()):
        if f.module.name not in ("quantarhei.core.matrixdata", "quantarhei.core.datasaveable") or not hasattr(f.node, "args"):
            continue
        names = {a.arg for a in f.node.args.args} | {x.id for x in walk_no_nested(f.node) if isinstance(x, ast.Name)
                                                     and isinstance(x.ctx, ast.Store)}
        if "ndim" not in names:
            continue
        n += 1
        prog.consulted.add(f.relpath)
        pm = parents_map(f.node)
        bad = None
        for c in walk_no_nested(f.node):
            if not (isinstance(c, ast.Call) and (call_name(c) or "").split(".")[-1] == "squeeze"):
                continue
            if any(k.arg == "axis" for k in c.keywords) or len(c.args) > 1:
                continue                      # a named axis: the rank of the result is fixed
            ok = False
            x = c
            while x is not None and x is not f.node and not ok:
                p_ = pm.get(x)
                if isinstance(p_, ast.If) and x is not p_.test:
                    ok = _implies_none(p_.test, "ndim", x in p_.body)
                if not ok and p_ is not None:
                    for fld in ("body", "orelse"):
                        blk = getattr(p_, fld, None)
                        if isinstance(blk, list) and x in blk:
                            for prev in blk[:blk.index(x)]:
                                if isinstance(prev, ast.If) and ((_ends(prev.body) and _implies_none(prev.test, "ndim", False))
                                                                 or (_ends(prev.orelse) and _implies_none(prev.test, "ndim", True))):
                                    ok = True
                x = p_
            if not ok:
                bad = c
                break
        run.obligation(rid, f.short, bad is None, key="rank-restored",
                       message="%s knows the rank recorded in the file (`ndim`) and calls `%s` where a rank may have been recorded: the "
                               "dimensions dropped depend on the shape, not on the record - a one-dimensional array holding one value "
                               "comes back as a number, a (1, 1) matrix recorded as one-dimensional likewise"
                               % (f.short, norm(bad)[:50] if bad is not None else ""),
                       loc=f.loc(bad if bad is not None else f.node))
    if n < 1:
        raise AnalysisError("C18-O: no function of the text importers handles a recorded rank (`ndim`)")


def rule_K(run, prog):
    """'Exporting ... and importing it returns the same values': also at the second import, and after the object of the
    first import was worked with.  numpy.load(..., mmap_mode=...) (any mode: 'r+' writes through, 'r' and 'c' follow the
    file when it is written again), numpy.memmap, open_memmap and numpy.fromfile-with-offset views tie the array to the
    file.  Every reading call in the package is of the copying kind."""
    rid = "C18-K"
    n = 0
    READ = ("load", "loadtxt", "loadmat", "genfromtxt", "fromfile")
    for f in prog.all_functions():
        if ".tests." in f.qualname or ".wizard." in f.qualname:
            continue
        for c in walk_no_nested(f.node):
            if not isinstance(c, ast.Call):
                continue
            cn = (call_name(c) or "")
            last = cn.split(".")[-1]
            recv = norm(c.func.value) if isinstance(c.func, ast.Attribute) else ""
            if last in ("memmap", "open_memmap"):
                n += 1
                prog.consulted.add(f.relpath)
                run.obligation(rid, f.short, False, key="mapped:" + norm(c)[:40],
                               message="%s maps a file into memory (%s): the array and the file are one storage" % (f.short, norm(c)[:60]),
                               loc=f.loc(c))
            elif last in READ and recv in ("numpy", "np", "io", "scipy.io", "sio"):
                n += 1
                prog.consulted.add(f.relpath)
                mm = [k for k in c.keywords if k.arg == "mmap_mode" and not (isinstance(k.value, ast.Constant) and k.value.value is None)]
                if last == "load" and len(c.args) >= 2 and not (isinstance(c.args[1], ast.Constant) and c.args[1].value is None):
                    mm = mm or [c.args[1]]
                if mm:
                    par = parents_map(f.node).get(c)
                    if isinstance(par, ast.Call) and (call_name(par) or "").split(".")[-1] == "array" and par.args and par.args[0] is c \
                            and not any(k.arg == "copy" for k in par.keywords):
                        mm = []     # numpy.array(<map>) copies out of the map
                    if isinstance(par, ast.Attribute) and par.attr == "copy":
                        mm = []
                run.obligation(rid, f.short, not mm, key="read-into-memory:" + norm(c)[:40],
                               message="%s reads with `%s`: the array handed to the object is a memory map of the file, not a copy - "
                                       "in-place work on the object rewrites the file (a second import returns changed values), and "
                                       "writing the file again changes every object that imported it" % (f.short, norm(c)[:70]),
                               loc=f.loc(c), sample={"call": norm(c)[:70]})
    if n < 8:
        raise AnalysisError("C18-K: only %d reading calls found in the package (10 confirmed)" % n)


def rule_I(run, prog):
    """'Exporting a data array to any supported file format and importing it returns the same values, with or without an
    accompanying axis.'
    (i) _data_with_axis builds one array from two sources, the axis and the data.  Every array it allocates and then fills
    from both has an element type computed from both (numpy.result_type over self.data and the axis, or an equivalent
    promotion); the type of one source alone truncates or complexifies the other.  The importer takes the axis back as
    real numbers.
    (ii) savemat stores one-dimensional arrays as rows and loadmat returns matrices: _saveMatlab stores the number of
    dimensions next to the data on every path, and _loadMatlab reshapes with it before the data are used."""
    rid = "C18-I"
    ds = prog.cls("quantarhei.core.datasaveable.DataSaveable")
    f = ds.methods["_data_with_axis"]
    prog.consulted.add(f.relpath)
    ax = f.node.args.args[1].arg
    allocs = [n for n in walk_no_nested(f.node) if isinstance(n, ast.Assign) and isinstance(n.value, ast.Call) and call_name(n.value) == "zeros"]
    if len(allocs) < 2:
        raise AnalysisError("_data_with_axis: the combined arrays are no longer allocated with zeros")
    # names bound to a common type
    common = set()
    for n in walk_no_nested(f.node):
        if isinstance(n, ast.Assign) and isinstance(n.value, ast.Call) and call_name(n.value) in ("result_type", "promote_types", "find_common_type"):
            txt = [norm(a) for a in n.value.args]
            if any("self.data" in t_ for t_ in txt) and any(t_.startswith(ax + ".") or t_ == ax for t_ in txt):
                common |= {norm(t_) for t_ in n.targets}
    for a_ in allocs:
        dt = [k.value for k in a_.value.keywords if k.arg == "dtype"]
        ok = False
        if dt:
            d = dt[0]
            ok = norm(d) in common or (isinstance(d, ast.Call) and call_name(d) in ("result_type", "promote_types")
                                       and any("self.data" in norm(x) for x in d.args) and any(norm(x).startswith(ax) for x in d.args))
        run.obligation(rid, "DataSaveable._data_with_axis", ok, key="holds-axis-and-data:" + norm(a_)[:40],
                       message="_data_with_axis allocates the exported array with %s and writes both the axis and the data into it: "
                               "an axis of real numbers is truncated next to whole-number data and comes back complex next to complex data"
                               % (norm(dt[0]) if dt else "the default type"), loc=f.loc(a_), sample={"allocation": norm(a_)[:80]})
    g = ds.methods["_extract_data_with_axis"]
    axp = g.node.args.args[2].arg
    given = [(n, n.value) for n in walk_no_nested(g.node) if isinstance(n, ast.Assign) and norm(n.targets[0]).endswith(".data")
             and isinstance(n.targets[0], ast.Attribute) and norm(n.targets[0].value) == axp]
    # or handed, with the axis, to a method of self that fills the axis object
    given += [(n, n.args[1]) for n in walk_no_nested(g.node) if isinstance(n, ast.Call) and isinstance(n.func, ast.Attribute)
              and norm(n.func.value) == "self" and len(n.args) == 2 and norm(n.args[0]) == axp]
    if not given:
        raise AnalysisError("_extract_data_with_axis: the points of the axis are not taken from the file any more")
    for st, val in given:
        ok = isinstance(val, ast.Call) and call_name(val) == "real"
        run.obligation(rid, "DataSaveable._extract_data_with_axis", ok, key="axis-real:" + norm(st)[:40],
                       message="the importer assigns %s to the axis: stored next to complex data the axis column is complex and the "
                               "axis handed back is too" % norm(val), loc=g.loc(st))
    sv, ld = ds.methods["_saveMatlab"], ds.methods["_loadMatlab"]
    saves = [c for c in walk_no_nested(sv.node) if isinstance(c, ast.Call) and call_name(c) == "savemat"]
    if not saves:
        raise AnalysisError("_saveMatlab: savemat call not found")
    for c in saves:
        d = c.args[1] if len(c.args) > 1 else None
        keys = {k.value: v for k, v in zip(d.keys, d.values) if isinstance(k, ast.Constant)} if isinstance(d, ast.Dict) else {}
        ok = "data" in keys and any(norm(v) == norm(keys["data"]) + ".ndim" for k, v in keys.items() if k != "data")
        run.obligation(rid, "DataSaveable._saveMatlab", ok, key="rank-stored:" + norm(c)[:40],
                       message="_saveMatlab writes %s without the number of dimensions of the data: a one-dimensional array is stored "
                               "as a row and cannot be told from a 1 x N matrix when it is loaded" % norm(c)[:60], loc=sv.loc(c))
    rank_key = None
    for c in saves:
        d = c.args[1] if len(c.args) > 1 else None
        if isinstance(d, ast.Dict):
            for k, v in zip(d.keys, d.values):
                if isinstance(k, ast.Constant) and norm(v).endswith(".ndim"):
                    rank_key = k.value
    resh = [c for c in walk_no_nested(ld.node) if isinstance(c, ast.Call) and isinstance(c.func, ast.Attribute) and c.func.attr in ("reshape", "ravel", "flatten", "squeeze")]
    reads_key = rank_key is not None and any(isinstance(x, ast.Constant) and x.value == rank_key for x in ast.walk(ld.node))
    run.obligation(rid, "DataSaveable._loadMatlab", bool(resh) and reads_key, key="rank-restored",
                   message="_loadMatlab uses the matrix returned by loadmat as it is: one-dimensional data come back with shape (1, N)",
                   loc=ld.loc(ld.node))


def rule_H(run, prog):
    """The `data` of a managed class is a property: reading it inside a basis (or units) context first brings the
    object into that context.  .npy/.npz/.mat exports and all importers go through the property; an exporter that
    reads `self._data` writes whatever representation the object happens to be in - the site basis if the export
    is the object's first use inside the context - so the file does not load back to the values the other formats
    and the reader give."""
    import re
    from .. import memo, unitflow
    rid = "C18-H"
    pat_ = re.compile(r"^(_export|_import|_load|_save|save_data$|load_data$|_add_axis|_extract_data)")
    n = 0
    for c in sorted(prog.all_classes(), key=lambda c: c.qualname):
        if ".tests." in c.qualname or ".wizard." in c.qualname:
            continue
        managed = memo.basis_managed_attributes(prog, c) | unitflow.converted_attributes(prog, c)
        if not managed:
            continue
        meths = {}
        for b in reversed([x for x in prog.mro(c) if x is not None]):
            for nme, fn in b.methods.items():
                if pat_.match(nme):
                    meths[nme] = fn
        for nme, fn in sorted(meths.items()):
            raw = [x for x in ast.walk(fn.node) if isinstance(x, ast.Attribute) and isinstance(x.value, ast.Name)
                   and x.value.id == "self" and x.attr.startswith("_") and x.attr[1:] in managed]
            n += 1
            prog.consulted.add(fn.relpath)
            run.obligation(rid, "%s.%s" % (c.name, nme), not raw, key="through-the-property",
                           message="%s (reached from %s) touches the raw storage %s of a managed property: the values "
                                   "written or read are those of whatever basis/units the object was last used in, not "
                                   "of the current context" % (fn.short, c.name, sorted({norm(x) for x in raw})),
                           loc=fn.loc(raw[0]) if raw else fn.loc(),
                           sample={"class": c.name, "method": fn.short, "managed": sorted(managed)})
    if n < 8:
        raise AnalysisError("C18-H: only %d export/import methods of managed classes found" % n)


def _dispatch(f):
    """(extension list, {extension: helper method name})"""
    lists = [n for n in walk_no_nested(f.node) if isinstance(n, ast.Compare) and isinstance(n.ops[0], ast.NotIn)
             and isinstance(n.comparators[0], ast.List)]
    if len(lists) != 1:
        raise AnalysisError("%s: extension list not found" % f.short)
    exts = [const_value(e) for e in lists[0].comparators[0].elts]
    table = {}
    chain = [n for n in f.node.body if isinstance(n, ast.If) and not any(isinstance(x, ast.Raise) for x in n.body)]
    if len(chain) != 1:
        raise AnalysisError("%s: dispatch chain not found" % f.short)
    node = chain[0]
    while node is not None:
        exs = [c.comparators[0].value for c in ast.walk(node.test) if isinstance(c, ast.Compare)
               and isinstance(c.ops[0], ast.Eq) and isinstance(c.comparators[0], ast.Constant)]
        calls = [call_name(s.value) for s in node.body if isinstance(s, ast.Expr) and isinstance(s.value, ast.Call)]
        if len(calls) != 1:
            raise AnalysisError("%s: dispatch branch without a single helper call" % f.short)
        for e in exs:
            table[e] = calls[0]
        node = node.orelse[0] if node.orelse and isinstance(node.orelse[0], ast.If) else None
    return exts, table


def _io_calls(prog, f):
    out = []
    for c in [n for n in walk_no_nested(f.node) if isinstance(n, ast.Call)]:
        ext = prog.external_name(f, c.func)
        if ext and ext.split(".")[0] in ("numpy", "scipy"):
            out.append((ext, c))
    return out


def rule_A(run, prog):
    rid = "C18-A"
    for q, cname in ((DS, "DataSaveable"), (MD, "MatrixData")):
        cls = prog.cls(q)
        sv, ld = cls.methods["save_data"], cls.methods["load_data"]
        prog.consulted.add(sv.relpath)
        e1, t1 = _dispatch(sv)
        e2, t2 = _dispatch(ld)
        run.obligation(rid, cname, sorted(e1) == sorted(e2), key="extension-lists",
                       message="save_data and load_data accept different extensions: %s vs %s" % (e1, e2),
                       loc=sv.loc(), sample={"class": cname, "extensions": e1})
        for e in sorted(set(e1) | set(e2)):
            ok = e in t1 and e in t2
            run.obligation(rid, cname, ok, key="branch:" + e,
                           message="extension %s is accepted but has no branch in %s" %
                                   (e, "save_data" if e not in t1 else "load_data"), loc=sv.loc(),
                           sample={"class": cname, "extension": e, "save": t1.get(e), "load": t2.get(e)})
            if not ok:
                continue
            ws, rs = cls.methods.get(t1[e]), cls.methods.get(t2[e])
            if ws is None or rs is None:
                run.obligation(rid, cname, False, key="helper:" + e,
                               message="helper %s/%s not defined" % (t1[e], t2[e]), loc=sv.loc())
                continue
            wcalls = [(x, c) for x, c in _io_calls(prog, ws) if x in PAIRS]
            rcalls = [(x, c) for x, c in _io_calls(prog, rs)]
            wapis = {x for x, _ in wcalls}
            ok = len(wapis) == 1
            run.obligation(rid, "%s.%s" % (cname, t1[e]), ok, key="one-writer:" + e,
                           message="writer for %s must use exactly one format API on all its paths (found %s)"
                           % (e, sorted(wapis)), loc=ws.loc(), sample={"extension": e, "writer": sorted(wapis)})
            if not ok:
                continue
            wapi = wapis.pop()
            rapi, key = PAIRS[wapi]
            ok = any(x == rapi for x, _ in rcalls)
            run.obligation(rid, "%s.%s" % (cname, t2[e]), ok, key="reader:" + e,
                           message="data written with %s must be read with %s" % (wapi, rapi), loc=rs.loc(),
                           sample={"extension": e, "writer": wapi, "reader": rapi})
            if key is not None:
                # the writer stores under the key the reader selects
                wk = True
                for x, c in wcalls:
                    if wapi == "numpy.savez_compressed":
                        wk = wk and any(k.arg == key for k in c.keywords)
                    else:
                        wk = wk and len(c.args) >= 2 and isinstance(c.args[1], ast.Dict) and \
                            key in [const_value(k) for k in c.args[1].keys]
                # the reader selects the key from the loaded file: directly on the call, or on the name bound to it
                loaded = {t_.id for n in walk_no_nested(rs.node) if isinstance(n, ast.Assign) and isinstance(n.value, ast.Call)
                          and prog.external_name(rs, n.value.func) == rapi for t_ in n.targets if isinstance(t_, ast.Name)}
                rk = any(isinstance(n, ast.Subscript) and norm(n.slice) == repr(key) and (
                    (isinstance(n.value, ast.Call) and prog.external_name(rs, n.value.func) == rapi)
                    or (isinstance(n.value, ast.Name) and n.value.id in loaded))
                    for n in walk_no_nested(rs.node))
                run.obligation(rid, "%s.%s" % (cname, t2[e]), wk and rk, key="key:" + e,
                               message="array must be stored and selected under the same key %r" % key, loc=rs.loc(),
                               sample={"extension": e, "key": key})
            # with/without axis: both writer paths write the same kind of object; the reader undoes the axis packing
            if cname == "DataSaveable":
                ok = any(call_name(c) == "_data_with_axis" for c in ast.walk(ws.node) if isinstance(c, ast.Call)) and \
                    any(call_name(c) == "_extract_data_with_axis" for c in ast.walk(rs.node) if isinstance(c, ast.Call))
                run.obligation(rid, "%s.%s" % (cname, t1[e]), ok, key="axis:" + e,
                               message="axis packing on save must be undone by _extract_data_with_axis on load",
                               loc=ws.loc(), sample={"extension": e})
        funcs = [f for n, f in cls.methods.items() if n.startswith(("_save", "_load", "_export", "_import"))
                 or n in ("save_data", "load_data", "_data_with_axis", "_extract_data_with_axis")]
        apiexist.check_functions(run, rid, prog, funcs, "exporting or importing data")
    # axis packing: column 0 is the axis, the rest the data - and the extractor reads the same columns
    cls = prog.cls(DS)
    p = cls.methods["_data_with_axis"]
    st = [norm(s) for s in ast.walk(p.node) if isinstance(s, ast.stmt)]
    ok = "data[:, 1:] = self.data" in st and "data[:, 1] = self.data" in st and st.count("data[:, 0] = axis.data") == 2
    run.obligation(rid, "DataSaveable._data_with_axis", ok, key="pack",
                   message="axis must be packed as column 0 and the data as the remaining columns", loc=p.loc())
    # the packed table must be able to hold the data: a narrower element type silently drops the
    # imaginary part (numpy only warns) and the file still loads
    packed = {s_.targets[0].value.id for s_ in ast.walk(p.node) if isinstance(s_, ast.Assign)
              and isinstance(s_.targets[0], ast.Subscript) and isinstance(s_.targets[0].value, ast.Name)
              and norm(s_.value) == "self.data"}
    allocs = [s_ for s_ in ast.walk(p.node) if isinstance(s_, ast.Assign) and isinstance(s_.targets[0], ast.Name)
              and s_.targets[0].id in packed and isinstance(s_.value, ast.Call)]
    if len(allocs) < 2:
        raise AnalysisError("_data_with_axis: expected two allocations of the packed table, found %d" % len(allocs))

    def _holds_data(expr, depth=0):
        tx = norm(expr)
        if tx in ("self.data.dtype", "self._data.dtype", "COMPLEX", "complex", "numpy.complex128", "qr.COMPLEX"):
            return True
        if isinstance(expr, ast.Call) and call_name(expr) in ("result_type", "promote_types", "find_common_type"):
            return any("self.data" in norm(a) or "self._data" in norm(a) for a in ast.walk(expr) if isinstance(a, ast.Attribute))
        if isinstance(expr, ast.Name) and depth < 3:
            binds = [n for n in ast.walk(p.node) if isinstance(n, ast.Assign) and any(
                isinstance(t_, ast.Name) and t_.id == expr.id for t_ in n.targets)]
            return bool(binds) and all(_holds_data(b.value, depth + 1) for b in binds)
        return False
    for a_ in allocs:
        cn = call_name(a_.value)
        if cn in ("column_stack", "hstack", "concatenate", "stack"):
            ok = True      # numpy promotes to a common type
            dt = "promoted"
        else:
            kw = [k.value for k in a_.value.keywords if k.arg == "dtype"]
            dt = norm(kw[0]) if kw else None
            ok = bool(kw) and _holds_data(kw[0])
        run.obligation(rid, "DataSaveable._data_with_axis", ok, key="pack-dtype:" + norm(a_.value.args[0] if a_.value.args else a_.value)[:20]
                       + ":%d" % allocs.index(a_),
                       message="the packed table is allocated with element type %s, which is not derived from the "
                               "data: complex data lose their imaginary part on export" % dt, loc=p.loc(a_),
                       sample={"allocation": norm(a_)[:80]})
    x = cls.methods["_extract_data_with_axis"]
    st = [norm(s) for s in ast.walk(x.node) if isinstance(s, ast.stmt)]
    # the axis is taken from column 0 (stored directly or handed to a method of self that fills the axis object)
    takes = [c for c in ast.walk(x.node) if (isinstance(c, ast.Assign) and norm(c.targets[0]) == "axis.data"
                                             and norm(c.value) in ("data[:, 0]", "numpy.real(data[:, 0])"))
             or (isinstance(c, ast.Call) and isinstance(c.func, ast.Attribute) and norm(c.func.value) == "self" and len(c.args) == 2
                 and norm(c.args[0]) == "axis" and norm(c.args[1]) in ("data[:, 0]", "numpy.real(data[:, 0])"))]
    ok = len(takes) == 2 and "return data[:, 1]" in st and "return data[:, 1:]" in st
    run.obligation(rid, "DataSaveable._extract_data_with_axis", ok, key="unpack",
                   message="extraction must read the axis from column 0 and the data from the remaining columns",
                   loc=x.loc())


def rule_B(run, prog):
    rid = "C18-B"
    sv = prog.func("quantarhei.core.saveable.Saveable.save")
    affected = sorted(c.name for c in prog.all_classes()
                      if prog.is_subclass(c, "Saveable") and prog.is_subclass(c, "BasisManaged")
                      and not c.module.name.endswith("_test"))
    if not affected:
        raise AnalysisError("no class is both Saveable and BasisManaged")
    # a normalisation of the basis tag on save: a guard/transform in Saveable.save or Parcel.set_content,
    # or __getstate__/__reduce__ on BasisManaged
    texts = " ".join(norm(s) for s in ast.walk(sv.node) if isinstance(s, ast.stmt))
    sc = prog.func("quantarhei.core.parcel.Parcel.set_content")
    texts += " ".join(norm(s) for s in ast.walk(sc.node) if isinstance(s, ast.stmt))
    bm = prog.cls("quantarhei.core.managers.BasisManaged")
    handled = ("get_current_basis" in texts or "_current_basis" in texts or "basis" in texts.lower()
               or "__getstate__" in bm.methods or "__reduce__" in bm.methods)
    run.obligation(rid, "Saveable.save", handled, key="basis-tag-pickled",
                   message="objects that are both Saveable and BasisManaged (%d classes, e.g. %s) are pickled with "
                           "their current basis tag and the data in that basis; saved inside an eigenbasis_of context "
                           "and loaded outside, the tag refers to a basis that is not on the stack"
                   % (len(affected), ", ".join(affected[:5])), loc=sv.loc(),
                   sample={"affected_classes": affected[:12]})


def rule_C(run, prog):
    rid = "C18-C"
    for q, cname in ((DS, "DataSaveable"), (MD, "MatrixData")):
        f = prog.cls(q).methods["_importDataFromText"]
        calls = [c for c in walk_no_nested(f.node) if isinstance(c, ast.Call) and call_name(c) == "loadtxt"]
        plain = [c for c in calls if not any(k.arg == "dtype" for k in c.keywords)]
        cplx = [c for c in calls if any(k.arg == "dtype" and norm(k.value) == "complex" for k in c.keywords)]
        tries = [n for n in walk_no_nested(f.node) if isinstance(n, ast.Try)]
        ok = len(plain) == 1 and len(cplx) == 1 and len(tries) == 1 and \
            any(norm(h.type) == "ValueError" for h in tries[0].handlers if h.type is not None)
        run.obligation(rid, "%s._importDataFromText" % cname, ok, key="complex-fallback",
                       message="text import must fall back to the complex parser: text export writes complex "
                               "values as (re+imj)", loc=f.loc(), sample={"class": cname})


def rule_D(run, prog):
    class Proxy:
        def __init__(self, run):
            self.run = run

        def obligation(self, rid, construct, ok, **kw):
            self.run.obligation("C18-D", construct, ok, **kw)

        def __getattr__(self, name):
            return getattr(self.run, name)
    c05.rule_U5(Proxy(run), prog)


def rule_G(run, prog):
    """savedir() writes the whole tag -> file index back to the directory.  Several objects (and several
    runs) share a directory, so the index written must be the one just read from that directory plus
    the new entry: the table that ends up in the index file has to be assigned, unconditionally, from
    the index file when the directory exists and from an empty table when it was just created.  A
    copy kept from an earlier save silently drops what others saved in between; loaddir() then no
    longer returns those objects."""
    rid = "C18-G"
    f = prog.func("quantarhei.core.saveable.Saveable.savedir")
    setc = [c for c in ast.walk(f.node) if isinstance(c, ast.Call) and call_name(c) == "set_content" and c.args]
    if len(setc) != 1:
        raise AnalysisError("savedir: the index is not written by exactly one set_content call")
    table = norm(setc[0].args[0])
    tries = [n for n in f.node.body if isinstance(n, ast.Try)]
    mk = [t for t in tries if any(isinstance(c, ast.Call) and call_name(c) == "makedirs" for s_ in t.body for c in ast.walk(s_))]
    if len(mk) != 1:
        raise AnalysisError("savedir: try block around os.makedirs not found")
    t = mk[0]
    fresh_ok = any(isinstance(s_, ast.Assign) and norm(s_.targets[0]) == table and isinstance(s_.value, (ast.Dict, ast.Call))
                   and norm(s_.value) in ("{}", "dict()") for s_ in t.body)
    run.obligation(rid, "Saveable.savedir", fresh_ok, key="new-directory-empty-index",
                   message="a newly created directory must start from an empty index", loc=f.loc(t))
    hs = [h for h in t.handlers if h.type is not None and "FileExistsError" in norm(h.type)]
    ok = False
    why = "no handler for an existing directory"
    if hs:
        top = [s_ for s_ in hs[0].body if isinstance(s_, ast.Assign) and norm(s_.targets[0]) == table
               and isinstance(s_.value, ast.Call) and call_name(s_.value) == "load_parcel"]
        ok = len(top) == 1
        why = "the index %s is not re-read unconditionally from the directory when it exists: %s" % (
            table, [norm(s_)[:60] for s_ in hs[0].body][:3])
    run.obligation(rid, "Saveable.savedir", ok, key="existing-directory-index-reread", message=why, loc=f.loc(t),
                   sample={"table": table})
    # nothing between the read and the write replaces the table by something else
    later = [n for n in ast.walk(f.node) if isinstance(n, ast.Assign) and norm(n.targets[0]) == table and n.lineno > t.end_lineno]
    run.obligation(rid, "Saveable.savedir", not later, key="index-not-replaced",
                   message="the index read from the directory is replaced before it is written back: %s" % [norm(n)[:50] for n in later],
                   loc=f.loc())


def rule_F(run, prog):
    """Objects are saved by pickling them whole (C18-E), so what is loaded is what was stored - unless
    a class customises pickling.  A __setstate__/__getstate__/__reduce__/__deepcopy__ that recomputes
    part of the state reads it through the object's properties at load (or copy) time; a units- or
    basis-managed property then returns values in whatever context is active at that moment, and the
    loaded object differs from the saved one although every stored number is the same."""
    rid = "C18-F"
    HOOKS = ("__setstate__", "__getstate__", "__reduce__", "__reduce_ex__", "__deepcopy__", "__copy__")
    managed = set()
    for m_ in prog.modules.values():
        for c in m_.classes.values():
            for nme, val in c.attrs.items():
                if isinstance(val, ast.Call) and any(k in norm(val.func) for k in ("Managed",)):
                    managed.add(nme)
    if not {"data", "start", "step"} <= managed:
        raise AnalysisError("managed descriptor names not found: %s" % sorted(managed))
    sav = [c for m_ in prog.modules.values() for c in m_.classes.values()
           if any(b is not None and b.name in ("Saveable", "DataSaveable") for b in prog.mro(c))]
    for c in sorted(sav, key=lambda x: x.qualname):
        # hooks are judged at the class that defines them (subclasses inherit the verdict)
        hooks = [f for n_, f in c.methods.items() if n_ in HOOKS]
        bad = []
        for h in hooks:
            # closure over self-method calls, depth 3
            seen, work = {}, [(h, 3)]
            while work:
                f, d = work.pop()
                if f.qualname in seen:
                    continue
                seen[f.qualname] = f
                if d > 0:
                    for x in walk_no_nested(f.node):
                        # methods of the class called on self or on any local object (a copy being built)
                        if isinstance(x, ast.Call) and isinstance(x.func, ast.Attribute) and \
                                isinstance(x.func.value, ast.Name):
                            t_ = prog.find_method(c, x.func.attr)
                            if t_ is not None:
                                work.append((t_, d - 1))
            from ..loader import parents_map
            from ..unitflow import in_int_context
            for f in seen.values():
                pm = parents_map(f.node)
                for x in walk_no_nested(f.node):
                    if isinstance(x, ast.Attribute) and isinstance(x.ctx, ast.Load) and x.attr in managed \
                            and not (isinstance(x.value, ast.Name) and x.value.id in ("state", "numpy", "np")) \
                            and not in_int_context(pm, x):
                        bad.append((h.short, f.short, norm(x)))
        prog.consulted.add(c.module.relpath)
        run.obligation(rid, c.name, not bad, key="state-hooks",
                       message="%s customises pickling/copying and recomputes from managed properties at that time: %s "
                               "(the value depends on the units/basis context active when the object is loaded or "
                               "copied)" % (c.name, ["%s -> %s reads %s" % b for b in bad[:3]]),
                       loc=c.module.relpath, sample={"class": c.name, "hooks": [h.short for h in hooks]})


def rule_E(run, prog):
    rid = "C18-E"
    sv = prog.func("quantarhei.core.saveable.Saveable.save")
    st = [norm(s) for s in sv.node.body if not (isinstance(s, ast.Expr) and isinstance(s.value, ast.Constant))]
    ok = st[:4] == ["p = Parcel()", "p.set_content(self)", "p.set_comment(comment)", "p.save(filename)"]
    run.obligation(rid, "Saveable.save", ok, key="parcel", message="save must wrap the whole object in a Parcel",
                   loc=sv.loc(), sample={"statements": st[:4]})
    ld = prog.func("quantarhei.core.saveable.Saveable.load")
    ok = any(isinstance(n, ast.Return) and norm(n.value) == "load_parcel(filename)" for n in ast.walk(ld.node))
    run.obligation(rid, "Saveable.load", ok, key="parcel", message="load must return the content of the parcel", loc=ld.loc())
    ps = prog.func("quantarhei.core.parcel.Parcel.save")
    lp = prog.func("quantarhei.core.parcel.load_parcel")
    dumps = [norm(c) for c in ast.walk(ps.node) if isinstance(c, ast.Call) and call_name(c) == "dump"]
    loads = [norm(c) for c in ast.walk(lp.node) if isinstance(c, ast.Call) and call_name(c) == "load"]
    ok = dumps and all(d.startswith("pickle.dump(self,") for d in dumps) and loads and \
        all(l.startswith("pickle.load(") for l in loads)
    modes = [norm(c) for f in (ps, lp) for c in ast.walk(f.node) if isinstance(c, ast.Call) and call_name(c) == "open"]
    ok = ok and any("'wb'" in m for m in modes) and any("'rb'" in m for m in modes)
    run.obligation(rid, "Parcel.save/load_parcel", bool(ok), key="same-pickler",
                   message="parcels must be written and read with the same pickler in binary mode", loc=ps.loc(),
                   sample={"dump": dumps, "load": loads})
    ok = any(isinstance(n, ast.If) and norm(n.test) == "isinstance(obj, Parcel)" for n in ast.walk(lp.node)) and \
        any(isinstance(n, ast.Return) and norm(n.value) == "obj.content" for n in ast.walk(lp.node))
    run.obligation(rid, "parcel.load_parcel", ok, key="content",
                   message="load_parcel must return the content of a Parcel and refuse anything else", loc=lp.loc())
    sc = prog.func("quantarhei.core.parcel.Parcel.set_content")
    st = [norm(s) for s in sc.node.body]
    run.obligation(rid, "Parcel.set_content", "self.content = obj" in st and
                   "self.qrversion = Manager().version" in st, key="versioned",
                   message="the parcel must carry the object and the package version", loc=sc.loc())
