"""C03 - aggregate Hamiltonian and dipole operator are the Frenkel-exciton ones
(the parts that are formulas, constants or pairings).

Decided statically: the point-dipole formula (A, index/scalar algebra), the
value of 1/(4 pi eps0) in Debye/Angstrom/fs^-1 units against scipy.constants
(B, constant folding), symmetric coupling writes (C, pairing), the build runs
under internal units on every path (D), state energy sums over all molecules,
one-exciton couplings and the dipole through the molecule that changes (E).
Not decided: state ordering by band, two-exciton block values, relabelling
invariance of spectra (combinatorial / spectral).
"""
import ast
import math

from ..loader import AnalysisError, norm, walk_no_nested, call_name, parents_map
from .. import ta
from ..ta import Expr, Array, normal, show_normal
from ..ta_front import Interp, Obj

AB = "quantarhei.builders.aggregate_base.AggregateBase."


def check(run, prog, tier):
    run.explanation = (
        "Index-algebra evaluation of dipole_dipole_interaction against the point-dipole formula "
        "written in the same vocabulary, numeric constant folding of the unit-system constants of "
        "core/units.py against scipy.constants, pairing rule for every element store into the "
        "coupling matrix, lexical rule that build() delegates to its implementation inside "
        "energy_units('int'), and exhaustive finite evaluation (qv/feval.py: the source of coupling(), "
        "transition_dipole(), _get_exindx() and ElectronicState.energy() is interpreted on every pair of "
        "occupation signatures of up to 5 molecules in bands 0..2, with couplings, dipoles, level energies and "
        "vibrational overlaps as opaque atoms) against the Frenkel-exciton statement written in the rule. "
        "Beyond the bound the combinatorial structure is not decided; the generators of the state list are not "
        "evaluated.")
    run.trusted_base = ["scipy.constants values", "1 D = 1e-21/c C m; lengths in Angstrom; energies in rad/fs"]
    run.rule("C03-I", "build() recomputes the operators from the parameters held at the call: no stored result or "
                      "'already built' short-cut that other setters do not invalidate", minimum=2)
    from . import memorule
    memorule.check(run, prog, "C03-I", ["quantarhei.builders.aggregate_base.AggregateBase",
                                        "quantarhei.builders.aggregates.Aggregate",
                                        "quantarhei.qm.hilbertspace.dmoment.TransitionDipoleMoment",
                                        "quantarhei.qm.hilbertspace.hamiltonian.Hamiltonian"],
                   "the Hamiltonian and dipole operator then belong to earlier energies, couplings or dipoles")
    run.rule("C03-J", "the setters of molecules and aggregates use the converted value wherever they touch what they store "
                      "(rule of C05-U15, builders only): the operators do not depend on the units active when a parameter was given",
             minimum=6)
    from . import c05
    from ..report import RuleProxy
    c05.rule_U15(RuleProxy(run, "C03-J", keep=lambda construct, key: construct.split(".")[0] in (
        "Molecule", "AggregateBase", "Aggregate", "Mode", "SubMode", "OpenSystem")), prog)
    run.rule("C03-L", "the resonance coupling of two states is that of the two molecules whose levels differ: the positions in the "
                      "coupling matrix are positions in the electronic signatures, not the running numbers of the states (which "
                      "count only the states that exist: a molecule with a single level has none in the one-exciton band)", minimum=2)
    rule_L(run, prog)
    run.rule("C03-K", "a molecule handed over as an object is found in the aggregate by identity, not through its name: names are "
                      "labels (the default name is the same for every molecule) and couplings belong to positions", minimum=2)
    rule_K(run, prog)
    run.rule("C03-M", "'for any set of molecules, resonance couplings ...': the couplings computed from positions and dipoles are a function "
                      "of the arguments of the call.  A method of the aggregate that takes its parameters as a dictionary (or any "
                      "argument with a mutable default) reads them and leaves them as they are - pop / del / clear / update / item "
                      "assignment empties the caller's dictionary (and the shared default), and the next call with the same object "
                      "silently falls back to other values", minimum=1)
    rule_M(run, prog)
    run.rule("C03-A", "point-dipole interaction formula (TA)", minimum=2)
    run.rule("C03-B", "Coulomb constant in Debye/Angstrom/fs^-1 units (constant folding)", minimum=2)
    run.rule("C03-C", "coupling matrix is written symmetrically", minimum=2)
    run.rule("C03-D", "build runs under internal energy units", minimum=2)
    rule_A(run, prog)
    rule_B(run, prog)
    rule_C(run, prog)
    rule_D(run, prog)
    run.rule("C03-F", "coupling() between aggregate states: exhaustive finite evaluation over occupation "
                      "signatures (N <= 5 molecules, bands 0..2)", minimum=6)
    rule_F(run, prog, tier)
    run.rule("C03-G", "transition dipoles and state energies: exhaustive finite evaluation over occupation "
                      "signatures", minimum=6)
    rule_G(run, prog)
    run.rule("C03-H", "the Hamiltonian and dipole operators handed out are the built Frenkel operators, not live "
                      "views of arrays the aggregate rewrites in place", minimum=2)
    from . import c11
    from ..report import RuleProxy
    c11.rule_E(RuleProxy(run, "C03-H"), prog)


def _signatures(n, mmax, total):
    out = []

    def rec(prefix, left):
        if len(prefix) == n:
            if left == 0:
                out.append(tuple(prefix))
            return
        for v in range(min(mmax, left) + 1):
            rec(prefix + [v], left - v)
    rec([], total)
    return out


def eval_coupling(prog, kind, n, mmax, bands=(0, 1, 2), full=None):
    """Interprets coupling() on every ordered pair of distinct states (bands 0..2) of n molecules with at
    most mmax excitations per molecule; returns (deviations, number of pairs, number of states)."""
    import math
    from .. import feval
    from ..feval import Stub, Sym, SymArr
    c = prog.func(AB + "coupling")
    params = [a.arg for a in c.node.args.args]
    if params[:3] != ["self", "state1", "state2"]:
        raise AnalysisError("coupling() signature changed: %s" % params)
    fc = Sym(1.0, ("fc",))
    selfo = Stub("AggregateBase", nmono=n, resonance_coupling=SymArr("J", symmetric=True))
    selfo.methods = {"fc_factor": lambda a, b: fc, "convert_energy_2_current_u": lambda v: v}
    states = []
    for band in bands:
        for sig in _signatures(n, mmax, band):
            states.append((band, sig))
    objs = []
    for idx, (band, sig) in enumerate(states):
        # one-exciton states are numbered 1..n in the order of the excited molecule
        index = (sig.index(1) + 1) if band == 1 else idx
        if band == 0:
            index = 0
        es = Stub("ElectronicState", band=band, elsignature=sig, index=index)
        objs.append(es if kind == "ElectronicState" else Stub("VibronicState", elstate=es, index=idx))
    bad = []
    npairs = 0
    for i, (b1, a) in enumerate(states):
        for j, (b2, b) in enumerate(states):
            if i == j:
                continue
            npairs += 1
            ev = feval.Evaluator()
            try:
                args = {"self": selfo, "state1": objs[i], "state2": objs[j]}
                for extra in c.node.args.args[3:]:
                    dflt = c.node.args.defaults[len(c.node.args.defaults) - (len(c.node.args.args) - c.node.args.args.index(extra))]
                    args[extra.arg] = ast.literal_eval(dflt)
                if full is not None:
                    if "full" not in args:
                        raise AnalysisError("coupling() lost its 'full' argument")
                    args["full"] = full
                got = ev.call_function(c.node, args)
            except feval.Unsupported as e:
                raise AnalysisError("coupling(): construct outside the finite evaluator's vocabulary: %s" % e)
            except feval.Raised as e:
                got = "raise %s" % e
            diff = [k for k in range(n) if a[k] != b[k]]
            moved = sum(abs(a[k] - b[k]) for k in range(n))
            if b1 == b2 and b1 >= 1 and len(diff) == 2 and moved == 2:
                exp = SymArr("J", symmetric=True).at(diff)
                if kind == "VibronicState":
                    exp = exp * fc
                    if b1 >= 2:
                        exp = exp * math.sqrt(max(a[diff[0]], b[diff[0]])) * math.sqrt(max(a[diff[1]], b[diff[1]]))
            elif full and kind == "VibronicState" and abs(b1 - b2) == 2 and len(diff) == 2:
                # full Frenkel exciton model: two molecules raised (or lowered) together
                exp = SymArr("J", symmetric=True).at(diff) * fc
            else:
                exp = Sym(0.0)
            if isinstance(got, (int, float)):
                got = Sym(got)
            if not isinstance(got, Sym) or not got.same(exp):
                bad.append((a, b, repr(got), repr(exp)))
    return bad, npairs, len(states)


def rule_F(run, prog, tier="quick"):
    """The element of the Hamiltonian between two aggregate states of the same band is J[k,l] (times the
    vibrational overlap, times the harmonic ladder factors for multiply excited molecules) when the
    two occupation signatures differ on exactly the molecules k and l by one quantum moved, and zero
    otherwise; states of different bands are not coupled.  coupling() is interpreted (qv/feval.py)
    on every pair of signatures up to the bound and compared with this statement."""
    rid = "C03-F"
    c = prog.func(AB + "coupling")
    configs = [("ElectronicState", n, 1) for n in (2, 3, 4, 5)] + [("VibronicState", n, 1) for n in (2, 3, 4, 5)] + \
              [("VibronicState", n, 2) for n in (2, 3, 4)]
    bands = (0, 1, 2)
    if tier == "thorough":
        # deeper bound: up to 7 molecules, up to three excitations, doubly excited molecules up to N = 5
        configs = [("ElectronicState", n, 1) for n in range(2, 8)] + [("VibronicState", n, 1) for n in range(2, 8)] + \
                  [("VibronicState", n, 2) for n in range(2, 6)]
        bands = (0, 1, 2, 3)
    for kind, n, mmax in configs:
        bad, npairs, nstates = eval_coupling(prog, kind, n, mmax, bands)
        run.obligation(rid, "AggregateBase.coupling", not bad,
                       key="finite:%s:N=%d:max-occupation=%d" % (kind, n, mmax),
                       message="coupling() deviates from 'J[k,l] between states that differ by one quantum moved "
                               "between molecules k and l, zero otherwise' on %d of %d pairs of %s signatures; first: "
                               "%s -> %s gives %s, expected %s" % ((len(bad), npairs, kind) + (bad[0] if bad else ("", "", "", ""))),
                       loc=c.loc(), sample={"kind": kind, "molecules": n, "max_occupation": mmax,
                                            "states": nstates, "pairs": npairs})


def eval_transition_dipole(prog, n):
    from .. import feval
    from ..feval import Stub, Sym
    td = prog.func(AB + "transition_dipole")
    ex = prog.func(AB + "_get_exindx")
    fc = Sym(1.0, ("fc",))
    states = [(band, sig) for band in (0, 1, 2) for sig in _signatures(n, 1, band)]
    selfo = Stub("AggregateBase", nmono=n)

    def _exindx(a, b):
        return feval.Evaluator().call_function(ex.node, {"self": selfo, "state1": a, "state2": b})
    selfo.methods = {"fc_factor": lambda a, b: fc, "_get_exindx": _exindx,
                     "get_dipole": lambda k, lo, hi: Sym(1.0, ("d%d[%d->%d]" % (k, lo, hi),))}
    objs = [Stub("VibronicState", elstate=Stub("ElectronicState", band=b, elsignature=sig, index=i), index=i)
            for i, (b, sig) in enumerate(states)]
    bad = []
    npairs = 0
    for i, (b1, a) in enumerate(states):
        for j, (b2, b) in enumerate(states):
            npairs += 1
            try:
                got = feval.Evaluator().call_function(td.node, {"self": selfo, "state1": objs[i], "state2": objs[j]})
            except feval.Unsupported as e:
                raise AnalysisError("transition_dipole(): construct outside the finite evaluator's vocabulary: %s" % e)
            except feval.Raised as e:
                got = "raise %s" % e
            diff = [k for k in range(n) if a[k] != b[k]]
            if abs(b1 - b2) == 1 and len(diff) == 1:
                exp = Sym(1.0, ("d%d[0->1]" % diff[0],)) * fc
            else:
                exp = Sym(0.0)
            if isinstance(got, (int, float)):
                got = Sym(got)
            if not isinstance(got, Sym) or not got.same(exp):
                bad.append((a, b, repr(got), repr(exp)))
    return bad, npairs, len(states)


_DICT_MUTATORS = ("pop", "popitem", "clear", "update", "setdefault", "__delitem__", "__setitem__")


def rule_M(run, prog):
    """Every method of AggregateBase with a parameter whose default is a mutable literal / dict(...) call, or which is
    subscripted with a string key (a dictionary of options): no mutating call on it, no `del p[k]`, no `p[k] = v`."""
    rid = "C03-M"
    cls = prog.cls(AB[:-1])
    n = 0
    for name, f in sorted(cls.methods.items()):
        if not isinstance(f.node, ast.FunctionDef):
            continue
        a_ = f.node.args
        pos = a_.posonlyargs + a_.args
        dflt = dict(zip([x.arg for x in pos[len(pos) - len(a_.defaults):]], a_.defaults))
        dflt.update({k.arg: d for k, d in zip(a_.kwonlyargs, a_.kw_defaults) if d is not None})
        cands = set()
        for x in pos[1:] + a_.kwonlyargs:
            d = dflt.get(x.arg)
            if isinstance(d, (ast.Dict, ast.List, ast.Set)) or (isinstance(d, ast.Call) and call_name(d) in ("dict", "list", "set")):
                cands.add(x.arg)
        for x in walk_no_nested(f.node):
            if isinstance(x, ast.Subscript) and isinstance(x.value, ast.Name) and isinstance(x.slice, ast.Constant) \
                    and isinstance(x.slice.value, str) and x.value.id in {y.arg for y in pos[1:] + a_.kwonlyargs}:
                cands.add(x.value.id)
        for p_ in sorted(cands):
            # rebinding the name to a copy first makes later changes local
            rebound = [st.lineno for st in walk_no_nested(f.node) if isinstance(st, ast.Assign)
                       and any(isinstance(t_, ast.Name) and t_.id == p_ for t_ in st.targets)]
            first_rebind = min(rebound) if rebound else 10 ** 9
            bad = []
            for x in walk_no_nested(f.node):
                ln = getattr(x, "lineno", 0)
                if ln >= first_rebind:
                    continue
                if isinstance(x, ast.Call) and isinstance(x.func, ast.Attribute) and isinstance(x.func.value, ast.Name) \
                        and x.func.value.id == p_ and x.func.attr in _DICT_MUTATORS:
                    bad.append((x, "%s.%s(...)" % (p_, x.func.attr)))
                elif isinstance(x, ast.Delete) and any(isinstance(t_, ast.Subscript) and isinstance(t_.value, ast.Name)
                                                       and t_.value.id == p_ for t_ in x.targets):
                    bad.append((x, "del %s[...]" % p_))
                elif isinstance(x, (ast.Assign, ast.AugAssign)):
                    tg = x.targets if isinstance(x, ast.Assign) else [x.target]
                    if any(isinstance(t_, ast.Subscript) and isinstance(t_.value, ast.Name) and t_.value.id == p_ for t_ in tg):
                        bad.append((x, "%s[...] = ..." % p_))
            n += 1
            prog.consulted.add(f.relpath)
            run.obligation(rid, f.short, not bad, key="argument-intact:" + p_,
                           message="%s changes its argument '%s' (%s): the dictionary belongs to the caller%s; a second call with the "
                                   "same object no longer finds what the first one took out and falls back to other values"
                                   % (f.short, p_, ", ".join(t for _, t in bad[:3]),
                                      " and, as the default, to every later call" if p_ in dflt else ""),
                           loc=f.loc(bad[0][0]) if bad else f.loc(), sample={"method": f.short, "argument": p_})
    if n < 1:
        raise AnalysisError("C03-M: no method of AggregateBase with a dictionary of parameters found")


def rule_K(run, prog):
    """'Elements between states that differ by moving one excitation equal the corresponding resonance coupling ...
    invariant under relabelling of the molecules': the coupling matrix is indexed by the position of a molecule in
    self.monomers.  self.mnames maps a *name* to one position - the last molecule registered under it; Molecule() without
    a name has the name "" like every other.  A method of the aggregate that receives a molecule object and edits the
    list of molecules or the coupling matrix finds its position through the object (self.monomers.index(obj), a search by
    identity); looking the object up through obj.name (self.mnames[obj.name], get_Molecule_index(obj.name)) addresses
    another molecule whenever names repeat, and the row and column of the wrong molecule are removed."""
    rid = "C03-K"
    cls = prog.cls("quantarhei.builders.aggregate_base.AggregateBase")
    n = 0
    for nme, f in cls.methods.items():
        if not hasattr(f.node, "args"):
            continue
        params = [a.arg for a in f.node.args.args[1:]]
        # parameters used as molecule objects: handed to self.monomers.<method>(p) or read through p.name / p.position
        objs = set()
        for x in walk_no_nested(f.node):
            if isinstance(x, ast.Call) and isinstance(x.func, ast.Attribute) and norm(x.func.value) == "self.monomers" \
                    and x.args and isinstance(x.args[0], ast.Name) and x.args[0].id in params:
                objs.add(x.args[0].id)
        if not objs:
            continue
        touches = any(isinstance(x, ast.Attribute) and x.attr == "resonance_coupling" for x in walk_no_nested(f.node)) or \
            any(isinstance(x, ast.Call) and isinstance(x.func, ast.Attribute) and x.func.attr in ("remove", "pop", "insert")
                and norm(x.func.value) == "self.monomers" for x in walk_no_nested(f.node))
        if not touches:
            continue
        n += 1
        prog.consulted.add(f.relpath)
        bad = None
        for x in walk_no_nested(f.node):
            by_name = None
            if isinstance(x, ast.Subscript) and norm(x.value) == "self.mnames":
                by_name = x.slice
            if isinstance(x, ast.Call) and isinstance(x.func, ast.Attribute) and norm(x.func.value) == "self" \
                    and x.func.attr in ("get_Molecule_index", "get_Molecule_by_name") and x.args:
                by_name = x.args[0]
            if by_name is not None and isinstance(x.ctx if isinstance(x, ast.Subscript) else ast.Load(), ast.Load) \
                    and isinstance(by_name, ast.Attribute) and by_name.attr == "name" and isinstance(by_name.value, ast.Name) \
                    and by_name.value.id in objs:
                bad = x
        run.obligation(rid, f.short, bad is None, key="position-by-identity",
                       message="%s is given the molecule as an object and finds its position with `%s`: the name is not unique (every "
                               "molecule created without one is called the same), so the row and column of another molecule are "
                               "edited - the couplings that remain belong to the wrong pairs of molecules" % (f.short, norm(bad) if bad else ""),
                       loc=f.loc(bad) if bad else f.loc(f.node))
    if n < 2:
        raise AnalysisError("C03-K: only %d methods edit the aggregate for a molecule object (add_Molecule, remove_Molecule confirmed)" % n)


def rule_L(run, prog):
    """'every aggregate Hamiltonian coupling ... equals the corresponding resonance coupling': self.resonance_coupling is
    indexed by molecules.  In AggregateBase.coupling every index of a read of that matrix is defined from a position in
    the signatures (a loop variable over their length, possibly through a small list) - a definition from `state.index`
    takes the number of the state for the number of the molecule."""
    rid = "C03-L"
    f = prog.func(AB + "coupling")
    prog.consulted.add(f.relpath)
    n = 0
    defs = {}
    for a_ in walk_no_nested(f.node):
        if isinstance(a_, ast.Assign) and len(a_.targets) == 1 and isinstance(a_.targets[0], ast.Name):
            defs.setdefault(a_.targets[0].id, []).append(a_)
    for x in walk_no_nested(f.node):
        if not (isinstance(x, ast.Subscript) and norm(x.value) == "self.resonance_coupling" and isinstance(x.ctx, ast.Load)
                and isinstance(x.slice, ast.Tuple)):
            continue
        n += 1
        names = [e.id for e in x.slice.elts if isinstance(e, ast.Name)]
        # the definitions that reach the read: those in the same statement list or an enclosing one, before it
        bad = []
        for nm in names:
            reaching = [d_ for d_ in defs.get(nm, []) if d_.lineno < x.lineno]
            if reaching:
                last = max(reaching, key=lambda d_: d_.lineno)
                called = {id(c_.func) for c_ in ast.walk(last.value) if isinstance(c_, ast.Call)}
                if any(isinstance(y, ast.Attribute) and y.attr == "index" and id(y) not in called for y in ast.walk(last.value)):
                    bad.append((nm, last))
        run.obligation(rid, f.short, not bad, key="molecule-index:%d" % n,
                       message="coupling() reads `%s` with `%s`: the running number of an electronic state, not the position of a "
                               "molecule - with a molecule that has no excited level the states of the one-exciton band are fewer "
                               "than the molecules and the coupling of another pair (or none) is taken"
                               % (norm(x)[:50], norm(bad[0][1])[:40] if bad else ""), loc=f.loc(bad[0][1] if bad else x))
    if n < 2:
        raise AnalysisError("C03-L: only %d reads of the coupling matrix found in coupling()" % n)


def rule_G(run, prog):
    """transition_dipole(s1, s2) is d_k (times the vibrational overlap) when the two states belong to
    adjacent bands and their signatures differ on the single molecule k, and zero otherwise;
    ElectronicState.energy is the sum over all molecules of the energy of the level each is in plus
    the vibrational quanta.  Both are interpreted on every configuration up to the bound."""
    from .. import feval
    from ..feval import Stub, Sym, SymArr
    rid = "C03-G"
    td = prog.func(AB + "transition_dipole")
    for n in (1, 2, 3, 4):
        bad, npairs, nstates = eval_transition_dipole(prog, n)
        run.obligation(rid, "AggregateBase.transition_dipole", not bad, key="finite:N=%d" % n,
                       message="transition_dipole() deviates from 'dipole of the single molecule that changes state "
                               "between adjacent bands, zero otherwise' on %d of %d pairs; first: %s -> %s gives %s, "
                               "expected %s" % ((len(bad), npairs) + (bad[0] if bad else ("", "", "", ""))),
                       loc=td.loc(), sample={"molecules": n, "states": nstates, "pairs": npairs})
    en = prog.func("quantarhei.builders.aggregate_states.ElectronicState.energy")
    for n, nmodes in ((1, 0), (2, 1), (3, 2), (4, 0)):
        bad = []
        ncfg = 0
        for band in (0, 1, 2):
            for sig in _signatures(n, 2, band):
                modes = [Stub("SubMode", omega=Sym(1.0, ("w%d" % m_,))) for m_ in range(nmodes)]
                # units: the raw attributes (elenergies, omega) are internal; convert_energy_2_current_u multiplies by the
                # factor f of the current units, and so do the molecule's public getters.  The energy of the state is
                # of first degree in f: a value converted twice carries f*f
                mols = []
                for k in range(n):
                    ml = Stub("Molecule", elenergies=SymArr("E%d" % k))
                    ml.methods = {"get_energy": (lambda k_: lambda lev: Sym(1.0, ("E%d[%d]" % (k_, lev), "f")))(k)}
                    mols.append(ml)
                agg = Stub("Aggregate", monomers=mols)
                so = Stub("ElectronicState", elsignature=sig, vibmodes=modes, vsiglength=nmodes, aggregate=agg)
                so.methods = {"convert_energy_2_current_u": lambda v: (v if isinstance(v, Sym) else Sym(float(v))) * Sym(1.0, ("f",))}
                for vsig in ([None] + ([tuple(range(1, nmodes + 1))] if nmodes else [])):
                    ncfg += 1
                    try:
                        got = feval.Evaluator().call_function(en.node, {"self": so, "vsig": vsig})
                    except feval.Unsupported as e:
                        raise AnalysisError("ElectronicState.energy: outside the finite evaluator's vocabulary: %s" % e)
                    except feval.Raised as e:
                        got = "raise %s" % e
                    exp = Sym(0.0)
                    for k in range(n):
                        exp = exp + Sym(1.0, ("E%d[%d]" % (k, sig[k]), "f"))
                    if vsig is not None:
                        for m_ in range(nmodes):
                            exp = exp + Sym(float(vsig[m_]), ("f", "w%d" % m_))
                    if isinstance(got, (int, float)):
                        got = Sym(got)
                    if not isinstance(got, Sym) or not got.same(exp):
                        bad.append((sig, vsig, repr(got), repr(exp)))
        run.obligation(rid, "ElectronicState.energy", not bad, key="finite:N=%d,modes=%d" % (n, nmodes),
                       message="state energy deviates from 'sum over all molecules of the energy of the occupied level "
                               "plus the vibrational quanta, converted once to the current units (factor f)' on %d of %d configurations; first: signature %s, quanta %s "
                               "gives %s, expected %s" % ((len(bad), ncfg) + (bad[0] if bad else ("", "", "", ""))),
                       loc=en.loc(), sample={"molecules": n, "modes": nmodes, "configurations": ncfg})


def rule_A(run, prog):
    rid = "C03-A"
    f = prog.func("quantarhei.builders.interactions.dipole_dipole_interaction")
    prog.consulted.add(f.relpath)
    # element type: positions and dipoles may be given as whole numbers (integer arrays).  An in-place
    # operator on an array that has the element type of the inputs cannot hold a fractional result
    # (numpy raises a casting error, which the callers swallow and turn into a zero coupling); on a
    # parameter itself it would also modify the caller's array.
    params = {a.arg for a in f.node.args.args}
    bad = []
    for n in walk_no_nested(f.node):
        if isinstance(n, ast.AugAssign):
            base = n.target
            while isinstance(base, ast.Subscript):
                base = base.value
            if not isinstance(base, ast.Name):
                continue
            if base.id in params:
                bad.append((n, "modifies the caller's array %s" % base.id))
                continue
            binds = [b for b in walk_no_nested(f.node) if isinstance(b, ast.Assign)
                     and any(isinstance(t_, ast.Name) and t_.id == base.id for t_ in b.targets)]
            typed_by_inputs = bool(binds) and all(
                not any(isinstance(x, ast.Call) for x in ast.walk(b.value)) and
                {x.id for x in ast.walk(b.value) if isinstance(x, ast.Name)} <= params and
                not any(isinstance(x, ast.Div) for x in ast.walk(b.value)) for b in binds)
            if typed_by_inputs and isinstance(n.op, (ast.Div, ast.Mult, ast.Add, ast.Sub, ast.Pow)):
                bad.append((n, "%s has the element type of the inputs (%s); with whole-number positions or dipoles "
                               "the in-place result cannot be stored" % (base.id, norm(binds[0].value))))
    run.obligation(rid, "interactions.dipole_dipole_interaction", not bad, key="element-type",
                   message="in-place arithmetic %s" % "; ".join("'%s' %s" % (norm(n), w) for n, w in bad[:2]),
                   loc=f.loc(bad[0][0]) if bad else f.loc(), sample={"in_place_operations": len(bad)})
    if bad:
        return      # the algebraic interpretation below does not model in-place operators
    r1, r2, d1, d2 = (Array.opaque(n, 1) for n in ("r1", "r2", "d1", "d2"))

    def hook(it, func, call, name, args, kwargs):
        return NotImplemented
    it = Interp(prog, lenient=False)
    # module constant eps0_int and scipy pi as scalars
    env_extra = {}
    it.stack.append(f)
    env = {"r1": r1, "r2": r2, "d1": d1, "d2": d2, "epsr": Expr.factor("epsr"),
           "eps0_int": Expr.factor("eps0"), "const": Obj("const", attrs={"pi": Expr.factor("pi")})}
    body = [s for s in f.node.body if not (isinstance(s, ast.Expr) and isinstance(s.value, ast.Constant))]
    ret = None
    for s in body:
        if isinstance(s, ast.Return):
            ret = it.eval(s.value, env)
        else:
            it.exec_stmt(s, env)
    ref = ast.parse("(np.dot(d1,d2) - 3.0*np.dot(d1,R)*np.dot(d2,R)/(RR**2))/(4.0*const.pi*eps0_int*epsr*RR**3)",
                    mode="eval").body
    want = it.eval(ref, env)
    it.stack.pop()
    ok = isinstance(ret, Expr) and isinstance(want, Expr) and not normal(ret - want)
    run.obligation(rid, "interactions.dipole_dipole_interaction", ok, key="formula",
                   message="coupling is not (d1.d2 - 3 (d1.n)(d2.n)) / (4 pi eps0 eps_r R^3) with n = R/|R|: %s"
                   % (show_normal(normal(ret - want), 3) if isinstance(ret, Expr) and isinstance(want, Expr) else ret),
                   loc=f.loc(), sample={"value": show_normal(normal(ret), 3) if isinstance(ret, Expr) else None})
    # R = r1 - r2 and |R| = sqrt(R.R)
    st = [norm(s) for s in body]
    ok = ("R = r1 - r2" in st or "R = r2 - r1" in st) and "RR = np.sqrt(np.dot(R, R))" in st
    run.obligation(rid, "interactions.dipole_dipole_interaction", ok, key="distance",
                   message="R must be the difference of the positions and RR its Euclidean norm", loc=f.loc())


def _fold_num(m, node, const):
    if isinstance(node, ast.Constant) and isinstance(node.value, (int, float)):
        return float(node.value)
    if isinstance(node, ast.Name):
        if node.id in m.assigns:
            return _fold_num(m, m.assigns[node.id], const)
        raise AnalysisError("cannot fold %s" % node.id)
    if isinstance(node, ast.Attribute) and isinstance(node.value, ast.Name) and node.value.id == "const":
        return float(getattr(const, node.attr))
    if isinstance(node, ast.Subscript) and isinstance(node.value, ast.Name):
        d = m.assigns.get(node.value.id)
        if isinstance(d, ast.Dict):
            key = ast.literal_eval(node.slice)
            for k, v in zip(d.keys, d.values):
                if ast.literal_eval(k) == key:
                    return _fold_num(m, v, const)
    if isinstance(node, ast.BinOp):
        l, r = _fold_num(m, node.left, const), _fold_num(m, node.right, const)
        op = type(node.op)
        if op is ast.Add:
            return l + r
        if op is ast.Sub:
            return l - r
        if op is ast.Mult:
            return l * r
        if op is ast.Div:
            return l / r
        if op is ast.Pow:
            return l ** r
    if isinstance(node, ast.UnaryOp) and isinstance(node.op, ast.USub):
        return -_fold_num(m, node.operand, const)
    raise AnalysisError("cannot fold %s" % norm(node))


def rule_B(run, prog):
    rid = "C03-B"
    import scipy.constants as const
    m = prog.module("quantarhei.core.units")
    eps0 = _fold_num(m, m.assigns["eps0_int"], const)
    prf = 1.0 / (4.0 * math.pi * eps0)
    want = (1.0e-21 / const.c) ** 2 / (4.0 * math.pi * const.epsilon_0 * 1.0e-30) * 1.0e-15 / const.hbar
    rel = abs(prf - want) / want
    run.obligation(rid, "units.eps0_int", rel < 1.0e-8, key="coulomb-constant",
                   message="1/(4 pi eps0_int) = %.12e differs from the Debye^2/Angstrom^3 -> rad/fs value %.12e "
                           "(relative %.2e)" % (prf, want, rel), loc=m.relpath,
                   sample={"folded": prf, "independent": want, "relative_difference": rel})
    J2int = _fold_num(m, m.assigns["J2int"], const)
    rel = abs(J2int - 1.0e-15 / const.hbar) * const.hbar / 1.0e-15
    run.obligation(rid, "units.J2int", rel < 1e-12, key="joule",
                   message="J -> internal energy factor must be 1e-15/hbar", loc=m.relpath,
                   sample={"J2int": J2int})
    cm = _fold_num(m, ast.parse("conversion_facs_energy['1/cm']", mode="eval").body, const)
    wantcm = 2.0 * math.pi * const.c * 1.0e-13
    run.obligation(rid, "units.conversion_facs_energy[1/cm]", abs(cm - wantcm) / wantcm < 1e-12, key="wavenumber",
                   message="1/cm -> rad/fs factor must be 2 pi c * 1e-13", loc=m.relpath, sample={"factor": cm})
    f = prog.func("quantarhei.builders.interactions.dipole_dipole_interaction")
    st = [norm(s) for s in f.node.body]
    run.obligation(rid, "interactions.dipole_dipole_interaction", "prf = 1.0 / (4.0 * const.pi * eps0_int)" in st,
                   key="prefactor", message="the prefactor must be 1/(4 pi eps0_int)", loc=f.loc())


def rule_C(run, prog):
    rid = "C03-C"
    n = 0
    for f in prog.all_functions():
        if not f.module.name.startswith("quantarhei.builders"):
            continue
        pm = None
        for s in walk_no_nested(f.node):
            if isinstance(s, ast.Assign) and isinstance(s.targets[0], ast.Subscript) and \
                    norm(s.targets[0].value).endswith("resonance_coupling"):
                sub = s.targets[0].slice
                if not (isinstance(sub, ast.Tuple) and len(sub.elts) == 2):
                    continue
                a, b = norm(sub.elts[0]), norm(sub.elts[1])
                if a == b or ":" in a or ":" in b:
                    continue
                n += 1
                if pm is None:
                    pm = parents_map(f.node)
                par = pm.get(s)
                blk = None
                for fld in ("body", "orelse", "finalbody"):
                    bb = getattr(par, fld, None)
                    if isinstance(bb, list) and s in bb:
                        blk = bb
                mirror = "%s[%s, %s] = %s" % (norm(s.targets[0].value), b, a, norm(s.value))
                ok = blk is not None and any(norm(x) == mirror for x in blk)
                run.obligation(rid, f.short, ok, key="mirror:%s[%s,%s]" % (norm(s.targets[0].value)[-18:], a, b),
                               message="coupling element [%s,%s] is stored without the same value at [%s,%s] in the "
                                       "same block: the Hamiltonian would not be symmetric" % (a, b, b, a), loc=f.loc(s),
                               sample={"function": f.short, "store": norm(s)})
    if n < 2:
        raise AnalysisError("coupling stores found: %d" % n)
    g = prog.func(AB + "set_resonance_coupling")
    st = [norm(s) for s in g.node.body]
    run.obligation(rid, g.short, "coup = self.convert_energy_2_internal_u(coupling)" in st, key="internal-units",
                   message="couplings must be stored in internal units", loc=g.loc())


def rule_D(run, prog):
    rid = "C03-D"
    b = prog.func(AB + "build")
    body = [s for s in b.node.body if not (isinstance(s, ast.Expr) and isinstance(s.value, ast.Constant))]
    ok = len(body) == 1 and isinstance(body[0], ast.With) and \
        [norm(i.context_expr) for i in body[0].items] == ["energy_units('int')"]
    inner = body[0].body if ok else []
    ok = ok and len(inner) == 1 and isinstance(inner[0], ast.Expr) and isinstance(inner[0].value, ast.Call) \
        and norm(inner[0].value.func) == "self._build"
    if ok:
        params = [a.arg for a in b.node.args.args if a.arg != "self"]
        ok = {k.arg: norm(k.value) for k in inner[0].value.keywords} == {p: p for p in params}
    run.obligation(rid, "AggregateBase.build", bool(ok), key="internal-units",
                   message="build() must run its whole implementation inside 'with energy_units(\"int\")' and forward "
                           "all its arguments: the result must not depend on the caller's units, and the caller's "
                           "units must be restored on every exit", loc=b.loc())
    callers = []
    for f in prog.all_functions():
        for c in [x for x in walk_no_nested(f.node) if isinstance(x, ast.Call)]:
            if call_name(c) == "_build" and isinstance(c.func, ast.Attribute):
                tg = prog.resolve_call(f, c, may=False)
                if any(t.qualname.endswith("AggregateBase._build") for t in tg) or not tg:
                    if tg or f.cls is None or prog.is_subclass(f.cls, "AggregateBase"):
                        callers.append(f.short)
    ok = bool(callers) and set(callers) <= {"AggregateBase.build"}
    run.obligation(rid, "AggregateBase._build", ok, key="only-from-build",
                   message="the internal-units implementation must only be called from build(): %s" % sorted(set(callers)),
                   loc=prog.func(AB + "_build").loc(), sample={"callers": sorted(set(callers))})


