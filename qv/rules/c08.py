"""C08 - evolution superoperator is an identity-started semigroup matching
propagation.

Decided statically: identity start at all initialisation sites (TA), first
interval built from propagated basis elements with paired set/reset, the
recurrence U[ti] = U_step (x) U[ti-1] with the default contraction (TA on the
call expression), agreement of the incremental mode with the all-at-once mode,
apply/at contracting the stored tensor at the located index.  Trace and
Hermiticity at every time follow from C02-B by linearity.  Not decided: the
effect of refining the dense step.
"""
import ast
import copy

from ..loader import AnalysisError, norm, walk_no_nested, call_name, parents_map
from .. import ta
from ..ta import Expr, Array, Facts, normal, show_normal
from ..ta_front import Interp, Obj

ESO = "quantarhei.qm.liouvillespace.evolutionsuperoperator.EvolutionSuperOperator"


def eval_with(prog, func, expr, bindings):
    """Evaluate ``expr`` with the sub-expressions whose normalised text is a
    key of ``bindings`` replaced by the bound symbolic values."""
    expr = copy.deepcopy(expr)
    env = {}
    keys = {}
    for k, (text, val) in enumerate(bindings.items()):
        keys[text] = "__b%d" % k
        env["__b%d" % k] = val

    class R(ast.NodeTransformer):
        def generic_visit(self, node):
            if isinstance(node, ast.expr):
                try:
                    t = norm(node)
                except Exception:
                    t = None
                if t in keys:
                    return ast.copy_location(ast.Name(id=keys[t], ctx=ast.Load()), node)
            return super().generic_visit(node)
    expr = R().visit(expr)
    ast.fix_missing_locations(expr)
    it = Interp(prog, lenient=False)
    it.stack.append(func)
    try:
        return it.eval(expr, env)
    finally:
        it.stack.pop()


def _compose_ok(prog, func, call, step_text, prev_text):
    """the call computes sum_cd STEP[a,b,c,d] PREV[c,d,e,f]"""
    S = Array.opaque("STEP", 4)
    P = Array.opaque("PREV", 4)
    v = eval_with(prog, func, call, {step_text: S, prev_text: P})
    if not isinstance(v, Array) or v.rank != 4:
        return False, "not a rank-4 contraction"
    want = (S.at("a", "b", "c", "d") * P.at("c", "d", "e", "f")).sum_over("c").sum_over("d")
    nf = normal(v.at("a", "b", "e", "f") - want)
    return not nf, "; ".join(show_normal(nf, 3))


def check(run, prog, tier):
    run.explanation = (
        "TA evaluation of the identity initialisation loops, pairing rules on the basis-element "
        "propagation loops, TA evaluation of every composition call (new = step . previous, default "
        "tensordot contraction), sibling comparison of calculate() and calculate_next(), and of "
        "apply()/at(). By induction on the recurrence U(t_i+t_j) = U(t_i)U(t_j) on the grid for a "
        "time-independent generator; equality with direct propagation follows from linearity of "
        "the propagator (C02) and the basis-element construction. Does not decide step refinement "
        "error.")
    run.trusted_base = ["numpy.tensordot default axes=2 semantics as modelled in qv/ta.py",
                        "linearity of ReducedDensityMatrixPropagator.propagate in the initial state "
                        "(C02-A: every term of the iterate is linear or a state-independent source)"]
    run.rule("C08-I", "every calculation of the superoperator uses the dense step, dephasing, tensor and basis in force: no elemental step or other result kept from an earlier calculation", minimum=1)
    from . import memorule
    # (and the Hamiltonian it is computed from hands out its matrices - also the rotating-frame one - in the basis and units
    # in force at the call, not those of an earlier calculation)
    memorule.check(run, prog, "C08-I", ['quantarhei.qm.liouvillespace.evolutionsuperoperator.EvolutionSuperOperator',
                                        'quantarhei.qm.hilbertspace.hamiltonian.Hamiltonian'],
                   "U(t) then belongs to an earlier setting and no longer reproduces direct propagation")
    run.rule("C08-A", "identity start at every initialisation site (TA)", minimum=4)
    run.rule("C08-B", "first interval from propagated basis elements, set/reset paired", minimum=9)
    run.rule("C08-C", "recurrence new = step . previous with the default contraction", minimum=6)
    run.rule("C08-D", "incremental mode is the unrolled all-at-once mode", minimum=5)
    run.rule("C08-E", "apply/at contract the stored tensor at the located index", minimum=4)
    cls = prog.cls(ESO)
    rule_A(run, prog, cls)
    rule_B(run, prog, cls)
    rule_C(run, prog, cls)
    rule_D(run, prog, cls)
    rule_E(run, prog, cls)
    run.rule("C08-F", "the stored evolution superoperator transforms covariantly into a basis context (TA; same "
                      "identity as C04-B4, on the transform method EvolutionSuperOperator resolves to)", minimum=4)
    rule_F(run, prog, cls)
    run.rule("C08-G", "direct propagation with pure dephasing derives its per-step factors from the step in force "
                      "(so that U applied to a state can reproduce it for every refinement)", minimum=2)
    from .. import fresh
    pc = prog.cls("quantarhei.qm.propagators.rdmpropagator.ReducedDensityMatrixPropagator")
    fresh.check(run, "C08-G", prog, pc, "_BOOT_DEPH", "pure dephasing in direct propagation")
    run.rule("C08-H", "the superoperator and the propagator it is built with read the Hamiltonian and the frame "
                      "frequencies under internal units (U applied to a state equals direct propagation whatever units "
                      "context the caller is in)", minimum=15)
    from . import intunits
    intunits.check_classes(run, prog, "C08-H", [cls.qualname, pc.qualname], 15,
                           "times are in femtoseconds: the stored U(t) or its conversion from the rotating frame no "
                           "longer reproduces direct propagation")
    run.rule("C08-J", "what the step-by-step mode keeps between calls and multiplies with the basis-managed data is "
                      "basis-managed too (no plain array frozen in the basis of an earlier call)", minimum=2)
    rule_J(run, prog, cls)
    run.rule("C08-K", "both calculation modes: record the rotating frame alike, accept the same optional generators", minimum=3)
    rule_K(run, prog, cls)
    run.rule("C08-L", "apply() at several times: the string 'all' is not dereferenced as an axis; a list of times is used as "
                      "a whole, not through its first two entries", minimum=2)
    rule_L(run, prog, cls)
    run.rule("C08-M", "the grid point found for a requested time does not depend on where the time axis starts: the look-ups of "
                      "ValueAxis use its points through differences only (affine typing)", minimum=3)
    from . import handout
    handout.check_axis_lookup(run, "C08-M", prog)
    run.rule("C08-N", "a flag given to a constructor is the flag of the new object (is_in_rwa of the evolutions apply() returns, of "
                      "operators and state vectors): nothing the constructor does after recording it - an initial condition set, a "
                      "storage allocated - writes it again", minimum=4)
    rule_N(run, prog)
    run.rule("C08-O", "the rotating frame of a superoperator has its origin at time zero, not at the first point of the axis: "
                      "conversion and application account for the phases at the first point", minimum=2)
    rule_O(run, prog, cls)
    run.rule("C08-P", "a step of the step-by-step mode continues from a value in the rotating frame: a value converted to the "
                      "laboratory frame in between is brought back (or the step is refused)", minimum=1)
    rule_P(run, prog, cls)
    run.rule("C08-Q", "applied to any state the superoperator reproduces direct propagation of that state under the same generator: the operator components a tensor transforms in place when the basis changes are its own arrays - "
                      "an array of the system-bath interaction (or of any argument) kept without a copy would be transformed once per "
                      "object built from it (stored-input analysis shared with C15-E3, restricted to the tensors that have an "
                      "operator form)", minimum=2)
    from . import c15 as _c15
    from ..report import RuleProxy as _RP
    _opf = ("RedfieldRelaxationTensor", "TDRedfieldRelaxationTensor", "LindbladForm", "ElectronicLindbladForm")
    _c15.stored_inputs_intact(_RP(run, "C08-Q", keep=lambda c, k: c.split(".")[0] in _opf), "C08-Q", prog, _c15.TENSORS)


def rule_O(run, prog, cls):
    """'... is the identity at time zero ... and applied to any state reproduces direct propagation of that state': the
    frame rotates with the absolute time (C02-M: the propagators bring the initial state into the frame at the first point
    of their axis, convert_from_RWA multiplies with exp(-i Omega t)).  For a superoperator in the rotating frame this
    fixes two things whenever the axis does not start at zero: (i) converting it multiplies the *input* indices with the
    conjugate phases of the first time - otherwise the converted superoperator at the first time is diag(phases), not
    the identity; (ii) apply() brings the state it is given into the frame at the first time before the contraction.
    Decided structurally: both routines compute phases from the first point of the axis (self.time.data[0], .start or
    .min), or from time differences."""
    rid = "C08-O"
    n = 0
    first = ("self.time.data[0]", "self.time.start", "self.time.min")

    def reads_first(fn, depth=2, seen=None):
        seen = seen if seen is not None else set()
        if fn is None or fn.name in seen or depth < 0:
            return False
        seen.add(fn.name)
        for x in walk_no_nested(fn.node):
            if isinstance(x, (ast.Subscript, ast.Attribute)) and norm(x) in first:
                return True
            if isinstance(x, ast.Call) and isinstance(x.func, ast.Attribute) and norm(x.func.value) == "self":
                if reads_first(prog.find_method(cls, x.func.attr), depth - 1, seen):
                    return True
        return False

    for nme, why in (("convert_from_RWA", "the converted superoperator at the first time of the axis is a matrix of phases instead of "
                                            "the identity"),
                     ("apply", "the state is contracted with the rotating-frame superoperator as it is given (in the laboratory "
                               "frame) while direct propagation rotates it into the frame at the first time first")):
        f = prog.find_method(cls, nme)
        if f is None:
            raise AnalysisError("EvolutionSuperOperator.%s not found" % nme)
        prog.consulted.add(f.relpath)
        n += 1
        run.obligation(rid, f.short, reads_first(f), key="frame-origin",
                       message="%s never looks at the first time of the axis: with a frame that rotates as exp(-i Omega t) in the "
                               "absolute time and an axis that does not start at zero, %s" % (f.short, why), loc=f.loc())
    return n


def rule_P(run, prog, cls):
    """'Computing it step by step gives the same values as computing it all at once': calculate_next() multiplies the value
    it keeps by the step over one interval, which is a rotating-frame superoperator when the Hamiltonian has RWA, and marks
    the result as rotating-frame.  convert_from_RWA() is public and is what a user calls to look at the value after a
    step.  Before the first statement that continues from the stored data there is a test of self.is_in_rwa that brings
    the stored value back into the rotating frame (convert_to_RWA) or refuses."""
    rid = "C08-P"
    f = prog.find_method(cls, "calculate_next")
    prog.consulted.add(f.relpath)
    cont = [c_ for c_ in walk_no_nested(f.node) if isinstance(c_, ast.Call) and (call_name(c_) or "").split(".")[-1] in ("tensordot", "einsum", "dot")
            and any(isinstance(x_, ast.Attribute) and norm(x_) == "self.data" for a_ in c_.args for x_ in ast.walk(a_))]
    if not cont:
        raise AnalysisError("calculate_next: no statement that continues from the stored data found")
    first = min(c_.lineno for c_ in cont)
    guards = [i_ for i_ in walk_no_nested(f.node) if isinstance(i_, ast.If) and i_.lineno < first
              and any(isinstance(x_, ast.Attribute) and norm(x_) == "self.is_in_rwa" for x_ in ast.walk(i_.test))
              and any((isinstance(y_, ast.Call) and norm(y_.func) == "self.convert_to_RWA") or isinstance(y_, ast.Raise)
                      for b_ in i_.body for y_ in ast.walk(b_))]
    run.obligation(rid, f.short, bool(guards), key="frame-of-stored-value",
                   message="calculate_next multiplies the value it keeps by the rotating-frame step (`%s`) and marks the result as "
                           "rotating-frame without looking at self.is_in_rwa: after a convert_from_RWA() between two steps the "
                           "laboratory-frame value is continued as if it were in the rotating frame, and every later value is wrong"
                           % norm(cont[0])[:60], loc=f.loc(cont[0]), sample={"continuations": len(cont)})
    return 1


def rule_N(run, prog):
    """'... applied to any state reproduces direct propagation of that state': EvolutionSuperOperator.apply() creates the
    evolution it returns with is_in_rwa=<frame of the superoperator>; the frame the caller converts from is the one the
    constructor recorded.  All classes of the quantum-mechanics packages, all boolean constructor parameters stored under
    their own name (qv/ctorparam.py)."""
    from .. import ctorparam
    rid = "C08-N"
    n = 0
    for cls in list(prog.all_classes()):
        if not cls.module.name.startswith("quantarhei.qm.") or ".tests." in cls.module.name:
            continue
        for p_, ok, node, why in ctorparam.analyse(prog, cls):
            n += 1
            init = cls.methods["__init__"]
            prog.consulted.add(init.relpath)
            run.obligation(rid, cls.name + ".__init__", ok, key="flag:" + p_,
                           message="%s(%s=...) records the flag and then runs %s: the object reports another value than the one it was "
                                   "created with (an evolution created in the rotating frame is taken for one in the laboratory frame "
                                   "and is not converted back)" % (cls.name, p_, why),
                           loc=init.loc(node), sample={"parameter": p_})
    if n < 4:
        raise AnalysisError("C08-N: only %d boolean constructor parameters stored under their own name found in quantarhei.qm" % n)



def rule_J(run, prog, cls):
    """Computing step by step gives the same values as all at once - also when some steps are taken inside
    eigenbasis_of: self.data follows the context, so anything kept between calls and combined with it must follow too.
    Every product / contraction / sum in the class that has a basis-managed read of self as one operand has no plain
    stored array attribute (computed in some method, not a managed property) as the other; an attribute read through
    .data must be bound to a basis-managed object at every store."""
    from .. import memo
    rid = "C08-J"
    mb = memo.basis_managed_attributes(prog, cls)
    if "data" not in mb:
        raise AnalysisError("EvolutionSuperOperator.data is no longer basis managed")
    methods = memo._class_methods(prog, cls)
    stores = {}
    for fn in methods.values():
        for n in ast.walk(fn.node):
            if isinstance(n, ast.Assign):
                for t_ in n.targets:
                    if isinstance(t_, ast.Attribute) and norm(t_.value) == "self" and t_.attr not in mb \
                            and not (t_.attr.startswith("_") and t_.attr[1:] in mb):
                        stores.setdefault(t_.attr, []).append((fn, n))

    def managed_ctor(v):
        if not (isinstance(v, ast.Call) and isinstance(v.func, ast.Name)):
            return False
        c = prog.resolve_in_module(cls.module.name, v.func.id)
        return hasattr(c, "methods") and "data" in memo.basis_managed_attributes(prog, c)
    n_sites = 0
    for fn in cls.methods.values():
        prog.consulted.add(fn.relpath)
        for n in ast.walk(fn.node):
            if isinstance(n, ast.Call) and call_name(n) in ("tensordot", "dot", "einsum", "matmul"):
                ops = list(n.args)
            elif isinstance(n, ast.BinOp) and isinstance(n.op, (ast.Mult, ast.MatMult, ast.Add, ast.Sub)):
                ops = [n.left, n.right]
            else:
                continue
            txt = [norm(o) for o in ops]
            man = [t_ for t_ in txt if any(t_ == "self." + a or t_.startswith("self.%s[" % a) or t_.startswith("self._%s[" % a) for a in mb)]
            if not man:
                continue
            n_sites += 1
            bad = None
            for o, t_ in zip(ops, txt):
                b = o
                while isinstance(b, ast.Subscript):
                    b = b.value
                if isinstance(b, ast.Attribute) and norm(b.value) == "self" and b.attr in stores:
                    computed = [st for _, st in stores[b.attr] if isinstance(st.value, (ast.Call, ast.BinOp, ast.Subscript))]
                    if computed and not all(managed_ctor(st.value) for st in computed):
                        bad = "self.%s (a plain array stored by %s)" % (b.attr, stores[b.attr][0][0].short)
                    elif computed:
                        bad = "self.%s itself (a managed object; its .data has to be read)" % b.attr
                if isinstance(b, ast.Attribute) and b.attr == "data" and isinstance(b.value, ast.Attribute) \
                        and norm(b.value.value) == "self" and b.value.attr in stores:
                    if not all(managed_ctor(st.value) for _, st in stores[b.value.attr]):
                        bad = "self.%s.data, where self.%s is not always bound to a basis-managed object" % (b.value.attr, b.value.attr)
            run.obligation(rid, fn.short, bad is None, key="managed-operands:" + norm(n)[:50],
                           message="%s combines the basis-managed %s with %s: the stored array stays in the basis of the call that "
                                   "computed it while the data follow the current context, so steps taken in different bases "
                                   "are mixed" % (fn.short, man[0][:40], bad), loc=fn.loc(n), sample={"expression": norm(n)[:80]})
    if n_sites < 2:
        raise AnalysisError("only %d combinations with the managed data found (2 confirmed)" % n_sites)


def _unguarded_derefs(fn, attrs):
    """attributes of self in attrs that are dereferenced in fn without a dominating 'is not None' test"""
    from ..loader import parents_map
    pm = parents_map(fn.node)
    out = {}
    for n in ast.walk(fn.node):
        if isinstance(n, ast.Attribute) and isinstance(n.value, ast.Attribute) and norm(n.value.value) == "self" \
                and n.value.attr in attrs:
            A = n.value.attr
            g = False
            node = n
            while node is not None and node is not fn.node:
                p_ = pm.get(node)
                if isinstance(p_, ast.If):
                    if ("self.%s is not None" % A) in norm(p_.test) and any(node is b for b in p_.body):
                        g = True
                    if norm(p_.test) == ("self.%s is None" % A) and any(node is b for b in p_.orelse):
                        g = True
                if isinstance(p_, ast.BoolOp) and isinstance(p_.op, ast.And):
                    idx = [i for i, v in enumerate(p_.values) if v is node]
                    if idx and any(("self.%s is not None" % A) in norm(v) for v in p_.values[:idx[0]]):
                        g = True
                for fld in ("body", "orelse", "finalbody"):
                    blk = getattr(p_, fld, None)
                    if isinstance(blk, list) and node in blk:
                        for prev in blk[:blk.index(node)]:
                            if isinstance(prev, ast.If) and norm(prev.test) == ("self.%s is None" % A) \
                                    and isinstance(prev.body[-1], (ast.Raise, ast.Return)):
                                g = True
                node = p_
            if not g:
                out.setdefault(A, n)
    return out


def rule_K(run, prog, cls):
    """'Computing it step by step gives the same values as computing it all at once': the two entries calculate() and
    calculate_next() are siblings.  (i) Each of them ends, on the path common to all its branches, by recording the
    rotating frame (`if self.ham.has_rwa: self.is_in_rwa = True`) - convert_from_RWA looks at nothing else.  (ii) They
    accept the same generators: an optional constructor input (default None) that one entry never dereferences
    unguarded is not dereferenced unguarded by the other."""
    rid = "C08-K"
    for nme in ("calculate", "calculate_next"):
        fn = cls.methods[nme]
        prog.consulted.add(fn.relpath)
        flag = [st for st in fn.node.body if isinstance(st, ast.If) and norm(st.test) == "self.ham.has_rwa"
                and any(norm(x) == "self.is_in_rwa = True" for x in st.body)]
        run.obligation(rid, fn.short, bool(flag), key="frame-flag",
                       message="%s fills the superoperator from a Hamiltonian that may have a rotating-wave reference and does not "
                               "record it (self.is_in_rwa): convert_from_RWA then silently does nothing, and the values differ "
                               "from the other calculation mode and from lab-frame propagation" % fn.short, loc=fn.loc(fn.node))
    init = cls.methods["__init__"]
    a = init.node.args
    pos = a.args[1:]
    opt = {p_.arg for p_, d in zip(pos[len(pos) - len(a.defaults):], a.defaults) if isinstance(d, ast.Constant) and d.value is None}
    optattrs = {t_.attr for n in ast.walk(init.node) if isinstance(n, ast.Assign) and isinstance(n.value, ast.Name) and n.value.id in opt
                for t_ in n.targets if isinstance(t_, ast.Attribute) and norm(t_.value) == "self"}
    if "relt" not in optattrs:
        raise AnalysisError("EvolutionSuperOperator.__init__: optional relt no longer stored as self.relt")
    d1 = _unguarded_derefs(cls.methods["calculate"], optattrs)
    d2 = _unguarded_derefs(cls.methods["calculate_next"], optattrs)
    for A in sorted(set(d1) ^ set(d2)):
        fn = cls.methods["calculate"] if A in d1 else cls.methods["calculate_next"]
        other = "calculate_next" if A in d1 else "calculate"
        node = (d1 if A in d1 else d2)[A]
        run.obligation(rid, fn.short, False, key="optional-input:" + A,
                       message="%s dereferences self.%s (%s) without looking whether it was given; %s() works without it (the "
                               "constructor default is None): the same generator can be calculated in one mode and raises "
                               "AttributeError in the other" % (fn.short, A, norm(node), other), loc=fn.loc(node))
    run.obligation(rid, "EvolutionSuperOperator", True, key="optional-inputs-compared", message="",
                   loc=init.loc(init.node), sample={"optional": sorted(optattrs), "calculate": sorted(d1), "calculate_next": sorted(d2)})


def rule_L(run, prog, cls):
    """'Applied to any state reproduces direct propagation of that state' at the times asked for.  In apply(): where the
    time argument may be a string (the branch guarded by isinstance(time, str)) no attribute of it is read; where it is a
    list, the list as a whole is looked at (iterated, compared, converted) - an axis built from its first two entries and
    its length alone stands for other times than the ones given."""
    from ..loader import parents_map
    rid = "C08-L"
    fn = cls.methods["apply"]
    prog.consulted.add(fn.relpath)
    par = fn.node.args.args[1].arg
    pm = parents_map(fn.node)
    strifs = [n for n in ast.walk(fn.node) if isinstance(n, ast.If) and ("isinstance(%s, str)" % par) in norm(n.test)
              and not norm(n.test).startswith("not ")]
    outer = [n for n in strifs if ("id(%s)" % par) in norm(n.test) or len(strifs) == 1]
    if not outer:
        raise AnalysisError("apply: branch for a string argument not found")
    bad = [x for st in outer[0].body for x in ast.walk(st) if isinstance(x, ast.Attribute) and isinstance(x.value, ast.Name)
           and x.value.id == par]
    run.obligation(rid, fn.short, not bad, key="string-not-dereferenced",
                   message="in the branch of apply() taken for %s='all' the argument is dereferenced (%s): a string has no such "
                           "attribute, the documented call raises AttributeError" % (par, norm(bad[0]) if bad else ""),
                   loc=fn.loc(bad[0]) if bad else fn.loc(outer[0]))
    # list branch: the else of `if isinstance(time, TimeAxis)`
    lst = [n for n in ast.walk(fn.node) if isinstance(n, ast.If) and norm(n.test) == "isinstance(%s, TimeAxis)" % par and n.orelse]
    if len(lst) != 1:
        raise AnalysisError("apply: branch for a list of times not found")
    whole = []
    for st in lst[0].orelse:
        for x in ast.walk(st):
            if isinstance(x, ast.Name) and x.id == par and isinstance(x.ctx, ast.Load):
                p_ = pm.get(x)
                if isinstance(p_, ast.Subscript) and p_.value is x:
                    continue
                if isinstance(p_, ast.Call) and call_name(p_) == "len":
                    continue
                whole.append(x)
    run.obligation(rid, fn.short, bool(whole), key="list-used-as-a-whole",
                   message="apply() builds the axis of the result from the first two entries and the length of the list of times "
                           "and never looks at the other entries: for times that are not equidistant the states returned belong "
                           "to other times than the ones asked for", loc=fn.loc(lst[0]))


def rule_A(run, prog, cls):
    rid = "C08-A"
    n = 0
    for mname in ("__init__", "_initialize_data"):
        f = cls.methods[mname]
        prog.consulted.add(f.relpath)
        pm = parents_map(f.node)
        for lp in walk_no_nested(f.node):
            if not (isinstance(lp, ast.For) and isinstance(pm.get(lp), (ast.If, ast.FunctionDef))):
                continue
            stores = [s for s in ast.walk(lp) if isinstance(s, ast.Assign)
                      and isinstance(s.targets[0], ast.Subscript)
                      and norm(s.targets[0].value) == "self.data"]
            if not stores or isinstance(pm.get(lp), ast.For):
                continue
            n += 1
            sub = stores[0].targets[0].slice
            rank = len(sub.elts)
            data = Array.zeros(rank, name="data")
            selfo = Obj("self", attrs={"_data": data}, alias={"data": "_data"})
            it = Interp(prog, lenient=False)
            it.stack.append(f)
            it.exec_body([lp], {"self": selfo, "dim": Expr.factor("N")})
            it.stack.pop()
            if rank == 5:
                got = data.at("t", "a", "b", "c", "d")
                want = Expr.delta("t", "#0") * Expr.delta("a", "c") * Expr.delta("b", "d")
            else:
                got = data.at("a", "b", "c", "d")
                want = Expr.delta("a", "c") * Expr.delta("b", "d")
            nf = normal(got - want)
            construct = "EvolutionSuperOperator.%s:site%d" % (mname, n)
            run.obligation(rid, construct, not nf, key="identity",
                           message="initial value is not the unit superoperator delta_ac delta_bd "
                                   "(at time index 0); difference: %s" % "; ".join(show_normal(nf, 3)),
                           loc=f.loc(lp), sample={"site": construct, "rank": rank,
                                                  "value": show_normal(normal(got), 2)})
            # a fresh zero allocation precedes the loop in the same block
            par = pm.get(lp)
            blk = None
            for fld in ("body", "orelse"):
                b = getattr(par, fld, None)
                if isinstance(b, list) and lp in b:
                    blk = b
            before = blk[:blk.index(lp)] if blk else []
            alloc = [s for s in ast.walk(ast.Module(body=before, type_ignores=[]))
                     if isinstance(s, ast.Assign) and norm(s.targets[0]) == "self.data"
                     and isinstance(s.value, ast.Call) and call_name(s.value) == "zeros"]
            cond_alloc = [s for s in before if isinstance(s, ast.If) and
                          any(a in list(ast.walk(s)) for a in alloc)]
            if mname == "_initialize_data" and cond_alloc:
                # the just-in-time branch re-allocates only on a dimension change; it is
                # reached with now == 0 on data that __init__ already set to the identity
                run.note("%s: zero allocation is conditional (jit mode keeps the array created by "
                         "__init__)" % construct)
                continue
            run.obligation(rid, construct, bool(alloc), key="fresh-zeros",
                           message="identity is not written into freshly allocated zeros", loc=f.loc(lp))
    if n != 4:
        raise AnalysisError("expected 4 identity initialisation sites, found %d" % n)


def rule_B(run, prog, cls):
    from .. import pat
    rid = "C08-B"
    for mname, slot in (("_elemental_step_TimeIndep", "1"), ("_elemental_step_TimeDependent", "$AX.length - 1"),
                        ("_all_steps_time_dep", None)):
        f = cls.methods[mname]
        construct = "EvolutionSuperOperator.%s" % mname
        loops = [n for n in f.node.body if isinstance(n, ast.For)]
        if len(loops) != 1 or not isinstance(loops[0].body[0], ast.For):
            raise AnalysisError("%s: basis-element double loop not found" % construct)
        outer, inner = loops[0], loops[0].body[0]
        env = {"N": outer.target.id, "M": inner.target.id}
        top = [norm(s) for s in f.node.body]
        # both loops run over the full dimension
        kd, e0 = pat.find(top, "$DIM = self.ham.dim", {})
        if kd is None:
            kd, e0 = pat.find(top, "$DIM = self.dim", {})
        full = kd is not None and norm(outer.iter) == "range(%s)" % e0["DIM"] and norm(inner.iter) == "range(%s)" % e0["DIM"]
        body = [norm(s) for s in inner.body]
        e, pos = pat.seq(body, ["$R.data[$N, $M] = 1.0", "$RT = $P.propagate($R)", "$R.data[$N, $M] = 0.0"], env)
        once = e is not None and len(pat.find_all(body, "$R.data[$N, $M] = 1.0", e)) == 1
        run.obligation(rid, construct, bool(full and once), key="set-propagate-reset",
                       message="every basis element E_nm must be set to 1, propagated and reset to 0 "
                               "inside a full double loop (%s; body: %s)" % (pos if e is None else "ok", body),
                       loc=f.loc(outer), sample={"routine": mname, "body": body})
        esc = [x for x in ast.walk(inner) if isinstance(x, (ast.Break, ast.Continue, ast.Return))]
        run.obligation(rid, construct, not esc, key="no-escape",
                       message="loop exit between setting and resetting a basis element", loc=f.loc(inner))
        e = e or env
        ok = False
        store = None
        if slot is not None:
            # the one-step axis name, if the slot refers to it
            ka, ea = pat.find(top, "$AX = TimeAxis(t0, self.dense_time.length, self.dense_time.step)", e)
            e2 = ea if ka is not None else e
            k, e3 = pat.find(body, "$U[:, :, $N, $M] = $RT.data[%s, :, :]" % slot, e2)
            ok = k is not None and pos is not None and pos[1] < k < pos[2] if e is not env else False
            store = body[k] if k is not None else None
            if ok:
                # U is a fresh zero tensor returned by the routine
                ok = pat.find(top, "$U = numpy.zeros(($DIM, $DIM, $DIM, $DIM), dtype=COMPLEX)", dict(e3, **e0))[0] is not None \
                    and pat.find(top, "return $U", e3)[0] is not None
        else:
            k, e3 = pat.find(body, "self.data[:, :, :, $N, $M] = $RT.data[:, :, :]", e)
            ok = k is not None and e is not env and pos[1] < k < pos[2]
            store = body[k] if k is not None else None
        run.obligation(rid, construct, bool(ok), key="column",
                       message="the propagated basis element must fill U[.., :, :, n, m] from the last "
                               "stored time of the one-step propagation, between propagate and reset", loc=f.loc(inner),
                       sample={"store": store})
        k, _ = pat.find(top, "$R = ReducedDensityMatrix(dim=$DIM)", dict(e, **e0)) if "R" in e else (None, None)
        run.obligation(rid, construct, k is not None, key="fresh-basis-matrix",
                       message="the basis-element matrix must start as a fresh zero matrix", loc=f.loc())
    f = cls.methods["_elemental_step_TimeIndep"]
    top = [norm(s) for s in f.node.body]
    e, pos = pat.seq(top, ["$AX = TimeAxis(t0, 2, self.dense_time.step)",
                           "$P = ReducedDensityMatrixPropagator($AX, self.ham, RTensor=self.relt, PDeph=self.pdeph)"])
    run.obligation(rid, "EvolutionSuperOperator._elemental_step_TimeIndep", e is not None, key="one-step-axis",
                   message="elemental step must propagate, with the system's Hamiltonian, tensor and dephasing, "
                           "over exactly one dense step (a two-point time axis)", loc=f.loc())
    g = cls.methods["set_dense_dt"]
    prm = [a.arg for a in g.node.args.args if a.arg != "self"]
    st = [norm(s) for s in g.node.body if isinstance(s, ast.Assign)]
    ok = len(prm) == 1 and st == ["self.dense_time = TimeAxis(0.0, %s + 1, self.time.step / %s)" % (prm[0], prm[0])]
    run.obligation(rid, "EvolutionSuperOperator.set_dense_dt", ok, key="dense-axis",
                   message="dense axis must have Nt+1 points of step time.step/Nt (Nt dense steps = one "
                           "step of the superoperator)", loc=g.loc(), sample={"statements": st})


def _tensordots(node):
    return [n for n in ast.walk(node) if isinstance(n, ast.Call) and call_name(n) in ("tensordot", "einsum")]


def rule_C(run, prog, cls):
    from .. import pat
    rid = "C08-C"
    # powers within the first interval
    f = cls.methods["_one_step_with_dense_TimeIndep"]
    top = [norm(s_) for s_ in f.node.body if not (isinstance(s_, ast.Expr) and isinstance(s_.value, ast.Constant))]
    prm = [a_.arg for a_ in f.node.args.args if a_.arg != "self"]
    e, pos = pat.seq(top, ["$U1 = self._elemental_step_TimeIndep(%s)" % ", ".join(p_ for p_ in prm if p_ != "Ndense"),
                           "$UD[:, :, :, :] = $U1[:, :, :, :]"])
    loops = [n for n in f.node.body if isinstance(n, ast.For)]
    ok = e is not None and len(loops) == 1 and norm(loops[0].iter) == "range(2, self.dense_time.length)"
    comp = False
    detail = "" if e is not None else str(pos)
    td = _tensordots(loops[0]) if loops else []
    if ok and len(td) == 1:
        comp, detail = _compose_ok(prog, f, td[0], e["U1"], e["UD"])
        st0 = loops[0].body[0]
        ok = len(loops[0].body) == 1 and isinstance(st0, ast.Assign) and norm(st0.targets[0]) == e["UD"] and \
            pat.find(top, "return $UD", e)[0] is not None and \
            pat.find(top, "$UD = numpy.zeros($U1.shape, dtype=COMPLEX)", e)[0] is not None
    run.obligation(rid, "EvolutionSuperOperator._one_step_with_dense_TimeIndep",
                   bool(ok and comp), key="dense-powers",
                   message="first interval must be the elemental step composed (dense length - 1) times: start from a "
                           "copy of it, loop range(2, dense length), U = step . U, return U (%s)" % detail,
                   loc=f.loc(), sample={"loop": norm(loops[0].iter) if loops else None,
                                        "compose": norm(td[0]) if td else None})
    # remaining intervals
    f = cls.methods["_calculate_remainig_using_first_interval"]
    top = [norm(s_) for s_ in f.node.body if not (isinstance(s_, ast.Expr) and isinstance(s_.value, ast.Constant))]
    loops = [n for n in f.node.body if isinstance(n, ast.For)]
    k, e = pat.find(top, "$UD = self.data[1, :, :, :, :]", {})
    prm = [a_.arg for a_ in f.node.args.args if a_.arg != "self"]
    ok = k is not None and len(loops) == 1 and len(prm) == 1 and norm(loops[0].iter) == "range(2, %s)" % prm[0]
    td = _tensordots(loops[0]) if loops else []
    comp, detail = (False, "")
    v = loops[0].target.id if loops else "ti"
    if ok and len(td) == 1:
        comp, detail = _compose_ok(prog, f, td[0], e["UD"], "self.data[%s - 1, :, :, :, :]" % v)
    tgt_ok = loops and len(loops[0].body) == 1 and isinstance(loops[0].body[0], ast.Assign) and \
        norm(loops[0].body[0].targets[0]) == "self.data[%s, :, :, :, :]" % v
    run.obligation(rid, "EvolutionSuperOperator._calculate_remainig_using_first_interval",
                   bool(ok and comp and tgt_ok), key="recurrence",
                   message="data[ti] must be data[1] . data[ti-1] for every ti >= 2 (%s)" % detail,
                   loc=f.loc(), sample={"loop": norm(loops[0].iter) if loops else None,
                                        "compose": norm(td[0]) if td else None})
    # calculate(): branches
    f = cls.methods["calculate"]
    td = _tensordots(f.node)
    for c in td:
        comp, detail = _compose_ok(prog, f, c, "Ut1", "self.data[ti - 1, :, :, :, :]")
        run.obligation(rid, "EvolutionSuperOperator.calculate", comp, key="gaussian:" + norm(c)[:40],
                       message="time-dependent branch must compose the new step from the left: "
                               "data[ti] = Ut1 . data[ti-1] (%s)" % detail, loc=f.loc(c),
                       sample={"compose": norm(c)})
    st = [norm(s) for s in ast.walk(f.node) if isinstance(s, ast.stmt)]
    ok = "self.data[1, :, :, :, :] = self._one_step_with_dense_TimeIndep(t0, self.dense_time.length, self.dense_time.step, Nt)" in st \
        and "self._calculate_remainig_using_first_interval(Nt)" in st and "t0 = 0.0" in st
    run.obligation(rid, "EvolutionSuperOperator.calculate", ok, key="first-then-rest",
                   message="time-independent branch must store the first interval in data[1] and then "
                           "build the rest by the recurrence", loc=f.loc())
    ok = "self._initialize_data()" in st and st.index("self._initialize_data()") < \
        min(i for i, s in enumerate(st) if "self.data[" in s and "=" in s) if any("self.data[" in s for s in st) else False
    lines = {norm(s): s.lineno for s in ast.walk(f.node) if isinstance(s, ast.stmt)}
    firstuse = min(s.lineno for s in ast.walk(f.node) if isinstance(s, ast.stmt) and
                   "self.data[" in norm(s) and not isinstance(s, (ast.If, ast.For, ast.FunctionDef)))
    ok = "self._initialize_data()" in lines and lines["self._initialize_data()"] < firstuse
    run.obligation(rid, "EvolutionSuperOperator.calculate", ok, key="reinitialise",
                   message="calculate() must re-initialise the data before using them", loc=f.loc())
    for c in _tensordots(cls.methods["calculate_next"].node):
        a0, a1 = norm(c.args[0]), norm(c.args[1])
        comp, detail = _compose_ok(prog, cls.methods["calculate_next"], c, a0, a1)
        left_is_step = (a0 == "Ut1" or _is_step(c.args[0])) and a1.startswith("self.data[")
        run.obligation(rid, "EvolutionSuperOperator.calculate_next", comp and left_is_step,
                       key="compose:" + norm(c)[:50],
                       message="incremental mode must compose step . previous (%s)" % detail,
                       loc=cls.methods["calculate_next"].loc(c), sample={"compose": norm(c)})


def _is_step(node):
    """the kept propagator of one interval: self.Udt as an array, or the data of self.Udt held as a superoperator;
    optionally with a subscript of full slices"""
    if isinstance(node, ast.Subscript):
        sl = node.slice.elts if isinstance(node.slice, ast.Tuple) else [node.slice]
        if not all(isinstance(x, ast.Slice) and x.lower is None and x.upper is None and x.step is None for x in sl):
            return False
        node = node.value
    return norm(node) in ("self.Udt", "self.Udt.data")


def _one_step_call(node):
    """the one-step routine called as in calculate(), possibly wrapped as SuperOperator(data=...)"""
    if isinstance(node, ast.Call) and call_name(node) == "SuperOperator":
        vals = [k.value for k in node.keywords if k.arg == "data"] + list(node.args[:1])
        if len(vals) != 1:
            return False
        node = vals[0]
    return norm(node) == "self._one_step_with_dense_TimeIndep(t0, self.dense_time.length, self.dense_time.step, Nt)"


def rule_D(run, prog, cls):
    rid = "C08-D"
    f = cls.methods["calculate_next"]
    # non-Gaussian branch = orelse of the top-level if on pdeph
    top = [s for s in f.node.body if isinstance(s, ast.If) and "pdeph" in norm(s.test)]
    if len(top) != 1:
        raise AnalysisError("calculate_next: dispatch on pure dephasing not found")
    br = top[0].orelse
    first = [s for s in br if isinstance(s, ast.If) and norm(s.test) == "self.now == 0"]
    if len(first) != 1:
        raise AnalysisError("calculate_next: 'self.now == 0' branch not found")
    fb = [norm(s) for s in ast.walk(ast.Module(body=first[0].body, type_ignores=[])) if isinstance(s, ast.stmt)]
    fstm = [s_ for s_ in ast.walk(ast.Module(body=first[0].body, type_ignores=[])) if isinstance(s_, ast.Assign)]
    ok = "self._initialize_data(save=save)" in fb and "t0 = 0.0" in fb and \
        any(norm(s_.targets[0]) == "self.Udt" and _one_step_call(s_.value) for s_ in fstm)
    run.obligation(rid, "EvolutionSuperOperator.calculate_next", ok, key="first-step",
                   message="the first incremental step must initialise and compute the first interval "
                           "exactly as calculate() does", loc=f.loc(first[0]), sample={"statements": fb[:6]})
    ok = any(norm(s_.targets[0]) == "self.data[1, :, :, :, :]" and _is_step(s_.value) for s_ in fstm) and \
        any(norm(s_.targets[0]) == "self.data[:, :, :, :]" and _is_step(s_.value) for s_ in fstm)
    run.obligation(rid, "EvolutionSuperOperator.calculate_next", ok, key="first-store",
                   message="the first interval must be stored (slot 1 when saving, whole array otherwise)",
                   loc=f.loc(first[0]))
    lb = [norm(s) for s in ast.walk(ast.Module(body=first[0].orelse, type_ignores=[])) if isinstance(s, ast.stmt)]
    lstm = [s_ for s_ in ast.walk(ast.Module(body=first[0].orelse, type_ignores=[])) if isinstance(s_, ast.Assign)]
    ok = "ti = self.now + 1" in lb and any(
        norm(s_.targets[0]) == "self.data[ti, :, :, :, :]" and isinstance(s_.value, ast.Call) and call_name(s_.value) == "tensordot"
        and len(s_.value.args) == 2 and _is_step(s_.value.args[0]) and norm(s_.value.args[1]) == "self.data[ti - 1, :, :, :, :]"
        for s_ in lstm)
    run.obligation(rid, "EvolutionSuperOperator.calculate_next", ok, key="later-steps",
                   message="later incremental steps must apply the stored first interval to the previous "
                           "value at ti = now + 1", loc=f.loc(first[0]))
    # the running value must own its storage: rebinding self.data to an array that is also held
    # elsewhere (the stored first interval) makes the in-place update overwrite the step as well
    rebind = [n for m_ in ("calculate_next", "calculate") for n in ast.walk(cls.methods[m_].node)
              if isinstance(n, ast.Assign) and any(norm(t_) in ("self.data", "self._data") for t_ in n.targets)
              and not (isinstance(n.value, ast.Call) and call_name(n.value) in ("zeros", "copy", "array", "tensordot", "einsum"))]
    run.obligation(rid, "EvolutionSuperOperator.calculate_next", not rebind, key="no-aliasing",
                   message="the superoperator's data are rebound to an existing array (%s): the in-place update of "
                           "later steps then also overwrites that array" % [norm(n) for n in rebind],
                   loc=f.loc(rebind[0]) if rebind else f.loc(), sample={"rebinding_assignments": len(rebind)})
    sudt = [n for n in ast.walk(f.node) if isinstance(n, ast.Assign) and norm(n.targets[0]) == "self.Udt"]
    ok = all(isinstance(n.value, ast.Call) for n in sudt) and len(sudt) == 1
    run.obligation(rid, "EvolutionSuperOperator.calculate_next", ok, key="step-owned",
                   message="the stored first interval must be the fresh result of the one-step routine, not an alias "
                           "of the running value", loc=f.loc())
    # 'now' advances exactly once on every path of both branches
    def count_now(stmts):
        """min and max number of 'self.now += 1' over paths"""
        lo = hi = 0
        for s in stmts:
            if isinstance(s, ast.AugAssign) and norm(s.target) == "self.now":
                if not (isinstance(s.value, ast.Constant) and s.value.value == 1 and isinstance(s.op, ast.Add)):
                    return (-99, 99)
                lo += 1
                hi += 1
            elif isinstance(s, ast.If):
                a = count_now(s.body)
                b = count_now(s.orelse)
                lo += min(a[0], b[0])
                hi += max(a[1], b[1])
            elif isinstance(s, (ast.For, ast.While)):
                a = count_now(s.body)
                if a != (0, 0):
                    return (-99, 99)
        return (lo, hi)
    for name, blk in (("gaussian", top[0].body), ("time-independent", top[0].orelse)):
        c = count_now(blk)
        run.obligation(rid, "EvolutionSuperOperator.calculate_next", c == (1, 1), key="now-once:" + name,
                       message="'now' must advance by exactly one per call on every path of the %s "
                               "branch (min %d, max %d)" % (name, c[0], c[1]), loc=f.loc(),
                       sample={"branch": name, "advances": list(c)})


def rule_F(run, prog, cls):
    """Inside eigenbasis_of(...) the stored U(t) is presented through the transform method the class
    inherits.  Identity start, semigroup composition, trace/Hermiticity preservation and agreement
    with direct propagation hold in the new basis iff U'(t) rho' = (U(t) rho)' with rho' = S^-1 rho S,
    for the time-resolved (5-index) and the single-time (4-index) storage, with and without an
    explicit inverse - using only S^-1 S = 1 (complex Hamiltonians give a unitary, not orthogonal, S)."""
    from . import c04
    from ..ta import Array
    rid = "C08-F"
    f = prog.find_method(cls, "transform")
    if f is None:
        raise AnalysisError("EvolutionSuperOperator resolves no transform method")
    owner = f.cls
    qual = "%s.%s" % (owner.module.name, owner.name)
    for with_inv in (False, True):
        for rt in (0, 1):
            so, g = c04._run_transform(prog, qual, {"_data": Array.opaque("R", 4 + rt)}, {}, with_inv)
            c04._tensor_law(_Rid(run, rid), "%s.transform[rank %d] as used by EvolutionSuperOperator" % (owner.name, 4 + rt),
                            so.get("_data"), rt, g, "covariance-" + ("inv" if with_inv else "noinv"))


class _Rid:
    """forwards obligations of a borrowed rule under this property's rule id"""

    def __init__(self, run, rid):
        self._run, self._rid = run, rid

    def obligation(self, rid, construct, ok, **kw):
        return self._run.obligation(self._rid, construct, ok, **kw)

    def __getattr__(self, name):
        return getattr(self._run, name)


def rule_E(run, prog, cls):
    rid = "C08-E"
    f = cls.methods["apply"]
    # the state contracted: target.data, or a local made from it - a copy, or what a method of self makes of the target
    # (the state rotated into the frame of the superoperator, C08-O)
    state_names = {"target.data"}
    for a_ in walk_no_nested(f.node):
        if isinstance(a_, ast.Assign) and len(a_.targets) == 1 and isinstance(a_.targets[0], ast.Name):
            v_ = a_.value
            if norm(v_) == "target.data" or (isinstance(v_, ast.Call) and isinstance(v_.func, ast.Attribute)
                                             and norm(v_.func.value) == "self" and [norm(x_) for x_ in v_.args] == ["target"]):
                state_names.add(a_.targets[0].id)
    for c in _tensordots(f.node):
        a0, a1 = norm(c.args[0]), norm(c.args[1])
        U = Array.opaque("U", 4)
        rho = Array.opaque("rho", 2)
        v = eval_with(prog, f, c, {a0: U, a1: rho})
        ok = isinstance(v, Array) and v.rank == 2
        if ok:
            want = (U.at("a", "b", "c", "d") * rho.at("c", "d")).sum_over("c").sum_over("d")
            ok = not normal(v.at("a", "b") - want)
        src_ok = (a0.startswith("self.data[") or a0 == "Ut.data") and a1 in state_names
        run.obligation(rid, "EvolutionSuperOperator.apply", ok and src_ok, key="contract:" + a0[:30],
                       message="apply must contract the stored tensor at the located index with the "
                               "state: sum_cd U[a,b,c,d] rho[c,d]", loc=f.loc(c), sample={"call": norm(c)})
    st = [norm(s) for s in ast.walk(f.node) if isinstance(s, ast.stmt)]

    def grid_index(fn_, tparam):
        """(name, how) of the index that selects the stored time slice: it must be the grid point of the object's
        own time axis *nearest* to the requested time.  locate() gives the lower neighbour and the remaining
        distance; used without the distance it returns the previous point for grid times that round down."""
        for n_ in walk_no_nested(fn_.node):
            if isinstance(n_, ast.Assign) and isinstance(n_.value, ast.Call) and isinstance(n_.value.func, ast.Attribute) \
                    and norm(n_.value.func.value) == "self.time" and [norm(a_) for a_ in n_.value.args] == [tparam]:
                tg = n_.targets[0]
                nm = tg.id if isinstance(tg, ast.Name) else (tg.elts[0].id if isinstance(tg, ast.Tuple) else None)
                return nm, n_.value.func.attr, n_
        return None, None, None
    tpar = f.node.args.args[1].arg
    ix, how, node_ = grid_index(f, tpar)
    ok = ix is not None and how == "nearest" and \
        any(("oper_ven.data = numpy.tensordot(self.data[%s, :, :, :, :], %s)" % (ix, sn_)) in st for sn_ in state_names)
    run.obligation(rid, "EvolutionSuperOperator.apply", ok, key="located-index",
                   message="single-time apply must contract the slice at the grid point of the superoperator's own time "
                           "axis nearest to the requested time (found: index from self.time.%s)" % how, loc=f.loc(node_) if node_ is not None else f.loc())
    g = cls.methods["at"]
    st = [norm(s) for s in ast.walk(g.node) if isinstance(s, ast.stmt)]
    rets = [n for n in walk_no_nested(g.node) if isinstance(n, ast.Return) and isinstance(n.value, ast.Call)
            and call_name(n.value) == "SuperOperator"]
    srcs = [k.value for r_ in rets for k in r_.value.keywords if k.arg == "data"] + [r_.value.args[0] for r_ in rets if r_.value.args]

    def _core(e):
        # strip an owning copy: X.copy(), numpy.array(X), numpy.copy(X)
        if isinstance(e, ast.Call) and isinstance(e.func, ast.Attribute) and e.func.attr == "copy" and not e.args:
            return e.func.value, True
        if isinstance(e, ast.Call) and call_name(e) in ("array", "copy") and e.args:
            return e.args[0], True
        return e, False
    cores = [_core(e) for e in srcs]
    ix2, how2, node2 = grid_index(g, g.node.args.args[1].arg)
    ok = ix2 is not None and how2 == "nearest" and any(norm(c_) == "self.data[%s, :, :, :, :]" % ix2 for c_, _ in cores)
    run.obligation(rid, "EvolutionSuperOperator.at", ok, key="located-slice",
                   message="at(time) must return the slice at the grid point nearest to the requested time (found: index "
                           "from self.time.%s)" % how2, loc=g.loc(node2) if node2 is not None else g.loc())
    # the object handed out is basis managed and transformed in place: it must own its data, a view of the stored
    # array would carry every later transformation of the returned object into the stored values
    shared = [norm(e) for (c_, owned), e in zip(cores, srcs) if not owned and "self.data" in norm(c_)]
    run.obligation(rid, "EvolutionSuperOperator.at", bool(srcs) and not shared, key="owns-its-data",
                   message="at() builds the returned SuperOperator on %s, a view of the stored array: the returned object "
                           "is transformed in place when a basis context opens or closes, and the stored time slice with it"
                           % shared, loc=g.loc(), sample={"data_arguments": [norm(e) for e in srcs]})
    # apply() dispatches on the kind of `time`: every kind the documentation lists must reach its branch
    from .. import apiexist
    apiexist.check_isinstance_types(run, rid, prog, [f, g], "applying the superoperator")
