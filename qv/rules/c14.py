"""C14 - initial and thermal states are valid Boltzmann density matrices.

Decided statically: Boltzmann exponents normalised by their own sum are taken
relative to the minimum energy (A); the zero-temperature guard dominates every
division by kT and selects the lowest state (B); arrays computed from data read
inside an eigenbasis context are wrapped into basis-managed objects inside a
context of the same operator (C); thermal matrices are diagonal with weights
w/sum(w), the impulsive one is D.rho.D (D); energies divided by kB*T are read in
internal units (E).  Not decided: positivity beyond diagonal non-negative
weights.
"""
import ast

from ..loader import AnalysisError, norm, walk_no_nested, call_name, parents_map, calls_in

AB = "quantarhei.builders.aggregate_base.AggregateBase."
OS = "quantarhei.builders.opensystem.OpenSystem."
KB = ("kB_intK", "kB_int")


def check(run, prog, tier):
    run.explanation = (
        "Def-use pattern rules on the two Boltzmann-weight sites (AggregateBase._thermal_population, "
        "OpenSystem.get_thermal_ReducedDensityMatrix): the argument of exp is -(E - min E)/(kB*T), "
        "the exponential is normalised by its own sum, the division by kB*T is dominated by the "
        "zero-temperature guard whose branch selects argmin E; basis-typing dataflow in "
        "get_DensityMatrix (values read under eigenbasis_of(X) may only be wrapped under "
        "eigenbasis_of(X)); who-may-call/lexical rule that thermal energies are read under "
        "energy_units('int'). Not decided: numerical positivity.")
    run.trusted_base = ["exp(-(E-min E)/kT) has at least one term equal to 1, so its sum cannot underflow to 0",
                        "numpy.diag of a real vector is a real diagonal (Hermitian) matrix"]
    run.rule("C14-A", "Boltzmann exponents are shift-invariant (relative to the minimum)", minimum=2)
    run.rule("C14-B", "zero-temperature guard dominates division by kT and selects the lowest state; states of equal lowest "
                      "energy share the population", minimum=2)
    run.rule("C14-C", "eigenbasis-typed values are wrapped inside the same basis context", minimum=2)
    run.rule("C14-D", "thermal states are diagonal with weights w/sum(w); impulsive state is D.rho.D", minimum=4)
    run.rule("C14-E", "Boltzmann exponents use internal-unit energies", minimum=4)
    sites = boltzmann_sites(prog)
    rule_A(run, prog, sites)
    rule_B(run, prog, sites)
    rule_C2(run, prog)
    rule_C(run, prog)
    rule_D(run, prog, sites)
    rule_E(run, prog, sites)
    run.rule("C14-F", "no basis protection is left on the system's Hamiltonian by the tensor builders (the thermal "
                      "builders read it inside eigenbasis_of and rely on it being transformed)", minimum=5)
    from . import c15
    from ..report import RuleProxy
    c15.rule_E4(RuleProxy(run, "C14-F"), prog)
    run.rule("C14-G", "the reorganisation energy subtracted from a state of the band is that of the molecule excited in the "
                      "state (states are vibronic, reorganisation energies belong to sites)", minimum=1)
    rule_G(run, prog)
    run.rule("C14-H", "initial states are handed out for every kind of bath the aggregate can have: none, correlation functions, "
                      "relaxation rates (what the bath does not define is asked for, not assumed)", minimum=4)
    rule_H(run, prog)
    run.rule("C14-I", "the temperature a thermal state is built with is taken from the environments that are present, never "
                      "short-cut by a summary flag that a remover clears while other environments remain", minimum=1)
    rule_I(run, prog)
    run.rule("C14-J", "the temperature of a molecule is looked up over all its environments (every transition, and the matrix "
                      "of correlation functions it may be mapped on), through attributes that exist", minimum=3)
    rule_J(run, prog)
    run.rule("C14-K", "a temperature of zero is a temperature: where `None` stands for 'take the temperature of the bath', "
                      "the parameter is tested with `is None`, never for its truth value (0 K is falsy)", minimum=3)
    rule_K(run, prog)
    run.rule("C14-L", "the eigenbasis in which thermal states are defined comes from a diagonalisation on every path (no 'already "
                      "diagonal' short cut under an absolute tolerance)", minimum=1)
    rule_L(run, prog)
    run.rule("C14-N", "'the bath defines no temperature' and 'the bath functions define different temperatures' are told apart: the "
                      "question has_temperature() does not answer 'no' by catching every failure of get_temperature() (the builders "
                      "take 'no' for zero temperature)", minimum=1)
    rule_N(run, prog)
    run.rule("C14-O", "a state whose defining basis is fixed by the request is 'the same physical state inside or outside a "
                      "basis-change context': what is handed out inside nested contexts is brought to the current basis by the "
                      "product of the stacked transformations, outer-first (shared with C04-B5)", minimum=1)
    from . import c04
    c04.rule_B5_composition(RuleProxy(run, "C14-O"), prog, "C14-O")


def rule_N(run, prog):
    """'... the thermal ones have populations in the ratio exp(-(E_a-E_b)/kT)': the T is that of the bath.  The aggregate
    asks sbi.has_temperature() and builds the T = 0 state when the answer is no.  CorrelationFunctionMatrix raises both when
    no function carries a temperature and when the functions disagree; a handler around get_temperature() that returns
    False for whatever was raised turns a bath at 300 K and 100 K into 'no temperature'.  Accepted: no such handler, or a
    separate test for disagreement that raises (outside the handler) in the same method."""
    rid = "C14-N"
    sb = prog.cls("quantarhei.qm.liouvillespace.systembathinteraction.SystemBathInteraction")
    f = prog.find_method(sb, "has_temperature")
    if f is None:
        raise AnalysisError("SystemBathInteraction.has_temperature not found")
    prog.consulted.add(f.relpath)
    swallowing = []
    for t_ in walk_no_nested(f.node):
        if isinstance(t_, ast.Try) and any(isinstance(c_, ast.Call) and (call_name(c_) or "").split(".")[-1] == "get_temperature"
                                           for b_ in t_.body for c_ in ast.walk(b_)):
            for h in t_.handlers:
                broad = h.type is None or norm(h.type) in ("Exception", "BaseException")
                answers_no = any(isinstance(r_, ast.Return) and isinstance(r_.value, ast.Constant) and r_.value.value is False
                                 for r_ in ast.walk(h))
                if broad and answers_no:
                    swallowing.append(h)
    handler_nodes = {id(x_) for h in swallowing for x_ in ast.walk(h)}
    separate = any(isinstance(x_, ast.Raise) and id(x_) not in handler_nodes for x_ in walk_no_nested(f.node))
    run.obligation(rid, f.short, (not swallowing) or separate, key="disagreement-not-swallowed",
                   message="has_temperature() returns False for every exception of get_temperature(): the matrix of correlation "
                           "functions raises also when its functions are at different temperatures, and the aggregate then builds "
                           "its thermal states for T = 0 instead of refusing", loc=f.loc(swallowing[0] if swallowing else f.node))


def rule_L(run, prog):
    """'... for all systems, energy scales': the excitonic equilibrium is the Boltzmann state in the basis that
    eigenbasis_of(H) provides, and that basis is whatever get_diagonalization_matrix() of the operator returns.  The
    eigenvectors come from the diagonalisation of the stored matrix on every path; a short cut that declares the operator
    'already diagonal' by an approximate test (allclose / isclose / is_diagonal use an absolute tolerance of 1e-8, in
    internal units of rad/fs that is 5e-5 1/cm) hands back the site basis for every aggregate whose couplings are below
    the tolerance, however small its energy gaps: far-apart, nearly degenerate molecules get a localised 'thermal' state.
    Every value returned by a get_diagonalization_matrix of the operator classes is computed from the result of an
    eigen-decomposition (eigh / eig) made in the same call."""
    rid = "C14-L"
    n = 0
    for cls in prog.all_classes():
        if not cls.qualname.startswith("quantarhei.qm.hilbertspace.") or "get_diagonalization_matrix" not in cls.methods:
            continue
        f = cls.methods["get_diagonalization_matrix"]
        prog.consulted.add(f.relpath)
        derived = set()
        for st in walk_no_nested(f.node):
            if isinstance(st, ast.Assign) and any(isinstance(c, ast.Call) and (call_name(c) or "").split(".")[-1] in ("eigh", "eig")
                                                  for c in ast.walk(st.value)):
                for t_ in st.targets:
                    for y in ast.walk(t_):
                        if isinstance(y, ast.Name):
                            derived.add(y.id)
        changed = True
        while changed:
            changed = False
            for st in walk_no_nested(f.node):
                if isinstance(st, ast.Assign) and isinstance(st.targets[0], ast.Name) and st.targets[0].id not in derived \
                        and any(isinstance(y, ast.Name) and y.id in derived for y in ast.walk(st.value)):
                    derived.add(st.targets[0].id)
                    changed = True
        rets = [r for r in walk_no_nested(f.node) if isinstance(r, ast.Return)]
        if not rets:
            raise AnalysisError("%s returns nothing" % f.short)
        for r in rets:
            n += 1
            ok = r.value is not None and any(isinstance(y, ast.Name) and y.id in derived for y in ast.walk(r.value)) or \
                (r.value is not None and any(isinstance(c, ast.Call) and (call_name(c) or "").split(".")[-1] in ("eigh", "eig")
                                             for c in ast.walk(r.value)))
            run.obligation(rid, f.short, ok, key="eigenvectors-from-a-decomposition:%d" % rets.index(r),
                           message="%s returns `%s`, which is not computed from an eigen-decomposition made in this call: a short cut "
                                   "that takes the operator for diagonal by an approximate (absolute-tolerance) test gives the site "
                                   "basis for couplings below the tolerance, whatever the energy gaps - the weak-coupling thermal "
                                   "states of such aggregates are then not excitonic equilibria"
                                   % (f.short, norm(r.value)[:60] if r.value is not None else "None"), loc=f.loc(r))
    if n < 1:
        raise AnalysisError("C14-L: no get_diagonalization_matrix found in qm.hilbertspace")


def rule_K(run, prog):
    """'... at temperature 0 K the state is the pure lowest-energy state': the builders take `temperature=None` to mean
    'not given - use the temperature of the environment'.  A truth-value test of the parameter (`if not temperature`,
    `temperature or ...`) sends an explicit 0 / 0.0 down the same path as None, so the state requested for 0 K is
    silently the state at the bath temperature.  Every function of the package with such a parameter is examined; tests
    made after the name has been re-bound (the None resolved) are zero tests and are left alone."""
    from .. import sentinel
    rid = "C14-K"
    n = 0
    for f in prog.all_functions():
        if ".tests." in f.qualname or ".wizard." in f.qualname or not hasattr(f.node, "args"):
            continue
        for p in sentinel.none_default_params(f.node, names=("temperature", "temp", "T", "Temperature")):
            n += 1
            prog.consulted.add(f.relpath)
            reb = sentinel.rebinding_lines(f.node, p)
            uses = [(u, e) for u, e in sentinel.truthiness_uses(f.node, lambda e: isinstance(e, ast.Name) and e.id == p)
                    if not any(l < e.lineno for l in reb)]
            run.obligation(rid, f.short, not uses, key="none-is-not-zero:" + p,
                           message="%s tests its parameter `%s` (default None = 'take it from the bath') for its truth value in `%s`: "
                                   "an explicit temperature of 0 K is treated as not given, and the state handed out is the one of "
                                   "the bath temperature instead of the pure lowest-energy state"
                                   % (f.short, p, norm(uses[0][0].test if hasattr(uses[0][0], "test") else uses[0][0])[:60] if uses else ""),
                           loc=f.loc(uses[0][1]) if uses else f.loc(f.node), sample={"parameter": p})
    if n < 3:
        raise AnalysisError("C14-K: only %d functions with a temperature=None parameter (4 confirmed)" % n)


def rule_G(run, prog):
    """'With and without vibrational modes': the strong-coupling state subtracts a reorganisation energy per state of
    the one-exciton band.  The band is counted in vibronic states (self.Nb[1]); the system-bath interaction is indexed
    by sites.  The index handed to get_reorganization_energy must therefore be obtained from the state through the
    state -> electronic-state table (self.elinds); the running index of the states is a site index only when every
    molecule has exactly one state in the band."""
    rid = "C14-G"
    f = prog.func("quantarhei.builders.aggregate_base.AggregateBase._get_DensityMatrix")
    prog.consulted.add(f.relpath)
    calls = [n for n in ast.walk(f.node) if isinstance(n, ast.Call) and isinstance(n.func, ast.Attribute)
             and n.func.attr == "get_reorganization_energy" and norm(n.func.value) in ("self.sbi", "sbi")]
    if not calls:
        raise AnalysisError("_get_DensityMatrix no longer looks up reorganisation energies")
    from ..loader import parents_map
    pm = parents_map(f.node)
    for c in calls:
        lp = pm.get(c)
        while lp is not None and not isinstance(lp, ast.For):
            lp = pm.get(lp)
        over_states = lp is not None and ("Nb" in norm(lp.iter) or any(
            isinstance(a, ast.Assign) and isinstance(lp.iter, ast.Call) and lp.iter.args
            and norm(a.targets[0]) == norm(lp.iter.args[-1]) and "Nb" in norm(a.value) for a in ast.walk(f.node)))
        arg = c.args[0] if c.args else None
        through_table = arg is not None and any(isinstance(x, ast.Subscript) and norm(x.value) == "self.elinds" for x in ast.walk(arg))
        ok = (not over_states) or through_table
        run.obligation(rid, "AggregateBase._get_DensityMatrix", ok, key="site-of-state:" + norm(c)[:50],
                       message="the reorganisation energy is looked up with %s inside a loop over the states of a band: that is "
                               "the running number of a vibronic state, not the index of the molecule excited in it (wrong "
                               "site, or IndexError, as soon as a molecule has vibrational levels)" % (norm(arg) if arg is not None else None),
                       loc=f.loc(c), sample={"call": norm(c), "loop": norm(lp.iter) if lp is not None else None})
    # the index handed over counts molecules from zero (elinds - 1), as the matrix of correlation functions does: the
    # getter of the system-bath interaction passes it on as it is
    from .c16 import getter_forwards
    sb = prog.cls("quantarhei.qm.liouvillespace.systembathinteraction.SystemBathInteraction")
    g = prog.find_method(sb, "get_reorganization_energy")
    if g is None:
        raise AnalysisError("SystemBathInteraction.get_reorganization_energy not found")
    prog.consulted.add(g.relpath)
    fw, bad, rebind = getter_forwards(g)
    # the two sides may agree on another convention: what counts is the sum of the offsets (elinds counts the ground
    # state as 0, the matrix of correlation functions counts molecules from 0: the sum is -1)
    first = [a.arg for a in g.node.args.args if a.arg != "self"][:1]

    def _off(e, name):
        if isinstance(e, ast.Name) and e.id == name:
            return 0
        if isinstance(e, ast.BinOp) and isinstance(e.op, (ast.Add, ast.Sub)) and isinstance(e.right, ast.Constant) \
                and isinstance(e.right.value, int):
            b_ = _off(e.left, name)
            if b_ is not None:
                return b_ + (e.right.value if isinstance(e.op, ast.Add) else -e.right.value)
        return None

    callee_off = None
    if fw and first and not rebind:
        offs = {_off(c_.args[0], first[0]) for c_ in fw if c_.args}
        callee_off = offs.pop() if len(offs) == 1 else None
    caller_offs = set()
    for c in calls:
        a0 = c.args[0] if c.args else None
        o_ = None
        if isinstance(a0, ast.Subscript) and norm(a0.value) == "self.elinds":
            o_ = 0
        elif isinstance(a0, ast.BinOp) and isinstance(a0.left, ast.Subscript) and norm(a0.left.value) == "self.elinds" \
                and isinstance(a0.op, (ast.Add, ast.Sub)) and isinstance(a0.right, ast.Constant) and isinstance(a0.right.value, int):
            o_ = a0.right.value if isinstance(a0.op, ast.Add) else -a0.right.value
        caller_offs.add(o_)
    agree = callee_off is not None and caller_offs and None not in caller_offs and all(o_ + callee_off == -1 for o_ in caller_offs)
    run.obligation(rid, "SystemBathInteraction.get_reorganization_energy", bool(fw) and (agree or (not bad and not rebind and caller_offs == {-1})),
                   key="forwards-index",
                   message="the builder asks for the reorganisation energy of molecule number elinds-1 (counted from zero, as the "
                           "matrix of correlation functions counts), and SystemBathInteraction.get_reorganization_energy does not "
                           "hand that index on unchanged: %s - the energy subtracted is the one of another molecule"
                           % (bad + rebind), loc=g.loc(), sample={"forwarding_calls": len(fw)})


def _defs(func, name, before=None):
    out = []
    for n in walk_no_nested(func.node):
        if isinstance(n, ast.Assign) and any(isinstance(t, ast.Name) and t.id == name for t in n.targets):
            if before is None or n.lineno < before:
                out.append(n)
    return sorted(out, key=lambda n: n.lineno)


def _depends_on_kb(func, expr, depth=3):
    for n in ast.walk(expr):
        if isinstance(n, ast.Name):
            if n.id in KB:
                return True
            if depth > 0:
                for d in _defs(func, n.id):
                    if _depends_on_kb(func, d.value, depth - 1):
                        return True
    return False


def boltzmann_sites(prog):
    """exp calls whose argument is -(X)/(D) with D depending on a Boltzmann constant"""
    out = []
    for q in (AB + "_thermal_population", OS + "get_thermal_ReducedDensityMatrix"):
        f = prog.func(q)
        prog.consulted.add(f.relpath)
        found = []
        for c in [n for n in walk_no_nested(f.node) if isinstance(n, ast.Call) and call_name(n) == "exp"]:
            a = c.args[0]
            neg = False
            if isinstance(a, ast.UnaryOp) and isinstance(a.op, ast.USub):
                neg, a = True, a.operand
            if isinstance(a, ast.BinOp) and isinstance(a.op, ast.Div):
                num, den = a.left, a.right
                if isinstance(num, ast.UnaryOp) and isinstance(num.op, ast.USub):
                    neg, num = True, num.operand
                if _depends_on_kb(f, den):
                    found.append({"func": f, "call": c, "num": num, "den": den, "neg": neg})
        if len(found) != 1:
            raise AnalysisError("%s: expected exactly one Boltzmann exponential, found %d" % (f.short, len(found)))
        out.append(found[0])
    return out


def _is_shifted(func, expr, before, depth=3):
    """expr is (Y - amin(Y)) / (Y - min(Y)), or a (subscripted) name defined so"""
    e = expr
    while isinstance(e, ast.Subscript):
        e = e.value
    if isinstance(e, ast.BinOp) and isinstance(e.op, ast.Sub):
        r = e.right
        if isinstance(r, ast.Call) and call_name(r) in ("amin", "min") and r.args and norm(r.args[0]) == norm(e.left):
            return True
    if isinstance(e, ast.Name) and depth > 0:
        ds = _defs(func, e.id, before)
        if ds:
            return _is_shifted(func, ds[-1].value, ds[-1].lineno + 1, depth - 1) if \
                not (isinstance(ds[-1].value, ast.BinOp) and isinstance(ds[-1].value.op, ast.Sub)
                     and isinstance(ds[-1].value.left, ast.Name) and ds[-1].value.left.id == e.id) \
                else _is_shifted(func, ds[-1].value, ds[-1].lineno, 0) or \
                (isinstance(ds[-1].value.right, ast.Call) and call_name(ds[-1].value.right) in ("amin", "min")
                 and norm(ds[-1].value.right.args[0]) == e.id)
    return False


def rule_A(run, prog, sites):
    for s in sites:
        f = s["func"]
        ok = s["neg"] and _is_shifted(f, s["num"], s["call"].lineno)
        run.obligation("C14-A", f.short, ok, key="shifted-exponent",
                       message="Boltzmann weights exp(-E/kT) normalised by their own sum use absolute energies: "
                               "below some temperature every weight underflows and the state is 0/0",
                       loc=f.loc(s["call"]), sample={"site": f.short, "exponent": norm(s["call"].args[0])})


def rule_B(run, prog, sites):
    for s in sites:
        f = s["func"]
        pm = parents_map(f.node)
        # the exp call must be in the else-branch of a zero-temperature test
        node = s["call"]
        guard = None
        while node is not None:
            par = pm.get(node)
            if isinstance(par, ast.If) and any(node is x for x in par.orelse):
                t = norm(par.test)
                if t in ("temp == 0.0", "numpy.abs(T) < 1e-10", "T == 0.0", "temp == 0"):
                    guard = par
                    break
            node = par
        run.obligation("C14-B", f.short, guard is not None, key="guard-dominates",
                       message="the division by kB*T is not dominated by the zero-temperature guard", loc=f.loc(s["call"]),
                       sample={"site": f.short, "guard": norm(guard.test) if guard is not None else None})
        if guard is None:
            continue
        # the zero-temperature branch sets exactly one unit population at the lowest state
        stores = [n for n in guard.body if isinstance(n, ast.Assign) and isinstance(n.targets[0], ast.Subscript)
                  and isinstance(n.value, ast.Constant) and n.value.value == 1.0]
        ok = len(stores) == 1
        lowest = False
        if ok:
            sub = stores[0].targets[0].slice
            elts = sub.elts if isinstance(sub, ast.Tuple) else [sub]
            ok = len(elts) == 2 and norm(elts[0]) == norm(elts[1])
            idx = elts[0]
            if isinstance(idx, ast.Constant) and idx.value == 0:
                # index 0 is the lowest state only inside an eigenbasis context (ascending eigenvalues)
                anc = []
                p = pm.get(guard)
                while p is not None:
                    anc.append(p)
                    p = pm.get(p)
                lowest = any(isinstance(a, ast.With) and any(call_name(i.context_expr) == "eigenbasis_of"
                                                             for i in a.items if isinstance(i.context_expr, ast.Call))
                             for a in anc)
            elif isinstance(idx, ast.Name):
                ds = [d for d in guard.body if isinstance(d, ast.Assign) and norm(d.targets[0]) == idx.id]
                lowest = len(ds) == 1 and any(isinstance(c, ast.Call) and call_name(c) == "argmin"
                                              for c in ast.walk(ds[0].value))
        # the other admissible form: every state at the lowest energy gets the same share (a mask from a comparison with
        # the minimum, normalised by its sum)
        mask = False
        for n_ in guard.body:
            for x_ in ast.walk(n_):
                if isinstance(x_, ast.Assign) and isinstance(x_.value, ast.Compare) and any(
                        isinstance(c_, ast.Call) and call_name(c_) in ("amin", "min") for c_ in ast.walk(x_.value)) or (
                        isinstance(x_, ast.Assign) and isinstance(x_.value, ast.Compare) and any(
                            isinstance(y_, ast.Name) and any(isinstance(d_, ast.Assign) and norm(d_.targets[0]) == y_.id and
                                                             any(isinstance(c_, ast.Call) and call_name(c_) in ("amin", "min") for c_ in ast.walk(d_.value))
                                                             for d_ in guard.body) for y_ in ast.walk(x_.value))):
                    mname = norm(x_.targets[0])
                    mask = mask or any(isinstance(z_, ast.BinOp) and isinstance(z_.op, ast.Div) and norm(z_.left) == mname
                                       and isinstance(z_.right, ast.Call) and call_name(z_.right) == "sum" and norm(z_.right.args[0]) == mname
                                       for b_ in guard.body for z_ in ast.walk(b_))
        run.obligation("C14-B", f.short, mask, key="zero-T-equal-energies",
                       message="at zero temperature %s puts all population on one state chosen by position (%s): states of the same "
                               "lowest energy have populations in the ratio exp(0) = 1 at every temperature above zero, and the T = 0 "
                               "state is not the limit of those" % (f.short, norm(stores[0])[:40] if stores else "?"), loc=f.loc(guard),
                       sample={"site": f.short})
        run.obligation("C14-B", f.short, (ok and lowest) or mask, key="zero-T-lowest-state",
                       message="at zero temperature all population must go to the state of lowest energy "
                               "(argmin, or index 0 inside an eigenbasis context); otherwise the T -> 0 limit of "
                               "the Boltzmann populations differs from the T = 0 state", loc=f.loc(guard),
                       sample={"site": f.short, "zero_T_store": norm(stores[0]) if stores else None})


def rule_C(run, prog):
    """Path-sensitive walk of the structured control flow: values read from X.data inside
    eigenbasis_of(X) are eigenbasis-typed; wrapping one into a basis-managed object outside a
    context of X is the defect."""
    rid = "C14-C"
    WRAPS = ("DensityMatrix", "ReducedDensityMatrix", "Operator")
    for q in (AB + "_get_DensityMatrix", OS + "get_thermal_ReducedDensityMatrix"):
        f = prog.func(q)
        reports = {}
        seen_wrap = [0]
        npaths = [0]

        def expr_taint(e, taint, ctx):
            src = None
            for x in ast.walk(e):
                if isinstance(x, ast.Attribute) and x.attr in ("data", "_data") and norm(x.value) in ctx:
                    src = norm(x.value)
                elif isinstance(x, (ast.Name, ast.Attribute)) and norm(x) in taint:
                    src = taint[norm(x)]
            return src

        def check_calls(node, taint, ctx):
            for c in [x for x in ast.walk(node) if isinstance(x, ast.Call) and call_name(x) in WRAPS]:
                for k in c.keywords:
                    if k.arg == "data":
                        src = expr_taint(k.value, taint, ())
                        if src is not None:
                            seen_wrap[0] += 1
                            key = norm(c)[:50]
                            ok = src in ctx
                            reports.setdefault(key, [c, src, True])
                            reports[key][2] = reports[key][2] and ok

        def walk(stmts, taint, ctx):
            """returns list of taint dicts of paths that fall through"""
            states = [dict(taint)]
            for st in stmts:
                nxt = []
                for tn in states:
                    npaths[0] += 1
                    if npaths[0] > 20000:
                        raise AnalysisError("%s: too many paths" % f.short)
                    if isinstance(st, (ast.Return, ast.Raise)):
                        check_calls(st, tn, ctx)
                        continue
                    if isinstance(st, ast.If):
                        check_calls(st.test, tn, ctx)
                        nxt += walk(st.body, tn, ctx)
                        nxt += walk(st.orelse, tn, ctx)
                        continue
                    if isinstance(st, ast.With):
                        ops = [norm(i.context_expr.args[0]) for i in st.items
                               if isinstance(i.context_expr, ast.Call) and call_name(i.context_expr) == "eigenbasis_of"
                               and i.context_expr.args]
                        nxt += walk(st.body, tn, tuple(ctx) + tuple(ops))
                        continue
                    if isinstance(st, (ast.For, ast.While)):
                        once = walk(st.body, tn, ctx)
                        nxt += once + [dict(tn)]
                        continue
                    if isinstance(st, ast.Try):
                        nxt += walk(st.body + st.orelse + st.finalbody, tn, ctx)
                        for h in st.handlers:
                            nxt += walk(h.body + st.finalbody, tn, ctx)
                        continue
                    check_calls(st, tn, ctx)
                    if isinstance(st, (ast.Assign, ast.AugAssign)):
                        tg = st.targets[0] if isinstance(st, ast.Assign) else st.target
                        b_ = tg
                        sub = False
                        while isinstance(b_, ast.Subscript):
                            b_ = b_.value
                            sub = True
                        if isinstance(b_, (ast.Name, ast.Attribute)):
                            src = expr_taint(st.value, tn, ctx)
                            tn = dict(tn)
                            if src is not None:
                                tn[norm(b_)] = src
                            elif not sub and isinstance(st, ast.Assign):
                                tn.pop(norm(b_), None)      # strong update
                    nxt.append(tn)
                # merge identical states
                uniq = {}
                for tn in nxt:
                    uniq[tuple(sorted(tn.items()))] = tn
                states = list(uniq.values())
                if not states:
                    break
            return states
        walk(f.node.body, {}, ())
        if seen_wrap[0] == 0:
            if any(x.rule == rid and x.key.startswith("defining-basis:") and "strong" not in x.key for x in run.findings):
                continue     # already reported: the weak-coupling form no longer reads inside its context
            raise AnalysisError("%s: no eigenbasis-typed value reaches a density-matrix constructor" % f.short)
        for key, (c, src, ok) in sorted(reports.items()):
            run.obligation(rid, f.short, ok, key="wrap:" + key,
                           message="on some path a value computed from %s.data inside eigenbasis_of(%s) is wrapped "
                                   "into a basis-managed object outside that context: eigenbasis populations would be "
                                   "labelled as populations of the current basis" % (src, src), loc=f.loc(c),
                           sample={"function": f.short, "wrap": norm(c), "source_operator": src})


def rule_C2(run, prog):
    """Defining basis of the thermal excited states.  The populations are Boltzmann weights of the
    diagonal elements of a Hamiltonian matrix handed to _thermal_population.  Read through the
    basis-managed .data outside any basis context, that matrix is in whatever basis the *caller* has
    active: the weak-coupling form fixes its basis by reading inside eigenbasis_of(Ham); a form that
    reads it unprotected returns a different physical state inside a basis-change context."""
    from ..loader import parents_map
    rid = "C14-C"
    f = prog.func(AB + "_get_DensityMatrix")
    pm = parents_map(f.node)
    calls = [c for c in ast.walk(f.node) if isinstance(c, ast.Call) and call_name(c) == "_thermal_population"]
    if len(calls) < 3:
        raise AnalysisError("_get_DensityMatrix: %d calls of _thermal_population (3 confirmed)" % len(calls))

    def ancestors(n):
        out = []
        while n in pm:
            n = pm[n]
            out.append(n)
        return out

    def in_ctx(n):
        return any(isinstance(a, ast.With) and any(isinstance(i.context_expr, ast.Call) and
                                                   call_name(i.context_expr) == "eigenbasis_of" for i in a.items)
                   for a in ancestors(n))
    for c in calls:
        hv = [k.value for k in c.keywords if k.arg == "relaxation_hamiltonian"]
        if not hv:
            raise AnalysisError("_thermal_population called without relaxation_hamiltonian=")
        # branch label: innermost enclosing tests on the request
        label = []
        chain = [c] + ancestors(c)
        for child, a in zip(chain, chain[1:]):
            if isinstance(a, ast.If) and any(child is x for x in a.body):
                t = norm(a.test)
                if "condition_type ==" in t or "relaxation_theory_limit ==" in t:
                    label.append(t.split("==")[1].strip().strip("'\""))
        label = "/".join(reversed(label)) or "?"
        # where is the matrix read from a managed .data?
        reads = []
        v = hv[0]
        if isinstance(v, ast.Attribute) and v.attr == "data":
            reads.append(v)
        elif isinstance(v, ast.Name):
            same_branch = [n for n in ast.walk(f.node) if isinstance(n, ast.Assign)
                           and any(isinstance(t_, ast.Name) and t_.id == v.id for t_ in n.targets)
                           and isinstance(n.value, ast.Attribute) and n.value.attr == "data"
                           and n.lineno < c.lineno]
            # the closest preceding binding inside the same request branch
            arms = [a for child, a in zip(chain, chain[1:]) if isinstance(a, ast.If) and any(child is x for x in a.body)]
            if arms:
                inner = set(id(x) for st_ in arms[0].body for x in ast.walk(st_))
                same_branch = [n for n in same_branch if id(n) in inner]
            if same_branch:
                reads.append(same_branch[-1].value)
        if not reads:
            raise AnalysisError("_get_DensityMatrix[%s]: cannot find where the Hamiltonian matrix is read" % label)
        protected = all(in_ctx(r) for r in reads)
        accepted = None
        if not protected and label.startswith("thermal") and "excited" not in label:
            accepted = "the ground-state band is decoupled from the excited bands, its block of H is the same in " \
                       "the site and the exciton representation"
        run.obligation(rid, "AggregateBase._get_DensityMatrix", protected or accepted is not None,
                       key="defining-basis:" + label,
                       message="the '%s' state takes its energies from %s read outside any basis context: inside a "
                               "basis-change context of the caller the populations are those of that basis, not of the "
                               "basis the request defines" % (label, norm(reads[0])),
                       loc=f.loc(c), sample={"request": label, "read": norm(reads[0]), "protected": protected,
                                             "accepted_because": accepted})


def rule_D(run, prog, sites):
    rid = "C14-D"
    f = prog.func(AB + "_thermal_population")
    st = [norm(s) for s in ast.walk(f.node) if isinstance(s, ast.stmt)]
    ok = "sne = numpy.sum(ne)" in st and "rho0_diag = ne / sne" in st and \
        "rho0[start:, start:] = numpy.diag(rho0_diag)" in st
    run.obligation(rid, f.short, ok, key="weights",
                   message="thermal populations must be w/sum(w) on the diagonal of the excited block", loc=f.loc(),
                   sample={"statements": [s for s in st if "ne" in s][:5]})
    ok = any(s.startswith("rho0 = numpy.zeros((dim, dim)") for s in st) and "return rho0" in st
    run.obligation(rid, f.short, ok, key="fresh-zero-matrix",
                   message="the state must be built in a fresh zero matrix", loc=f.loc())
    ok = any(s.startswith("ens[i - start] = numpy.real(HH[i, i] - subtract[i - start])") for s in st)
    run.obligation(rid, f.short, ok, key="real-energies",
                   message="energies must be the real diagonal elements minus the subtracted reorganisation energies",
                   loc=f.loc())
    g = prog.func(OS + "get_thermal_ReducedDensityMatrix")
    st = [norm(s) for s in ast.walk(g.node) if isinstance(s, ast.stmt)]
    ok = "dsum += dat[n, n]" in st and "dat *= 1.0 / dsum" in st and "dsum = 0.0" in st
    run.obligation(rid, g.short, ok, key="weights",
                   message="molecular thermal state must be normalised by the sum of its own weights", loc=g.loc())
    h = prog.func(AB + "_impulsive_population")
    st = [norm(s) for s in ast.walk(h.node) if isinstance(s, ast.stmt)]
    dots = [s for s in st if "numpy.dot" in s and "rho0" in s]
    ok = any("numpy.dot(dabs, numpy.dot(rho0, dabs))" in s or "numpy.dot(DD, numpy.dot(rho0, DD))" in s
             or "numpy.dot(dip, numpy.dot(rho0, dip))" in s for s in dots)
    run.obligation(rid, h.short, ok, key="sandwich",
                   message="impulsive excitation must be D.rho.D with the same symmetric D on both sides", loc=h.loc(),
                   sample={"products": dots[:3]})


def rule_E(run, prog, sites):
    rid = "C14-E"
    # _thermal_population is only called from _get_DensityMatrix; that one only from get_DensityMatrix under int units
    tp = prog.func(AB + "_thermal_population")
    callers = []
    for f in prog.all_functions():
        for c in calls_in(f.node):
            if call_name(c) == "_thermal_population":
                callers.append((f, c))
    ok = bool(callers) and all(f.short == "AggregateBase._get_DensityMatrix" for f, _ in callers)
    run.obligation(rid, "AggregateBase._thermal_population", ok, key="callers",
                   message="_thermal_population divides energies by kB_intK*T and must only be called from the "
                           "internal-units implementation _get_DensityMatrix; callers: %s" % sorted({f.short for f, _ in callers}),
                   loc=tp.loc(), sample={"callers": sorted({f.short for f, _ in callers})})
    callers = []
    for f in prog.all_functions():
        pm = None
        for c in calls_in(f.node):
            if call_name(c) == "_get_DensityMatrix":
                if pm is None:
                    pm = parents_map(f.node)
                inside = False
                p = pm.get(c)
                while p is not None:
                    if isinstance(p, ast.With) and any(norm(i.context_expr) == "energy_units('int')" for i in p.items):
                        inside = True
                    p = pm.get(p)
                callers.append((f.short, inside))
    ok = bool(callers) and all(i for _, i in callers)
    run.obligation(rid, "AggregateBase._get_DensityMatrix", ok, key="internal-units",
                   message="energies that are divided by kB_intK*T must be read in internal units: every call of "
                           "_get_DensityMatrix must be inside 'with energy_units(\"int\")' (callers: %s)" % callers,
                   loc=prog.func(AB + "_get_DensityMatrix").loc(), sample={"callers": callers})
    gd = prog.func(AB + "get_DensityMatrix")
    body = [s for s in gd.node.body if not (isinstance(s, ast.Expr) and isinstance(s.value, ast.Constant))]
    ok = len(body) == 1 and isinstance(body[0], ast.With) and len(body[0].body) == 1 and isinstance(body[0].body[0], ast.Return)
    if ok:
        call = body[0].body[0].value
        params = [a.arg for a in gd.node.args.args if a.arg != "self"]
        ok = isinstance(call, ast.Call) and {k.arg: norm(k.value) for k in call.keywords} == {p: p for p in params}
    run.obligation(rid, "AggregateBase.get_DensityMatrix", ok, key="delegation",
                   message="get_DensityMatrix must forward all its arguments unchanged to the internal-units "
                           "implementation", loc=gd.loc())
    # molecular site: the energies entering the exponent are read under internal units
    s = sites[1]
    f = s["func"]
    pm = parents_map(f.node)
    num = s["num"]
    base = num
    while isinstance(base, ast.Subscript):
        base = base.value
    ok = False
    if isinstance(base, ast.Name):
        ds = _defs(f, base.id, s["call"].lineno)
        # walk back to the definition that reads H.data
        seen = set()
        work = list(ds)
        while work:
            d = work.pop()
            if id(d) in seen:
                continue
            seen.add(id(d))
            if any(isinstance(x, ast.Attribute) and x.attr == "data" for x in ast.walk(d.value)):
                inside = False
                p = pm.get(d)
                while p is not None:
                    if isinstance(p, ast.With) and any(norm(i.context_expr) == "energy_units('int')" for i in p.items):
                        inside = True
                    p = pm.get(p)
                ok = inside
            for x in ast.walk(d.value):
                if isinstance(x, ast.Name) and x.id != base.id:
                    work += _defs(f, x.id, d.lineno)
    run.obligation(rid, f.short, ok, key="internal-units",
                   message="the energies divided by kB_intK*T must be read from H.data under energy_units('int')",
                   loc=f.loc(s["call"]), sample={"site": f.short})
    # kB constant in use is the internal-units one
    for s in sites:
        names = {n.id for n in ast.walk(s["den"]) if isinstance(n, ast.Name)}
        kb = [n for n in names if n in KB] or [n for n in names if _depends_on_kb(s["func"], ast.Name(id=n, ctx=ast.Load()))]
        run.obligation(rid, s["func"].short, bool(kb), key="kB-internal",
                       message="temperature must be converted with the internal-units Boltzmann constant", loc=s["func"].loc(s["call"]),
                       sample={"site": s["func"].short, "denominator": norm(s["den"])})


def rule_H(run, prog):
    """'Every density matrix the builders hand out as an initial condition is finite ...' - for every system, whatever bath
    it has.  An aggregate may have no system-bath interaction (self.sbi is None), one given by correlation functions, or
    one given by relaxation rates (Lindblad form), for which SystemBathInteraction has no correlation functions (CC is
    None), has_temperature() is False and get_reorganization_energy() / get_correlation_time() return None.
    (i) In the methods that produce or parametrise the initial states, self.sbi is dereferenced only where it is known
    not to be None.  (ii) The temperature of the bath is read only through self.sbi.get_temperature() on the branch where
    self.sbi.has_temperature() holds - never from self.sbi.CC directly.  (iii) The value of an accessor of the interaction
    that can return None is bound to a name which is compared with None before it is used."""
    from .c08 import _unguarded_derefs
    from ..loader import parents_map
    rid = "C14-H"
    cls = prog.cls("quantarhei.builders.aggregate_base.AggregateBase")
    sbi = prog.cls("quantarhei.qm.liouvillespace.systembathinteraction.SystemBathInteraction")
    may_none = {nme for nme, fn in sbi.methods.items()
                if any(isinstance(r, ast.Return) and isinstance(r.value, ast.Constant) and r.value.value is None for r in ast.walk(fn.node))}
    if "get_reorganization_energy" not in may_none:
        raise AnalysisError("SystemBathInteraction.get_reorganization_energy no longer has a 'return None' path")
    for nme in ("get_temperature", "_get_DensityMatrix"):
        fn = cls.methods[nme]
        prog.consulted.add(fn.relpath)
        pm = parents_map(fn.node)
        d = _unguarded_derefs(fn, {"sbi"})
        run.obligation(rid, fn.short, not d, key="bath-may-be-absent",
                       message="%s dereferences self.sbi (%s) where it may be None: an aggregate without a bath cannot be given its "
                               "initial state" % (fn.short, norm(list(d.values())[0]) if d else ""),
                       loc=fn.loc(list(d.values())[0]) if d else fn.loc(fn.node))
        # (ii)
        direct = [x for x in ast.walk(fn.node) if isinstance(x, ast.Attribute) and x.attr == "CC" and norm(x.value) == "self.sbi"]
        reads = [x for x in ast.walk(fn.node) if isinstance(x, ast.Call) and norm(x.func) == "self.sbi.get_temperature"]
        ok = not direct
        for c in reads:
            g, node = False, c
            while node is not None and node is not fn.node:
                p_ = pm.get(node)
                if isinstance(p_, ast.If) and norm(p_.test) == "self.sbi.has_temperature()" and any(node is b for b in p_.body):
                    g = True
                for fld in ("body", "orelse"):
                    blk = getattr(p_, fld, None)
                    if isinstance(blk, list) and node in blk:
                        for prev in blk[:blk.index(node)]:
                            if isinstance(prev, ast.If) and norm(prev.test) == "not self.sbi.has_temperature()" \
                                    and isinstance(prev.body[-1], (ast.Return, ast.Raise)):
                                g = True
                node = p_
            ok = ok and g
        run.obligation(rid, fn.short, ok and bool(reads), key="temperature-asked-for",
                       message="%s reads the temperature of the bath %s: a bath given by relaxation rates has no correlation functions "
                               "(CC is None) and no temperature, the call raises AttributeError and the thermal and delta-excited "
                               "states cannot be handed out" % (fn.short, "from self.sbi.CC directly" if direct else
                                                                "outside the branch where self.sbi.has_temperature() holds"),
                       loc=fn.loc((direct or reads or [fn.node])[0]))
        # (iii)
        for c in [x for x in ast.walk(fn.node) if isinstance(x, ast.Call) and isinstance(x.func, ast.Attribute)
                  and norm(x.func.value) == "self.sbi" and x.func.attr in may_none and x.func.attr != "get_temperature"]:
            p_ = pm.get(c)
            name = p_.targets[0].id if isinstance(p_, ast.Assign) and len(p_.targets) == 1 and isinstance(p_.targets[0], ast.Name) else None
            tested = name is not None and any(isinstance(t_, ast.Compare) and norm(t_.left) == name and isinstance(t_.ops[0], (ast.Is, ast.IsNot))
                                              and isinstance(t_.comparators[0], ast.Constant) and t_.comparators[0].value is None
                                              for t_ in ast.walk(fn.node))
            run.obligation(rid, fn.short, tested, key="may-be-None:" + c.func.attr,
                           message="%s uses the value of self.sbi.%s(...) without comparing it with None: for a bath given by relaxation "
                                   "rates the accessor returns None, which ends up in an array of energies" % (fn.short, c.func.attr),
                           loc=fn.loc(c))


def rule_I(run, prog):
    """'Populations in the ratio exp(-(E_a-E_b)/kT)' at the temperature of the system's bath.  A Molecule keeps per-transition
    tables (self.egcf[...], self._has_egcf[...]) and a summary flag that is set to True whenever an entry is stored.  A
    summary flag that some method sets to False unconditionally while it clears ONE entry of the table (so other entries
    may remain) does not mean 'no entry' when it is False.  get_temperature (and everything the thermal state is built
    from) must therefore not return a value on `not self.<flag>`: it has to look at the entries."""
    from ..loader import parents_map
    rid = "C14-I"
    cls = prog.cls("quantarhei.builders.molecules.Molecule")
    # summary flags: constant True stored in a method that also stores a table element; constant False stored at the top
    # level of a method that clears one table element
    setters, clearers = {}, {}
    for nme, fn in cls.methods.items():
        elem_store = [st for st in walk_no_nested(fn.node) if isinstance(st, ast.Assign) and isinstance(st.targets[0], ast.Subscript)
                      and isinstance(st.targets[0].value, ast.Attribute) and norm(st.targets[0].value.value) == "self"]
        if not elem_store:
            continue
        for st in walk_no_nested(fn.node):
            if isinstance(st, ast.Assign) and isinstance(st.targets[0], ast.Attribute) and norm(st.targets[0].value) == "self" \
                    and isinstance(st.value, ast.Constant) and isinstance(st.value.value, bool):
                (setters if st.value.value else clearers).setdefault(st.targets[0].attr, []).append((fn, st))
    unsound = {}
    for flag, cl in clearers.items():
        if flag not in setters:
            continue
        for fn, st in cl:
            if fn.name == "__init__":
                continue
            top = st in fn.node.body
            clears_one = any(isinstance(x, ast.Assign) and isinstance(x.targets[0], ast.Subscript)
                             and isinstance(x.value, ast.Constant) and x.value.value in (None, False)
                             for x in walk_no_nested(fn.node))
            if top and clears_one:
                unsound[flag] = fn
    f = cls.methods["get_temperature"]
    prog.consulted.add(f.relpath)
    reach = [f] + [cls.methods[c.func.attr] for c in walk_no_nested(f.node) if isinstance(c, ast.Call) and isinstance(c.func, ast.Attribute)
                   and norm(c.func.value) == "self" and c.func.attr in cls.methods]
    bad = None
    for g in reach:
        for st in walk_no_nested(g.node):
            if isinstance(st, ast.If) and isinstance(st.test, ast.UnaryOp) and isinstance(st.test.op, ast.Not):
                a = st.test.operand
                if isinstance(a, ast.Attribute) and norm(a.value) == "self" and a.attr in unsound and any(
                        isinstance(x, ast.Return) and x.value is not None for x in st.body):
                    bad = (g, st, a.attr)
    run.obligation(rid, "Molecule.get_temperature", bad is None, key="temperature-from-the-entries",
                   message="%s returns a value when self.%s is False; %s sets that flag to False while it clears one entry of the "
                           "per-transition tables, so the flag can be False although other transitions still carry a bath: the "
                           "thermal state then is the T = 0 state of a molecule coupled to a finite-temperature bath"
                           % (bad[0].short if bad else "", bad[2] if bad else "", unsound[bad[2]].short if bad else ""),
                   loc=bad[0].loc(bad[1]) if bad else f.loc(f.node), sample={"unsound_summary_flags": sorted(unsound)})
    if not unsound:
        raise AnalysisError("Molecule: no summary flag cleared next to a single table entry found (1 confirmed: _has_system_bath_coupling)")


def rule_J(run, prog):
    """'Populations in the ratio exp(-(E_a-E_b)/kT)' at the temperature of the bath the molecule is coupled to - on any of
    its transitions, given directly or through a CorrelationFunctionMatrix.  (i) Molecule.get_temperature does not
    single out one transition: it asks no environment by a constant transition, it runs over self.egcf (and looks at the
    matrix when the molecule is mapped on one).  (ii) What the molecule reads from self.egcf_matrix exists in
    CorrelationFunctionMatrix - a misspelt attribute raises AttributeError, which get_temperature's callers swallow."""
    rid = "C14-J"
    mol = prog.cls("quantarhei.builders.molecules.Molecule")
    f = mol.methods["get_temperature"]
    prog.consulted.add(f.relpath)
    const_tr = [c for c in walk_no_nested(f.node) if isinstance(c, ast.Call) and call_name(c) == "get_transition_environment"
                and c.args and isinstance(c.args[0], (ast.List, ast.Tuple)) and all(isinstance(e, ast.Constant) for e in c.args[0].elts)]
    over_all = any(isinstance(x, ast.For) and norm(x.iter) == "self.egcf" for x in walk_no_nested(f.node))
    matrix = any(isinstance(x, ast.Attribute) and norm(x) == "self.egcf_matrix" for x in walk_no_nested(f.node))
    run.obligation(rid, "Molecule.get_temperature", not const_tr and over_all, key="all-transitions",
                   message="Molecule.get_temperature takes the temperature from the environment of one fixed transition (%s): with the "
                           "bath on another transition it reports 0 K and the thermal state is the ground state"
                           % (norm(const_tr[0]) if const_tr else "no loop over self.egcf"), loc=f.loc(const_tr[0] if const_tr else f.node))
    run.obligation(rid, "Molecule.get_temperature", matrix, key="mapped-environments",
                   message="Molecule.get_temperature does not look at the matrix of correlation functions the molecule may be mapped on "
                           "(set_egcf_mapping): such a molecule reports 0 K", loc=f.loc(f.node))
    cfm = prog.cls("quantarhei.qm.corfunctions.cfmatrix.CorrelationFunctionMatrix")
    names = set(cfm.methods) | set(cfm.attrs)
    for fn in cfm.methods.values():
        for x in ast.walk(fn.node):
            if isinstance(x, ast.Attribute) and norm(x.value) == "self" and isinstance(x.ctx, ast.Store):
                names.add(x.attr)
    n = 0
    for fn in mol.methods.values():
        for x in walk_no_nested(fn.node):
            if isinstance(x, ast.Attribute) and norm(x.value) == "self.egcf_matrix" and isinstance(x.ctx, ast.Load):
                n += 1
                prog.consulted.add(fn.relpath)
                run.obligation(rid, fn.short, x.attr in names, key="matrix-api:" + x.attr,
                               message="%s reads self.egcf_matrix.%s; CorrelationFunctionMatrix has no such attribute: the environment "
                                       "of a mapped molecule cannot be read (AttributeError)" % (fn.short, x.attr), loc=fn.loc(x))
    if n < 2:
        raise AnalysisError("only %d uses of self.egcf_matrix in Molecule (2 confirmed)" % n)
