"""C01 - relaxation generators preserve trace and Hermiticity.

Decided statically: the element formulas produced by the assembling code of
every tensor class of the property's list satisfy sum_a R[a,a,c,d] = 0 and
conj(R[a,b,c,d]) = R[b,a,d,c] as polynomial identities (TA), for every
dimension and every input; the secular masks keep exactly the two element
families (finite evaluation over the 15 equality patterns of four indices);
every theory wired into OpenSystem.get_RelaxationTensor has an obligation.
"""
import ast
import itertools

from ..loader import AnalysisError, norm, calls_in, walk_no_nested, call_name
from ..ta import Expr, Array, Facts, normal, show_normal
from ..ta_front import Index, Interp, Obj
from . import tensors
from .tensors import LS

RED = LS + "redfieldtensor.RedfieldRelaxationTensor"
TDRED = LS + "tdredfieldtensor.TDRedfieldRelaxationTensor"
LIND = LS + "lindbladform.LindbladForm"
FOER = LS + "foerstertensor.FoersterRelaxationTensor"
TDFOER = LS + "tdfoerstertensor.TDFoersterRelaxationTensor"
RF = LS + "redfieldfoerster.RedfieldFoersterRelaxationTensor"
TDRF = LS + "tdredfieldfoerster.TDRedfieldFoersterRelaxationTensor"

# classes of the property's list and the rule that discharges each
COVERED = {
    "RedfieldRelaxationTensor": "C01-A", "TDRedfieldRelaxationTensor": "C01-A",
    "LindbladForm": "C01-A", "FoersterRelaxationTensor": "C01-B",
    "TDFoersterRelaxationTensor": "C01-B",
    "RedfieldFoersterRelaxationTensor": "C01-A",
    "TDRedfieldFoersterRelaxationTensor": "C01-A",
}
# classes get_RelaxationTensor may instantiate that are NOT in the property's
# list (stated in the property: standard and TD Redfield, Lindblad, Foerster,
# combined) - one line of reason each
OUT_OF_SCOPE = {
    "ModRedfieldRelaxationTensor": "modified Redfield is not in the property's list",
    "TDModRedfieldRelaxationTensor": "modified Redfield is not in the property's list",
    "NEFoersterRelaxationTensor": "non-equilibrium Foerster is not in the property's list",
}


def check(run, prog, tier):
    run.explanation = (
        "Index-algebra (TA) abstract interpretation of the tensor-assembling code in /repo: "
        "each assembler is interpreted once into a sum of index monomials over its opaque "
        "inputs, and the trace / Hermiticity identities are decided by normal-form "
        "comparison for all dimensions and all inputs. Secular masks are evaluated "
        "exhaustively on the 15 equality patterns of four indices. The check decides the "
        "algebraic structure of the assembled generator, not rounding or the values of rates.")
    run.trusted_base = [
        "semantics of numpy.dot/transpose/conj/trace/zeros and of Python loops/subscripts as "
        "modelled in qv/ta_front.py",
        "loops over range(N) cover the whole axis they index",
        "uninterpretable statements only modify arrays they name as store targets, call "
        "arguments or call receivers (havoc rule of the lenient interpreter)",
    ]
    a = run.rule("C01-A", "assembled Redfield/Lindblad/combined tensors: trace and Hermiticity "
                          "identities (TA)", minimum=10)
    b = run.rule("C01-B", "rate-only (Foerster) tensors completed by updateStructure and "
                          "add_dephasing: identities on the end-to-end formula (TA)", minimum=4)
    c = run.rule("C01-C", "secular masks keep exactly R[a,a,b,b] and R[a,b,a,b] "
                          "(exhaustive over 15 equality patterns)", minimum=5)
    d = run.rule("C01-D", "every theory wired into get_RelaxationTensor has an obligation; attributes read "
                          "by the constructors exist", minimum=7)
    # the structural rules run first: what they report stands when a later index-algebra rule cannot interpret a
    # changed construct
    run.rule("C01-E", "secularization is available in the operator form too: every secularize implementation converts to the "
                      "tensor form before it looks at the data (none refuses, none reads data that do not exist yet)", minimum=3)
    rule_E(run, prog)
    run.rule("C01-F", "a tensor assembled from parts that can be cut off in time does not assume the parts to have its own "
                      "number of time points", minimum=1)
    rule_F(run, prog)
    run.rule("C01-G", "a tensor that is completed incrementally (updateStructure subtracts from what is stored) is calculated from "
                      "freshly zeroed data on every calculation", minimum=4)
    rule_G(run, prog)
    run.rule("C01-H", "a Lindblad form may have no system-bath interaction: the methods it inherits do not dereference "
                      "self.SystemBathInteraction where it can be None", minimum=3)
    rule_H(run, prog)
    run.rule("C01-I", "'secularized' is a statement about the data in force: whoever recalculates the tensor clears the mark, so "
                      "that a later secularize() acts on the new data (stored-result analysis, switch form)", minimum=2)
    rule_I(run, prog)
    run.rule("C01-J", "the non-secular non-equilibrium Foerster tensor preserves trace and Hermiticity (index algebra on the reference "
                      "routine with opaque integrals)", minimum=2)
    rule_J(run, prog)
    run.rule("C01-K", "RelaxationTensor.updateStructure() leaves every population column with zero sum whatever stood on the diagonal "
                      "before (it 'recalculates' the depopulation rates: calling it twice is calling it once)", minimum=2)
    rule_K(run, prog)
    rule_A(run, prog)
    rule_B(run, prog)
    rule_C(run, prog)
    rule_D(run, prog)


def rule_K(run, prog):
    """'sum_a R[a,a,c,d] = 0': for the population columns the Foerster-type tensors get it from updateStructure(), a public
    method.  With T0 = sum_i R[i,i,n,n] (the trace, diagonal element included) and d0 = R[n,n,n,n] on entry, the statements
    of the depopulation loop are interpreted in order on the diagonal element d (a linear form in T0 and d0; a trace taken
    after a store to the diagonal sees the new element: trace = T0 - d0 + d).  The column sum after the loop body is
    T0 - d0 + d; it vanishes for every incoming tensor iff d = d0 - T0.  (`d -= T - d` leaves the sum d0: zero only on a
    fresh tensor, doubled rates on a second call.)"""
    rid = "C01-K"
    f = prog.func("quantarhei.qm.liouvillespace.relaxationtensor.RelaxationTensor.updateStructure")
    prog.consulted.add(f.relpath)

    def is_diag(e):
        if isinstance(e, ast.Subscript) and norm(e.value) in ("self._data", "self.data"):
            sl = e.slice.elts if isinstance(e.slice, ast.Tuple) else [e.slice]
            names = [norm(x) for x in sl if not isinstance(x, ast.Slice)]
            return len(names) == 4 and len(set(names)) == 1
        return False

    def lin(e, d):
        """value of e as (coefficient of T0, coefficient of d0, constant); None when outside the vocabulary"""
        if isinstance(e, ast.Constant) and isinstance(e.value, (int, float)):
            return (0.0, 0.0, float(e.value))
        if isinstance(e, ast.Call) and (call_name(e) or "").split(".")[-1] == "trace":
            return (1.0 + d[0], -1.0 + d[1], d[2])
        if is_diag(e):
            return d
        if isinstance(e, ast.UnaryOp) and isinstance(e.op, ast.USub):
            a_ = lin(e.operand, d)
            return None if a_ is None else (-a_[0], -a_[1], -a_[2])
        if isinstance(e, ast.BinOp) and isinstance(e.op, (ast.Add, ast.Sub)):
            a_, b_ = lin(e.left, d), lin(e.right, d)
            if a_ is None or b_ is None:
                return None
            sg = 1.0 if isinstance(e.op, ast.Add) else -1.0
            return (a_[0] + sg * b_[0], a_[1] + sg * b_[1], a_[2] + sg * b_[2])
        if isinstance(e, ast.BinOp) and isinstance(e.op, (ast.Mult, ast.Div)):
            a_, b_ = lin(e.left, d), lin(e.right, d)
            if a_ is None or b_ is None:
                return None
            if b_[0] == 0.0 and b_[1] == 0.0 and (isinstance(e.op, ast.Mult) or b_[2] != 0.0):
                k_ = b_[2] if isinstance(e.op, ast.Mult) else 1.0 / b_[2]
                return (a_[0] * k_, a_[1] * k_, a_[2] * k_)
            if isinstance(e.op, ast.Mult) and a_[0] == 0.0 and a_[1] == 0.0:
                return (b_[0] * a_[2], b_[1] * a_[2], b_[2] * a_[2])
            return None
        return None

    n = 0
    for loop in walk_no_nested(f.node):
        if not isinstance(loop, ast.For):
            continue
        stores = [st for st in loop.body if isinstance(st, (ast.Assign, ast.AugAssign))
                  and is_diag(st.targets[0] if isinstance(st, ast.Assign) else st.target)]
        if not stores or not any(isinstance(c_, ast.Call) and (call_name(c_) or "").split(".")[-1] == "trace"
                                 for st in stores for c_ in ast.walk(st)):
            continue            # not the depopulation loop
        n += 1
        d = (0.0, 1.0, 0.0)
        for st in stores:
            v = lin(st.value, d)
            if v is None:
                d = None
                break
            if isinstance(st, ast.AugAssign):
                sg = 1.0 if isinstance(st.op, ast.Add) else (-1.0 if isinstance(st.op, ast.Sub) else None)
                if sg is None:
                    d = None
                    break
                d = (d[0] + sg * v[0], d[1] + sg * v[1], d[2] + sg * v[2])
            else:
                d = v
        if d is None:
            raise AnalysisError("C01-K: a statement of the depopulation loop of updateStructure is outside the vocabulary of the "
                                "rule (trace, diagonal element, constants, + - * /): %s" % [norm(st)[:60] for st in stores])
        ok = abs(d[0] + 1.0) < 1e-12 and abs(d[1] - 1.0) < 1e-12 and abs(d[2]) < 1e-12
        run.obligation(rid, f.short, ok, key="column-sum:%d" % n,
                       message="updateStructure leaves the diagonal at %s (T the trace of the column block on entry, d its diagonal "
                               "element): the column sums to zero afterwards only for d - T; as written the sum is left at %s - zero "
                               "on a freshly filled tensor only, and a second call doubles the depopulation rates"
                               % ("%g*T + %g*d + %g" % d if d else "an expression outside T and d",
                                  "%g*T + %g*d + %g" % (1.0 + d[0], d[1] - 1.0, d[2]) if d else "?"),
                       loc=f.loc(stores[-1]))
    if n < 2:
        raise AnalysisError("C01-K: only %d depopulation loops found in updateStructure (rank 4 and rank 5 confirmed)" % n)


def rule_J(run, prog):
    """The non-equilibrium Foerster tensor with all non-secular terms (_nsc_reference_implementation, also behind the kernel
    form) is assembled from the resonance couplings J and the integrals F[a,b,c,d] handed in as a function.  The routine is
    interpreted by the index algebra with J real and symmetric and F opaque: sum_a R[t,a,a,c,d] = 0 and
    conj(R[t,a,b,c,d]) = R[t,b,a,d,c] must be polynomial identities in J and F.  The trace identity rests on the
    cancellation of the 'operator part' RR[d,c] = -sum_e J[d,e] J[e,c] F[e,e,c,d] against the gain terms - with the last
    two indices of F exchanged it fails on every coherence column as soon as one site is coupled to two others."""
    rid = "C01-J"
    f = prog.func(LS + "nefoerstertensor._nsc_reference_implementation")
    prog.consulted.add(f.relpath)
    F = Array.opaque("F", 4)

    def hook(it, func, call, name, args, kwargs):
        nm = (name or "").split(".")[-1]
        if nm == "fce" and len(args) >= 5:
            ix = args[1:5]
            if not all(isinstance(x, Index) for x in ix):
                raise AnalysisError("_nsc_reference_implementation: the integrals are no longer called with four site indices")
            return F.at(*[x.name for x in ix])
        if nm == "time":
            return Expr.const(0)
        return NotImplemented
    HH = Array.opaque("H", 2)
    it = Interp(prog, lenient=True, call_hook=hook)
    KK = it.call_function(f, [Expr.factor("Na"), Expr.factor("Nt"), HH, Array.opaque("tt", 1), Array.opaque("gt", 2),
                              Array.opaque("ll", 1), "fce"])
    facts = Facts(symmetric=["H"], real=["H"])
    tensors.tensor_identities(run, rid, "nefoerstertensor._nsc_reference_implementation", KK, facts, f.loc(), time_rank=1,
                              what="non-secular non-equilibrium Foerster tensor",
                              assumptions=["the resonance couplings (off-diagonal part of the Hamiltonian) are real and symmetric"])


def rule_I(run, prog):
    """'Secularization ... sets every other element to zero' - also when the tensor was secularized before and has been
    recalculated since.  Secular.secularize works behind a 'done already' switch (`if not self.is_secular: <work>;
    self.is_secular = True`, found by the stored-result analysis qv/memo.py); the work reads and rewrites self.data.  The
    public way to recalculate a tensor is initialize(): every initialize() of a class that inherits Secular and
    (through the methods of self it calls) stores new data has to clear the switch, otherwise the next secularize() returns
    without touching the new, non-secular data."""
    from .. import memo
    rid = "C01-I"
    sec = prog.cls("quantarhei.qm.liouvillespace.secular.Secular")
    sw = [m for m in memo.find_memos(prog, sec, block_switch=True) if getattr(m, "switch", False) and m.func.name == "secularize"]
    if len(sw) != 1:
        raise AnalysisError("Secular.secularize: the 'done already' switch was not recognised (found %d)" % len(sw))
    flag = sw[0].attr
    prog.consulted.add(sw[0].func.relpath)
    n = 0
    for cls in prog.all_classes():
        if cls is sec or sec not in [x for x in prog.mro(cls) if x is not None] or "initialize" not in cls.methods:
            continue
        f = cls.methods["initialize"]
        methods = memo._class_methods(prog, cls)
        w = memo._transitive_writes(methods, f, f.node.body, depth=4)
        if not ({"data", "_data"} & set(w)):
            continue
        n += 1
        prog.consulted.add(f.relpath)
        run.obligation(rid, f.short, flag in w, key="recalculation-clears-" + flag,
                       message="%s stores newly calculated data and leaves self.%s as it was: after secularize(); initialize() the "
                               "tensor holds all its non-secular elements, self.%s is still True and the next secularize() (the "
                               "switch `%s` in Secular.secularize) returns without setting them to zero"
                               % (f.short, flag, flag, norm(sw[0].guard.test)), loc=f.loc(f.node), sample={"class": cls.name})
    if n < 4:
        raise AnalysisError("C01-I: only %d initialize() methods that store data found (6 confirmed)" % n)


def rule_G(run, prog):
    """updateStructure() builds the depopulation elements as R[n,n,n,n] -= trace(R[:,:,n,n]) - R[n,n,n,n] (and the dephasing
    elements from them): it completes rates that were just stored, starting from zeros elsewhere.  A method that stores
    rates and then calls it - initialize() of the Foerster-type tensors - must allocate self.data anew in the same method
    before the stores; with the allocation elsewhere (the constructor) a second initialize() starts from the completed
    tensor of the first and the trace identity sum_a R[a,a,c,d] = 0 is lost."""
    from ..loader import parents_map
    rid = "C01-G"
    n = 0
    for mod in prog.modules.values():
        if not mod.name.startswith("quantarhei.qm.liouvillespace"):
            continue
        for c in mod.classes.values():
            for fn in c.methods.values():
                calls = [x for x in walk_no_nested(fn.node) if isinstance(x, ast.Call) and norm(x.func) == "self.updateStructure"]
                if not calls:
                    continue
                n += 1
                prog.consulted.add(fn.relpath)
                allocs = [st for st in walk_no_nested(fn.node) if isinstance(st, ast.Assign)
                          and any(norm(t_) in ("self.data", "self._data") for t_ in st.targets)
                          and isinstance(st.value, ast.Call) and call_name(st.value) in ("zeros", "zeros_like")]
                ok = bool(allocs) and min(a.lineno for a in allocs) < min(c_.lineno for c_ in calls)
                run.obligation(rid, fn.short, ok, key="fresh-before-completion",
                               message="%s stores rates and completes them with updateStructure(), which subtracts from what is stored, "
                                       "without allocating self.data anew in the same method: calculated a second time (initialize() on "
                                       "a reused tensor) it starts from the completed tensor of the first calculation and the tensor no "
                                       "longer preserves the trace" % fn.short, loc=fn.loc(calls[0]))
    if n < 4:
        raise AnalysisError("only %d callers of updateStructure found (4 confirmed)" % n)


def rule_F(run, prog):
    """'Every relaxation tensor ... for all options (time dependent, cut-off)': a time-dependent Redfield tensor built with
    cutoff_time has only the time points up to the cut-off.  Where another tensor class builds one with the cut-off passed
    on and combines its data with its own array, an in-place `self.data += part.data` (or any element-wise sum with the
    own array unsliced) requires equal shapes and fails for every cut-off shorter than the axis; the own array has to be
    brought to the length of the part (a leading slice by part.data.shape[0])."""
    rid = "C01-F"
    n = 0
    for q in ("quantarhei.qm.liouvillespace.tdredfieldfoerster.TDRedfieldFoersterRelaxationTensor",):
        cls = prog.cls(q)
        for fn in cls.methods.values():
            parts = {}
            for st in walk_no_nested(fn.node):
                if isinstance(st, ast.Assign) and isinstance(st.value, ast.Call) and isinstance(st.targets[0], ast.Name) \
                        and any(k.arg == "cutoff_time" for k in st.value.keywords) and (call_name(st.value) or "").startswith("TD"):
                    parts[st.targets[0].id] = st
            if not parts:
                continue
            prog.consulted.add(fn.relpath)
            for st in walk_no_nested(fn.node):
                val = None
                if isinstance(st, ast.AugAssign) and norm(st.target) == "self.data":
                    val, own_sliced = st.value, False
                elif isinstance(st, ast.Assign) and norm(st.targets[0]) == "self.data" and isinstance(st.value, ast.BinOp):
                    val = st.value.right
                    l = st.value.left
                    own_sliced = isinstance(l, ast.Subscript) and norm(l.value) == "self.data" and any(
                        isinstance(x, ast.Name) for x in ast.walk(l.slice))
                if val is None:
                    continue
                used = [p_ for p_ in parts if norm(val) == p_ + ".data"]
                if not used:
                    continue
                n += 1
                run.obligation(rid, fn.short, own_sliced, key="part-may-be-shorter:" + used[0],
                               message="%s adds %s.data, built with the cut-off time passed on, to its own array allocated for the "
                                       "whole time axis (%s): with a cut-off shorter than the axis the shapes differ and the tensor "
                                       "cannot be built" % (fn.short, used[0], norm(st)[:50]), loc=fn.loc(st))
    if n < 1:
        raise AnalysisError("no sum of a tensor with a cut-off part found (1 confirmed)")


def rule_E(run, prog):
    """'Secularization keeps both identities ... for all options (time dependent, secular, operator or tensor form)'.  A
    tensor created with as_operators=True has no data until convert_2_tensor() is called.  Each implementation of
    secularize() that the tensor classes can reach (RelaxationTensor, TDRedfieldRelaxationTensor, the Secular mix-in)
    therefore has, before its first read of self.data / self._data, a call self.convert_2_tensor() under a test of
    self.as_operators, and does not raise under that test."""
    from ..loader import parents_map
    rid = "C01-E"
    LSQ = "quantarhei.qm.liouvillespace."
    n = 0
    for q in (LSQ + "relaxationtensor.RelaxationTensor", LSQ + "tdredfieldtensor.TDRedfieldRelaxationTensor", LSQ + "secular.Secular"):
        cls = prog.cls(q)
        f = cls.methods.get("secularize")
        if f is None:
            raise AnalysisError("%s.secularize not found" % cls.name)
        n += 1
        prog.consulted.add(f.relpath)
        pm = parents_map(f.node)
        reads = sorted([x for x in walk_no_nested(f.node) if isinstance(x, ast.Attribute) and x.attr in ("data", "_data")
                        and norm(x.value) == "self" and isinstance(x.ctx, ast.Load)], key=lambda x: (x.lineno, x.col_offset))
        convs = [c for c in walk_no_nested(f.node) if isinstance(c, ast.Call) and norm(c.func) == "self.convert_2_tensor"]

        def under_asop(node):
            while node is not None and node is not f.node:
                p_ = pm.get(node)
                if isinstance(p_, ast.If) and "self.as_operators" in norm(p_.test) and any(node is b for b in p_.body):
                    return True
                node = p_
            return False
        conv_ok = [c for c in convs if under_asop(c)]
        refuses = [r for r in walk_no_nested(f.node) if isinstance(r, ast.Raise) and under_asop(r)]
        first_read = reads[0].lineno if reads else 10 ** 9
        ok = bool(conv_ok) and min(c.lineno for c in conv_ok) < first_read and not refuses
        why = "refuses the operator form (%s)" % norm(refuses[0])[:60] if refuses else (
            "reads self.data (line %d) before / without converting from the operator form" % first_read)
        run.obligation(rid, f.short, ok, key="operator-form-converted",
                       message="%s %s: a tensor created with as_operators=True cannot be secularized through this "
                               "implementation, although the sibling implementations convert it first" % (f.short, why),
                       loc=f.loc(refuses[0] if refuses else (reads[0] if reads else f.node)))
    if n < 3:
        raise AnalysisError("secularize implementations: %d found (3 confirmed)" % n)


# ----------------------------------------------------------------------
def rule_A(run, prog):
    rid = "C01-A"
    # 1. time-independent Redfield, tensor form, end to end from _implementation
    selfo, it = tensors.assemble(prog, RED, as_operators=False)
    tensors.coverage_obligation(run, "C01-A", "%s._implementation[tensor]" % RED.split(".")[-1], it, "quantarhei/qm/liouvillespace")
    facts = tensors.real_facts(it)
    f = prog.find_method(prog.cls(RED), "_convert_operators_2_tensor")
    tensors.tensor_identities(run, rid, "RedfieldRelaxationTensor._implementation->data",
                              selfo.get("data"), facts, f.loc(), what="Redfield tensor")
    run.note("Redfield: uninterpreted statements (havoc): %d; facts: %s" % (
        len(it.havoc_log), ", ".join(facts.describe())))

    # 2. Lindblad form, tensor form
    selfo, it = tensors.assemble(prog, LIND, as_operators=False)
    tensors.coverage_obligation(run, "C01-A", "%s._implementation[tensor]" % LIND.split(".")[-1], it, "quantarhei/qm/liouvillespace")
    facts = tensors.real_facts(it, extra_real=["KK", "rates"])
    f = prog.find_method(prog.cls(LIND), "_implementation")
    tensors.tensor_identities(run, rid, "LindbladForm._implementation->data",
                              selfo.get("data"), facts, f.loc(), what="Lindblad form",
                              assumptions=["Lindblad operators sbi.KK and rates sbi.rates are real "
                                           "(they are stored in REAL arrays by SystemBathInteraction)"])

    # 3. time-dependent Redfield
    selfo, it = tensors.assemble(prog, TDRED, as_operators=False)
    tensors.coverage_obligation(run, "C01-A", "%s._implementation[tensor]" % TDRED.split(".")[-1], it, "quantarhei/qm/liouvillespace")
    so, ito = tensors.assemble(prog, TDRED, as_operators=True)
    tensors.coverage_obligation(run, "C01-A", "%s._implementation[operators]" % TDRED.split(".")[-1], ito, "quantarhei/qm/liouvillespace")
    kma = so.get("Km")
    if not isinstance(kma, Array):
        raise AnalysisError("TDRedfieldRelaxationTensor: operator form does not store Km")
    # names of the opaque sources of K_m are the same in both runs up to the
    # havoc counter; match by base name
    kbases = {n.split("~")[0] for n in kma.template.names()}
    km = [n for n in selfo.get("data").template.names() if n.split("~")[0] in kbases]
    facts = tensors.real_facts(it, symmetric=km)
    f = prog.find_method(prog.cls(TDRED), "_convert_operators_2_tensor")
    RR = selfo.get("data")
    tensors.tensor_identities(run, rid, "TDRedfieldRelaxationTensor._implementation->data",
                              RR, facts, f.loc(), time_rank=1, what="time-dependent Redfield tensor",
                              assumptions=["time-dependent Redfield Hermiticity uses symmetric(K_m): "
                                           "K_m = S^-1 K S of a real symmetric system operator in the "
                                           "eigenbasis of a real symmetric Hamiltonian"])
    # the trace identity must not need that assumption
    facts0 = tensors.real_facts(it)
    tr = RR.at("t", "x", "x", "c", "d").sum_over("x")
    nf = normal(tr, facts0)
    run.obligation(rid, "TDRedfieldRelaxationTensor._implementation->data", not nf,
                   key="trace-unconditional",
                   message="trace identity of the TD Redfield tensor needs more than real(K)",
                   loc=f.loc(), sample={"identity": "sum_a R[t,a,a,c,d]=0 with facts " +
                                        ", ".join(facts0.describe())})

    # 4. operator form: RedfieldRelaxationTensor.apply on the operators
    #    produced by _implementation
    selfo, it = tensors.assemble(prog, RED, as_operators=True)
    tensors.coverage_obligation(run, "C01-A", "%s._implementation[operators]" % RED.split(".")[-1], it, "quantarhei/qm/liouvillespace")
    apply_f = prog.find_method(prog.cls(RED), "apply")
    rho = Array.opaque("rho", 2)
    oper = Obj("oper", attrs={"data": rho})
    it2 = Interp(prog, lenient=False, branch_oracle=tensors.oracle_as_operators(True, {"copy": False}))
    it2.havoced = it.havoced
    res = it2.call_function(apply_f, [oper], {"copy": False}, self_obj=selfo)
    ven = res.get("data") if isinstance(res, Obj) else None
    if not isinstance(ven, Array) or ven.rank != 2:
        raise AnalysisError("RedfieldRelaxationTensor.apply: result not algebraic")
    facts = tensors.real_facts(it, hermitian=["rho"])
    e = ven.at("a", "b")
    if not normal(e, facts):
        raise AnalysisError("RedfieldRelaxationTensor.apply: nothing interpreted")
    nf = normal(ven.at("x", "x").sum_over("x"), tensors.real_facts(it))
    run.obligation(rid, "RedfieldRelaxationTensor.apply", not nf, key="trace",
                   message="tr(R rho) != 0 in operator form; residue: %s" % "; ".join(show_normal(nf, 4)),
                   loc=apply_f.loc(), sample={"identity": "tr(apply(rho))=0",
                                              "normal_form": show_normal(normal(e, facts), 4)})
    nf = normal(e.conj() - ven.at("b", "a"), facts)
    run.obligation(rid, "RedfieldRelaxationTensor.apply", not nf, key="hermiticity",
                   message="operator form does not map Hermitian to Hermitian; residue: %s"
                   % "; ".join(show_normal(nf, 4)), loc=apply_f.loc(),
                   sample={"identity": "apply(rho)^+ = apply(rho) for rho^+ = rho"})

    # 5./6. Foerster block added by the combined tensors
    for qual, trank in ((RF, 0), (TDRF, 1)):
        cls = prog.cls(qual)
        f = cls.methods.get("_reference_implementation")
        if f is None:
            raise AnalysisError("%s._reference_implementation vanished" % qual)
        prog.consulted.add(f.relpath)
        loops = tensors.find_for_storing(f, "self.data")
        if len(loops) != 1:
            raise AnalysisError("%s: expected one loop nest adding Foerster rates to self.data, "
                                "found %d" % (cls.name, len(loops)))
        base = Array.opaque("R0", 4 + trank)
        selfo = Obj("self", cls=cls, attrs={"_data": base}, alias={"data": "_data"})
        KF = Array.opaque("KF", 2 + trank)
        KF.dtype_real = True
        it = Interp(prog, lenient=False)
        it.stack.append(f)
        env = {"self": selfo, "KF": KF}
        # straight-line statements between the call that gives KF and the loop nest that define further values from KF
        # (a trimmed KF, sums of rates taken at once with numpy.sum(KF, axis=k)) are interpreted too
        from ..loader import parents_map
        pm_ = parents_map(f.node)
        blk_ = None
        for fld in ("body", "orelse", "finalbody"):
            b_ = getattr(pm_.get(loops[0]), fld, None)
            if isinstance(b_, list) and loops[0] in b_:
                blk_ = b_[:b_.index(loops[0])]
        derived = {"KF"}
        prelude = []
        for st_ in (blk_ or []):
            if isinstance(st_, ast.Assign) and len(st_.targets) == 1 and isinstance(st_.targets[0], ast.Name):
                if isinstance(st_.value, ast.Call) and st_.targets[0].id == "KF" and \
                        not any(isinstance(n_, ast.Name) and n_.id == "KF" for n_ in ast.walk(st_.value)):
                    derived, prelude = {"KF"}, []       # KF as returned by the rate routine: start here
                    continue
                if any(isinstance(n_, ast.Name) and n_.id in derived for n_ in ast.walk(st_.value)):
                    prelude.append(st_)
                    derived.add(st_.targets[0].id)
        it.exec_body(prelude + [loops[0]], env)
        it.stack.pop()
        t = ["t"] * trank
        idx = tuple(Array.ph(k) for k in range(4 + trank))
        added = Array(4 + trank, selfo.get("data").template - Expr.factor("R0", idx))
        facts = Facts(real=["KF"])
        tensors.tensor_identities(run, rid, "%s._reference_implementation:Foerster-block" % cls.name,
                                  added, facts, f.loc(loops[0]), time_rank=trank,
                                  what="Foerster block of the combined tensor",
                                  assumptions=["Foerster rate matrices KF are real (allocated float64 "
                                               "in foersterrates/_td_reference_implementation)"])
        # the Redfield part is added as a whole tensor
        adds = [n for n in walk_no_nested(f.node) if isinstance(n, ast.AugAssign)
                and norm(n.target) == "self.data" and isinstance(n.op, ast.Add)]
        ok = len(adds) == 1 and norm(adds[0].value) == "RT.data"
        if not adds:
            # the same addition written as a rebinding: self.data = self.data[<leading part>] + RT.data
            reb = [n for n in walk_no_nested(f.node) if isinstance(n, ast.Assign) and norm(n.targets[0]) == "self.data"
                   and isinstance(n.value, ast.BinOp) and isinstance(n.value.op, ast.Add)]
            ok = len(reb) == 1 and norm(reb[0].value.right) == "RT.data" and (
                norm(reb[0].value.left) == "self.data" or (isinstance(reb[0].value.left, ast.Subscript)
                                                           and norm(reb[0].value.left.value) == "self.data"))
        run.obligation(rid, "%s._reference_implementation:Redfield-part" % cls.name, ok,
                       key="redfield-part",
                       message="the Redfield part is no longer added as the data of one Redfield "
                               "tensor (self.data += RT.data)", loc=f.loc(),
                       sample={"statement": norm(adds[0]) if adds else None})


# ----------------------------------------------------------------------
def rule_B(run, prog):
    rid = "C01-B"
    for qual, trank in ((FOER, 0), (TDFOER, 1)):
        cls = prog.cls(qual)
        f = prog.find_method(cls, "initialize")
        if f is None or f.cls is not cls:
            raise AnalysisError("%s.initialize vanished" % qual)
        prog.consulted.add(f.relpath)

        def oracle(it, test, env):
            if norm(test) == "self.pure_dephasing":
                return True
            return None
        selfo = Obj("self", cls=cls, alias={"data": "_data"})
        it = Interp(prog, lenient=True, branch_oracle=oracle, inline_depth=5)
        it.call_function(f, [], self_obj=selfo)
        RR = selfo.get("data")
        rate_elems = [n for n in it.opaque_elems]
        if len(rate_elems) != 1:
            raise AnalysisError("%s.initialize: expected exactly one opaque rate source, got %s"
                                % (cls.name, rate_elems))
        facts = tensors.real_facts(it, extra_real=rate_elems)
        tensors.tensor_identities(
            run, rid, "%s.initialize->data" % cls.name, RR, facts, f.loc(), time_rank=trank,
            what="Foerster tensor after updateStructure and add_dephasing",
            assumptions=["Foerster transfer rates (%s) are real" % rate_elems[0]])
        run.note("%s.initialize: havoc log: %s" % (cls.name, " | ".join(it.havoc_log)[:600]))


# ----------------------------------------------------------------------
def _store_base(f, target):
    """Attribute of self that a subscripted store writes: 'self.X[...]' directly, or through a
    local name bound exactly once in the function to 'self.X'.  Returns X or None."""
    base = target.value
    if isinstance(base, ast.Attribute) and isinstance(base.value, ast.Name) and base.value.id == "self":
        return base.attr
    if isinstance(base, ast.Name):
        binds = [n for n in walk_no_nested(f.node) if isinstance(n, ast.Assign)
                 and any(isinstance(t_, ast.Name) and t_.id == base.id for t_ in n.targets)]
        if len(binds) == 1:
            v = binds[0].value
            if isinstance(v, ast.Attribute) and isinstance(v.value, ast.Name) and v.value.id == "self":
                return v.attr
    return None


def _mask_sites(prog):
    sites = [
        (LS + "relaxationtensor.RelaxationTensor.secularize", 2),
        (LS + "secular.Secular._secularize_data", 2),
        (LS + "tdredfieldtensor.TDRedfieldRelaxationTensor.secularize", 1),
    ]
    out = []
    for qual, n in sites:
        f = prog.func(qual)
        found = []
        for st in ast.walk(f.node):
            if isinstance(st, ast.If):
                stores = [x for x in st.body if isinstance(x, ast.Assign)
                          and isinstance(x.targets[0], ast.Subscript)
                          and _store_base(f, x.targets[0]) is not None
                          and isinstance(x.value, ast.Constant) and x.value.value == 0]
                if stores and len(st.body) == 1 and not st.orelse:
                    found.append((st, stores[0]))
        if len(found) < 1:
            raise AnalysisError("%s: no secular mask site found (%d confirmed)" % (qual, n))
        for st, store in found:
            out.append((f, st, store))
    return out


def _managed_attrs(prog, cls):
    """Attributes of cls that are basis-managed descriptors (class-level 'X = BasisManaged...("X")')."""
    out = set()
    for c in prog.mro(cls):
        if c is None:
            continue
        for name, val in c.attrs.items():
            if isinstance(val, ast.Call) and (norm(val.func).split(".")[-1]).startswith("BasisManaged"):
                out.add(name)
    return out


def _set_partitions(items):
    if not items:
        yield []
        return
    first, rest = items[0], items[1:]
    for p in _set_partitions(rest):
        for i in range(len(p)):
            yield p[:i] + [[first] + p[i]] + p[i + 1:]
        yield [[first]] + p


def _eval_bool(node, env):
    if isinstance(node, ast.BoolOp):
        vals = [_eval_bool(v, env) for v in node.values]
        return all(vals) if isinstance(node.op, ast.And) else any(vals)
    if isinstance(node, ast.UnaryOp) and isinstance(node.op, ast.Not):
        return not _eval_bool(node.operand, env)
    if isinstance(node, ast.Compare) and len(node.ops) == 1:
        l, r = node.left, node.comparators[0]
        if isinstance(l, ast.Name) and isinstance(r, ast.Name) and l.id in env and r.id in env:
            if isinstance(node.ops[0], ast.Eq):
                return env[l.id] == env[r.id]
            if isinstance(node.ops[0], ast.NotEq):
                return env[l.id] != env[r.id]
    raise AnalysisError("secular mask predicate outside the comparison-only vocabulary: %s" % norm(node))


def rule_C(run, prog):
    rid = "C01-C"
    tables = []
    for f, st, store in _mask_sites(prog):
        sub = store.targets[0].slice
        elts = sub.elts if isinstance(sub, ast.Tuple) else [sub]
        names = [e.id for e in elts if isinstance(e, ast.Name)]
        lead = [e for e in elts if not isinstance(e, ast.Name)]
        whole = all((isinstance(e, ast.Slice) and e.lower is None and e.upper is None and e.step is None)
                    or (isinstance(e, ast.Constant) and e.value is Ellipsis) for e in lead)
        if len(names) != 4 or len(set(names)) != 4 or not whole or (lead and elts[:len(lead)] != lead) or len(lead) > 1:
            raise AnalysisError("secular mask store with unexpected subscript: %s" % norm(store))
        # the state indices are the last four of the data: which ranks can reach this store?
        from ..loader import parents_map
        pm_ = parents_map(f.node)
        ranks = None          # None: no test of the rank on the way to the store
        node_ = st
        while node_ is not None and node_ is not f.node:
            par_ = pm_.get(node_)
            if isinstance(par_, ast.If) and "ndim" in norm(par_.test) and isinstance(par_.test, ast.Compare) \
                    and isinstance(par_.test.comparators[0], ast.Constant):
                k_ = par_.test.comparators[0].value
                in_body = any(node_ is x for x in par_.body)
                eq = isinstance(par_.test.ops[0], ast.Eq)
                if eq == in_body:
                    ranks = {k_}
                else:
                    ranks = {4, 5} - {k_}
            node_ = par_
        if ranks is None:
            ranks = {5} if "TimeDependent" in [getattr(b_, "name", "") for b_ in prog.mro(f.cls) if b_ is not None] else {4, 5}
        ellipsis = bool(lead) and isinstance(lead[0], ast.Constant)
        ok_rank = (ranks == {4} and not lead) or (ranks == {5} and bool(lead)) or (ranks == {4, 5} and ellipsis)
        run.obligation(rid, "%s:mask-rank@self.data[%s]" % (f.short, norm(sub)), ok_rank, key="state-indices-last",
                       message="the mask `%s` is reached for data of rank %s: the state indices are the last four, time-dependent "
                               "data carry the time in front.  With this subscript the first state index runs over the time axis - "
                               "whole rows of the early time points are wiped out (population and coherence-decay elements "
                               "included) and nothing else is secularized" % (norm(store), sorted(ranks)),
                       loc=f.loc(store), sample={"ranks": sorted(ranks), "store": norm(store)})
        # the four names must be the variables of the four enclosing full loops
        loopvars = []
        for n in ast.walk(f.node):
            if isinstance(n, ast.For) and any(x is st for x in ast.walk(n)):
                loopvars.append((n.target.id, norm(n.iter)))
        if sorted(v for v, _ in loopvars) != sorted(names) or \
                len({it for _, it in loopvars}) != 1 or not loopvars[0][1].startswith("range(N"):
            raise AnalysisError("secular mask not inside four full loops over the same range: %s"
                                % loopvars)
        a, b, c, d = names
        table = {}
        bad = []
        for part in _set_partitions([a, b, c, d]):
            env = {}
            for k, blk in enumerate(part):
                for nm in blk:
                    env[nm] = k
            zeroed = _eval_bool(st.test, env)
            keep_expected = (env[a] == env[b] and env[c] == env[d]) or \
                            (env[a] == env[c] and env[b] == env[d])
            pat = "|".join("".join(sorted("abcd"[names.index(x)] for x in blk))
                           for blk in sorted(part, key=lambda blk: min(names.index(x) for x in blk)))
            table[pat] = zeroed
            if zeroed == keep_expected:
                bad.append(pat)
        attr = _store_base(f, store.targets[0])
        construct = "%s:mask@self.%s[%s]" % (f.short, "data" if attr in ("data", "_data") else attr,
                                            norm(store.targets[0].slice))
        managed = _managed_attrs(prog, f.cls)
        if not managed:
            # a mixin: decide on the classes it is mixed into
            subs = [c for m_ in prog.modules.values() for c in m_.classes.values()
                    if c is not f.cls and f.cls in prog.mro(c)]
            sets = [x for x in (_managed_attrs(prog, c) for c in subs) if x]
            if not sets:
                raise AnalysisError("%s: no class with basis-managed properties uses this mask" % f.qualname)
            managed = set.intersection(*sets)
        run.obligation(rid, construct, attr in managed, key="managed-access",
                       message="the mask is written to self.%s, which is not a basis-managed property (%s): the "
                               "raw storage is the representation in whatever basis the tensor was last used, so "
                               "the zeroing is not applied in the current basis" % (attr, sorted(managed)),
                       loc=f.loc(store), sample={"site": construct, "attribute": attr})
        run.obligation(rid, construct, not bad, key="mask",
                       message="secular mask deviates from 'zero everything except R[a,a,b,b] and "
                               "R[a,b,a,b]' on index patterns %s" % bad,
                       loc=f.loc(st),
                       sample={"site": construct, "patterns": 15,
                               "zeroed_patterns": sorted(k for k, v in table.items() if v)})
        tables.append((construct, table))
    # secular bookkeeping (rates and dephasings kept beside the tensor) must not write into the tensor:
    # numpy.einsum with a single operand returns a *view* of it (diagonal extraction), so an element
    # store into that result is a store into the data
    rt = prog.cls(LS + "relaxationtensor.RelaxationTensor")
    nview = 0
    for nme, fn in sorted(rt.methods.items()):
        views = {}
        for n in walk_no_nested(fn.node):
            if isinstance(n, ast.Assign) and isinstance(n.value, ast.Call) and len(n.targets) == 1:
                inner = [c for c in ast.walk(n.value) if isinstance(c, ast.Call)
                         and ((norm(c.func).split(".")[-1] == "einsum" and len(c.args) == 2
                               and norm(c.args[1]) in ("self.data", "self._data"))
                              or (norm(c.func).split(".")[-1] in ("diagonal", "reshape", "transpose", "swapaxes", "ravel")
                                  and c.args and norm(c.args[0]) in ("self.data", "self._data")))]
                if inner:
                    # the extraction is a view unless the statement itself copies it
                    views.setdefault(norm(n.targets[0]), []).append((n, inner[0] is n.value))
        for tgt, items in sorted(views.items()):
            nview += 1
            writes = [w for w in walk_no_nested(fn.node) if isinstance(w, (ast.Assign, ast.AugAssign))
                      and any(isinstance(t_, ast.Subscript) and norm(t_.value) == tgt
                              for t_ in (w.targets if isinstance(w, ast.Assign) else [w.target]))]
            raw = [n for n, is_view in items if is_view]
            run.obligation(rid, "RelaxationTensor." + nme, not (raw and writes), key="no-write-through-view:" + tgt,
                           message="%s is a view of the tensor data (%s) and is then written element-wise (%s): the "
                                   "tensor itself is modified (R[i,i,i,i] zeroed), the trace identity is lost"
                                   % (tgt, norm(raw[0].value)[:50] if raw else "", [norm(w)[:40] for w in writes[:2]]),
                           loc=fn.loc(writes[0]) if writes else fn.loc(items[0][0]),
                           sample={"extracted": tgt, "copied": not raw, "element_writes": len(writes)})
    if nview < 2:
        raise AnalysisError("secular bookkeeping: views of the tensor data not found (%d)" % nview)
    # sibling agreement
    ref = tables[0][1]
    for construct, t in tables[1:]:
        run.obligation(rid, construct, t == ref, key="sibling",
                       message="secular mask differs from %s" % tables[0][0], loc="",
                       sample={"site": construct, "agrees_with": tables[0][0]})
    run.extra["exhaustive"] = True


# ----------------------------------------------------------------------
def rule_D(run, prog):
    rid = "C01-D"
    f = prog.func("quantarhei.builders.opensystem.OpenSystem.get_RelaxationTensor")
    seen = set()
    for call in calls_in(f.node):
        if isinstance(call.func, ast.Name):
            r = prog.resolve_name(f.module, call.func.id, f)
            from ..loader import ClassInfo
            if isinstance(r, ClassInfo) and (prog.is_subclass(r, "RelaxationTensor")
                                             or prog.is_subclass(r, "SuperOperator")):
                seen.add(r.name)
    if not seen:
        raise AnalysisError("no tensor class instantiated in get_RelaxationTensor")
    for name in sorted(seen):
        if name in OUT_OF_SCOPE:
            run.instance(rid, {"class": name, "status": "out of scope: " + OUT_OF_SCOPE[name]})
            continue
        ok = name in COVERED
        run.obligation(rid, "OpenSystem.get_RelaxationTensor:%s" % name, ok, key="coverage",
                       message="tensor class %s is handed out by get_RelaxationTensor but has no "
                               "trace/Hermiticity obligation in this check" % name, loc=f.loc(),
                       sample={"class": name, "discharged_by": COVERED.get(name)})
    # every option of every covered tensor class must at least be constructible: attributes of self
    # read by the constructors / initialisers exist (a misspelt attribute makes a whole option -
    # cut-off time, secular, operator form - raise instead of building a tensor)
    from .. import apiexist
    funcs = []
    for q in (RED, TDRED, LIND, FOER, TDFOER, RF, TDRF):
        cls = prog.cls(q)
        for c in prog.mro(cls):
            if c is None:
                continue
            for nme, fn in c.methods.items():
                if nme in ("__init__", "initialize", "_implementation", "secularize", "convert_2_tensor",
                           "updateStructure", "add_dephasing", "_convert_operators_2_tensor",
                           "_reference_implementation", "td_reference_implementation") and fn not in funcs:
                    funcs.append(fn)
    apiexist.check_self_attributes(run, rid, prog, funcs, "constructing the tensor")
    apiexist.check_call_arity(run, rid, prog, funcs, "constructing the tensor")


def rule_H(run, prog):
    """'Lindblad forms ... all options (operator or tensor form)': LindbladForm._implementation handles sbi is None (one zero
    operator - no relaxation).  The object it leaves keeps self.SystemBathInteraction = None, so every method the class
    inherits and that works on the operators (conversion to the tensor, apply, transform, secularize) must not dereference
    self.SystemBathInteraction without a test for None.  Positive control: LindbladForm._implementation itself tests
    `sbi is None`."""
    from ..loader import parents_map
    rid = "C01-H"
    lf = prog.cls("quantarhei.qm.liouvillespace.lindbladform.LindbladForm")
    impl = lf.methods.get("_implementation")
    if impl is None or not any(isinstance(x, ast.Compare) and norm(x) in ("sbi is None", "sbi is not None") for x in ast.walk(impl.node)):
        raise AnalysisError("LindbladForm._implementation no longer provides for sbi is None")
    methods = {}
    for b in reversed([x for x in prog.mro(lf) if x is not None]):
        for nme, fn in b.methods.items():
            methods[nme] = fn
    n = 0
    for nme in ("convert_2_tensor", "_convert_operators_2_tensor", "apply", "transform", "secularize", "_post_implementation"):
        fn = methods.get(nme)
        if fn is None:
            continue
        n += 1
        prog.consulted.add(fn.relpath)
        pm = parents_map(fn.node)
        bad = None
        for x in walk_no_nested(fn.node):
            if isinstance(x, ast.Attribute) and isinstance(x.value, ast.Attribute) and norm(x.value) == "self.SystemBathInteraction":
                g, node = False, x
                while node is not None and node is not fn.node:
                    p_ = pm.get(node)
                    if isinstance(p_, ast.If) and "self.SystemBathInteraction is not None" in norm(p_.test) and any(node is b for b in p_.body):
                        g = True
                    node = p_
                if not g:
                    bad = x
        run.obligation(rid, fn.short, bad is None, key="sbi-may-be-None",
                       message="%s reads %s; for a Lindblad form created with sbi=None (which LindbladForm._implementation provides for) "
                               "self.SystemBathInteraction is None and the tensor form of 'no relaxation' cannot be made"
                               % (fn.short, norm(bad) if bad is not None else ""), loc=fn.loc(bad) if bad is not None else fn.loc(fn.node))
    if n < 3:
        raise AnalysisError("only %d inherited methods of LindbladForm examined" % n)
