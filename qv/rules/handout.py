"""Shared obligations on `at(time)` methods that hand out the stored state of one grid time as a new managed object:
the index is the grid point nearest to the requested time, and the object handed out owns its data."""
import ast

from ..loader import AnalysisError, norm, walk_no_nested, call_name


def _core(e):
    # strip an owning copy: X.copy(), numpy.array(X), numpy.copy(X)
    if isinstance(e, ast.Call) and isinstance(e.func, ast.Attribute) and e.func.attr == "copy" and not e.args:
        return e.func.value, True
    if isinstance(e, ast.Call) and call_name(e) in ("array", "copy") and e.args:
        return e.args[0], True
    return e, False


def grid_index(fn, axis_attr):
    """(name, how, node) of the index computed from the requested time on the object's own axis"""
    tparam = fn.node.args.args[1].arg
    for n_ in walk_no_nested(fn.node):
        if isinstance(n_, ast.Assign) and isinstance(n_.value, ast.Call) and isinstance(n_.value.func, ast.Attribute) \
                and norm(n_.value.func.value) == "self." + axis_attr and [norm(a_) for a_ in n_.value.args] == [tparam]:
            tg = n_.targets[0]
            nm = tg.id if isinstance(tg, ast.Name) else (tg.elts[0].id if isinstance(tg, ast.Tuple) else None)
            return nm, n_.value.func.attr, n_
    return None, None, None


def handed_out(fn, ctor):
    rets = [n for n in walk_no_nested(fn.node) if isinstance(n, ast.Return) and isinstance(n.value, ast.Call)
            and call_name(n.value) == ctor]
    return [k.value for r_ in rets for k in r_.value.keywords if k.arg == "data"] + [r_.value.args[0] for r_ in rets if r_.value.args]


def check_nearest(run, rid, prog, cls, axis_attr, ctor, what):
    fn = cls.methods["at"]
    prog.consulted.add(fn.relpath)
    srcs = handed_out(fn, ctor)
    if not srcs:
        raise AnalysisError("%s.at no longer returns a %s built from data" % (cls.name, ctor))
    ix, how, node = grid_index(fn, axis_attr)
    cores = [_core(e)[0] for e in srcs]
    ok = ix is not None and how == "nearest" and all(isinstance(c, ast.Subscript) and norm(c.value) == "self.data" and
                                                     norm(c.slice.elts[0] if isinstance(c.slice, ast.Tuple) else c.slice) == ix for c in cores)
    run.obligation(rid, "%s.at" % cls.name, ok, key="nearest-grid-point",
                   message="%s.at(time) selects the stored state with the index from self.%s.%s(time): locate() gives the lower "
                           "neighbour of a rounded quotient, which for many grid times is the previous point - %s"
                           % (cls.name, axis_attr, how, what), loc=fn.loc(node) if node is not None else fn.loc(fn.node),
                   sample={"index_from": how})


def check_owned(run, rid, prog, cls, ctor, what):
    fn = cls.methods["at"]
    prog.consulted.add(fn.relpath)
    srcs = handed_out(fn, ctor)
    if not srcs:
        raise AnalysisError("%s.at no longer returns a %s built from data" % (cls.name, ctor))
    shared = [norm(e) for e in srcs if not _core(e)[1] and "self.data" in norm(_core(e)[0])]
    run.obligation(rid, "%s.at" % cls.name, not shared, key="owns-its-data",
                   message="%s.at() builds the returned %s on %s, a view of the stored array: both objects are transformed in "
                           "place when a basis context opens or closes, so the state handed out is transformed twice (and "
                           "writing into it changes the stored evolution) - %s" % (cls.name, ctor, shared, what),
                   loc=fn.loc(fn.node), sample={"data_arguments": [norm(e) for e in srcs]})


def check_axis_lookup(run, rid, prog, floor=20):
    """The index look-ups of ValueAxis (locate, nearest) and the construction of its points are translation covariant:
    affine typing (qv/affine.py) with the points of the axis (start, data[k], min, max, the value looked up) as points,
    the step as displacement and the length as a pure number.  `abs(val - k*step)` - the distance to the k-th point of an
    axis that starts at zero - is ill-typed; on an axis with start >= step/2 it makes nearest() return the next point."""
    from ..affine import AffineTyper, P, V, S
    cls = prog.cls("quantarhei.core.valueaxis.ValueAxis")
    attrs = {"self.start": P, "self.data": P, "self.min": P, "self.max": P, "self.step": V, "self.length": S}
    n = 0
    for o_ in ("axis",):
        attrs.update({o_ + ".start": P, o_ + ".data": P, o_ + ".min": P, o_ + ".max": P, o_ + ".step": V, o_ + ".length": S})
    for nme, params in (("__init__", {"start": P, "length": S, "step": V}), ("locate", {"val": P}), ("nearest", {"val": P}),
                        ("is_equal_to", {"axis": None}), ("is_extension_of", {"axis": None}), ("is_subsection_of", {"axis": None}),
                        ("is_subset_of", {"axis": None})):
        f = cls.methods[nme]
        prog.consulted.add(f.relpath)
        names = [a.arg for a in f.node.args.args[1:]]
        if sorted(names) != sorted(params):
            raise AnalysisError("ValueAxis.%s: parameters %s, expected %s" % (nme, names, sorted(params)))
        ty = AffineTyper(attrs, {k: v for k, v in params.items() if v is not None})
        ty.block(f.node.body)
        n += ty.nchecked
        run.obligation(rid, f.short, not ty.errors, key="translation-covariant",
                       message="ValueAxis.%s forms `%s`: %s.  Points of an axis enter index arithmetic through differences only; this "
                               "expression is right for axes that start at zero - on an axis with a non-zero start the index handed "
                               "out belongs to a neighbouring point (at(t) and apply(t, rho) then return the value of another time)"
                               % (nme, norm(ty.errors[0][0])[:60] if ty.errors else "", ty.errors[0][1] if ty.errors else ""),
                       loc=f.loc(ty.errors[0][0]) if ty.errors else f.loc(f.node), sample={"expressions_typed": ty.nchecked})
    if n < floor:
        raise AnalysisError("ValueAxis look-ups: only %d expressions typed (%d confirmed)" % (n, floor))


def check_created_from_own_data(run, rid, prog, floor=3):
    """A basis-managed object that a method creates from the data of `self` owns its array.  The managed read
    `self.data[...]` hands out (a view of) the stored array in the current basis; an operator constructed on it shares
    storage with self: when the context is left, self is transformed back in place - the new object's values change with
    it - and then the new object, registered in the same context, is transformed back once more.  Every constructor call
    of a class with basis-managed data whose `data=` argument is rooted at self.data / self._data passes a copy
    (`.copy()`, numpy.array(...))."""
    from ..loader import ClassInfo
    n = 0
    bm = prog.cls("quantarhei.core.managers.BasisManaged")
    for f in prog.all_functions():
        if ".tests." in f.qualname or ".wizard." in f.qualname:
            continue
        for c in walk_no_nested(f.node):
            if not isinstance(c, ast.Call):
                continue
            kw = [k for k in c.keywords if k.arg == "data"]
            if not kw:
                continue
            v = kw[0].value
            core = v
            copied = False
            while True:
                if isinstance(core, ast.Call) and isinstance(core.func, ast.Attribute) and core.func.attr == "copy" and not core.args:
                    core, copied = core.func.value, True
                elif isinstance(core, ast.Call) and (call_name(core) or "").split(".")[-1] in ("array", "real", "imag", "conj") and core.args:
                    copied = copied or (call_name(core) or "").split(".")[-1] == "array"
                    core = core.args[0]
                elif isinstance(core, ast.Subscript):
                    core = core.value
                else:
                    break
            if not (isinstance(core, ast.Attribute) and core.attr in ("data", "_data") and norm(core.value) == "self"):
                continue
            try:
                tgt = prog.resolve_name(f.module, call_name(c).split(".")[-1], f) if call_name(c) else None
            except Exception:
                tgt = None
            if not (isinstance(tgt, ClassInfo) and bm in [x for x in prog.mro(tgt) if x is not None]):
                continue
            n += 1
            prog.consulted.add(f.relpath)
            run.obligation(rid, f.short, copied, key="created-object-owns-its-data:" + (call_name(c) or "")[:30],
                           message="%s creates `%s` on (a view of) its own stored array: inside a basis context the two objects share "
                                   "storage - on leaving the context self is transformed back in place, which changes the new object, "
                                   "and the new object is then transformed back a second time" % (f.short, norm(c)[:80]),
                           loc=f.loc(c), sample={"call": norm(c)[:80]})
    if n < floor:
        raise AnalysisError("%s: only %d managed objects are created from the data of self (%d confirmed)" % (rid, n, floor))
