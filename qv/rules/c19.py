"""C19 - two-dimensional response storage conserves what was added.

Decided statically: the process and signal tables are partitions of the
pathway types (A); every view helper sums a fresh accumulator over exactly the
members of its class (B); read-modify-write soundness of _add_data by finite
evaluation of the resolution-dependent getter and setter over storage
resolution x added resolution x tag (C, one open finding); conversion paths
only descend, every consecutive pair has an elementary conversion that builds
a new storage from sums over the partition (D).
"""
import ast
import itertools

from ..loader import parents_map, AnalysisError, norm, walk_no_nested, call_name, const_value, protocol_body

T2 = "quantarhei.spectroscopy.twod2"
RES = ["off", "signals", "processes", "types", "pathways"]
CLASSES = ["ptype", "process", "signal", "total"]


def check(run, prog, tier):
    run.explanation = (
        "Constant folding of the pathway-type / process / signal tables (partition check), "
        "statement-level rules on the nine view helpers, finite-configuration evaluation (exhaustive "
        "over 5 storage resolutions x 4 data-type classes x tag in {None, falsy, truthy}) of the getter and "
        "setter decision trees of twodspectrum_dictionary combined with the branches of _add_data, "
        "and table rules on the resolution conversion paths.")
    run.trusted_base = ["dict/list semantics of the storage", "numpy += on arrays adds element-wise"]
    run.rule("C19-H", "views are selected on every request: no 'flag already set' short-cut over responses that can be changed independently, no view kept across additions", minimum=3)
    from . import memorule
    memorule.check(run, prog, "C19-H", ['quantarhei.spectroscopy.twodcontainer.TwoDResponseContainer', 'quantarhei.spectroscopy.twod2.TwoDResponse', 'quantarhei.spectroscopy.twod2.TwoDSpectrumBase'],
                   "a view read through the container is then another signal than the one requested")
    run.rule("C19-A", "process and signal tables partition the pathway types", minimum=4)
    run.rule("C19-B", "every view is a sum over exactly the cells of its class", minimum=9)
    run.rule("C19-C", "add = read cell, add, write the same cell - or refuse (finite evaluation)", minimum=20)
    run.rule("C19-D", "resolution conversions only descend and sum over the partition", minimum=12)
    run.rule("C19-G", "stored cells own their arrays and are not handed out: additions store copies, spectra built from "
                      "the response get copies", minimum=6)
    run.rule("C19-F", "reading a view never writes into the storage: accumulators of the view helpers own their "
                      "array (path-sensitive ownership states)", minimum=8)
    run.rule("C19-E", "the storage-resolution label changes only with the data it describes (who may write it, "
                      "under which guard)", minimum=3)
    m = prog.module(T2)
    # (structural rule on the wrapper first: its finding stands when the wrapper can no longer be looked through)
    run.rule("C19-M", "a refused addition leaves the response as it was: what the adding routine assigns before its refusals is put back when it fails", minimum=2)
    rule_M(run, prog, m)
    tables = rule_A(run, prog, m)
    rule_B(run, prog, m)
    rule_C(run, prog, m)
    rule_D(run, prog, m)
    rule_E(run, prog, m)
    rule_F(run, prog, m)
    rule_G(run, prog, m)
    run.rule("C19-I", "the storage setter refuses an array that does not fit the axes before every store, at every "
                      "resolution; no refusal of the setter is unreachable", minimum=8)
    run.rule("C19-J", "every comparison of the storage resolution with a constant names one of the five resolutions", minimum=20)
    run.rule("C19-K", "views are handed out under their own type; adding data or taking a view restores the data flag", minimum=3)
    rule_I(run, prog, m)
    rule_I2(run, prog, m)
    rule_J(run, prog, m)
    rule_K(run, prog, m)
    run.rule("C19-N", "a cell that was never added is skipped alone: the 'not there' handler of a view helper stands for one cell, "
                      "not for the loop over the cells", minimum=6)
    rule_N(run, prog, m)
    run.rule("C19-O", "what is added to a response, and what a spectrum object is given, is stored whole: between the parameter and "
                      "the store no real/imaginary part, modulus, rounding or cast to a real type (a part that is 'small' on one scale "
                      "of the data is the signal on another)", minimum=4)
    rule_O(run, prog)
    run.extra["exhaustive"] = True


def rule_G(run, prog, m):
    """The stored total is the sum of what was added only if nobody else can write into the stored
    arrays: (i) the first addition to a cell must store an array of its own, not the caller's array (a
    calculator that adds one array under two signals, or reuses its buffer, otherwise changes or
    double-counts what is stored; devide_by() then divides a shared array twice); (ii) a spectrum object
    created from the response must get a copy, not a slice view, of the stored array."""
    rid = "C19-G"
    cls = m.classes["TwoDSpectrumBase"]
    f, _ = protocol_body(prog, cls, "_add_data")
    par = f.node.args.args[1].arg
    stores = [n for n in walk_no_nested(f.node) if isinstance(n, ast.Assign) and norm(n.targets[0]) == "self.d__data"]
    if len(stores) < 6:
        raise AnalysisError("_add_data: %d stores into the storage (10 confirmed)" % len(stores))

    def fresh(e):
        if isinstance(e, ast.BinOp):
            return True
        if isinstance(e, ast.Call) and call_name(e) in ("array", "copy", "deepcopy", "zeros", "asarray_chkfinite"):
            return call_name(e) != "asarray"
        return False
    for k, st in enumerate(stores):
        run.obligation(rid, "TwoDSpectrumBase._add_data", fresh(st.value), key="stores-own-array:%d:%s" % (k, norm(st.value)[:30]),
                       message="the addition stores %s itself: the stored cell is the caller's array (and the same array "
                               "when it is added under two keys)" % norm(st.value), loc=f.loc(st),
                       sample={"store": norm(st)[:60]})
    resp = m.classes.get("TwoDResponse")
    n_out = 0
    for nme, g in sorted(resp.methods.items()):
        for c in [x for x in walk_no_nested(g.node) if isinstance(x, ast.Call) and call_name(x) in ("set_data", "TwoDSpectrum", "PumpProbeSpectrum")]:
            for a in list(c.args) + [k.value for k in c.keywords]:
                if any(isinstance(x, ast.Attribute) and x.attr in ("d__data", "_d__data") for x in ast.walk(a)):
                    n_out += 1
                    ok = fresh(a) or (isinstance(a, ast.Call) and call_name(a) in ("real", "imag", "abs"))
                    run.obligation(rid, "TwoDResponse." + nme, ok, key="hands-out-copy:" + norm(a)[:30],
                                   message="%s passes %s on: the new object shares memory with the stored array, in-place "
                                           "operations on it change the response" % (nme, norm(a)), loc=g.loc(c),
                                   sample={"call": norm(c)[:60]})
    if n_out < 1:
        raise AnalysisError("no spectrum construction from stored data found in TwoDResponse")


    # (iii) a read of one stored cell through the storage property hands out a copy: what the getter returns from the
    # storage (piece[tag], storage[type], storage[total] - directly or through `ret`) carries .copy() (or numpy.array)
    fac = m.functions["twodspectrum_dictionary"]
    getter = [n for n in ast.walk(fac.node) if isinstance(n, ast.FunctionDef) and any(norm(d) == "property" for d in n.decorator_list)]
    if len(getter) != 1:
        raise AnalysisError("twodspectrum_dictionary: getter not found")
    getter = getter[0]
    srcs = []
    for n in ast.walk(getter):
        if isinstance(n, ast.Return) and n.value is not None and any(norm(n.value).startswith(p_) for p_ in ("piece[", "storage[")):
            srcs.append(n.value)
        if isinstance(n, ast.Assign) and norm(n.targets[0]) == "ret" and any(norm(n.value).startswith(p_) for p_ in ("piece[", "storage[")):
            srcs.append(n.value)
    if len(srcs) < 5:
        raise AnalysisError("storage getter: only %d single-cell reads found (5 confirmed)" % len(srcs))
    for v in srcs:
        owned = (isinstance(v, ast.Call) and isinstance(v.func, ast.Attribute) and v.func.attr == "copy") or \
            (isinstance(v, ast.Call) and call_name(v) in ("array", "copy"))
        run.obligation(rid, "twod2.twodspectrum_dictionary.getter", owned, key="cell-read-is-a-copy:" + norm(v)[:40],
                       message="the storage getter hands out %s, the stored array itself: an in-place operation on what was read "
                               "changes the stored cell and every view that sums over it (the summed views are new arrays, so the "
                               "behaviour also differs between views)" % norm(v), loc=fac.loc(v))

def rule_F(run, prog, m):
    """Each view helper sums stored cells into an accumulator and returns it.  The accumulator must be an
    array of its own (FRESH: numpy.zeros, a copy, the result of a binary +) whenever something is added
    to it in place; an accumulator that is merely bound to a stored cell (ALIAS: `data = ddata`) and
    then receives `data += ...` adds the other cells into the stored cell itself, so that every later
    read - type, process, signal, total - is wrong.  The helpers are interpreted over the ownership
    states {NONE, FRESH, ALIAS, STORED} with the storage initialised and every looked-up cell present,
    each loop taken twice."""
    rid = "C19-F"
    helpers = [f for nme, f in sorted(m.functions.items()) if nme.startswith("_") and ("_to_" in nme) and nme.split("_to_")[-1] in
               ("processes", "signals", "total")]
    if len(helpers) < 8:
        raise AnalysisError("only %d view helpers found (8 confirmed)" % len(helpers))
    for f in helpers:
        problems = []

        def ev(e, st):
            if isinstance(e, ast.Constant) and e.value is None:
                return "NONE"
            if isinstance(e, ast.Name):
                return st.get(e.id, "OTHER")
            if isinstance(e, ast.Subscript):
                base = e
                while isinstance(base, ast.Subscript):
                    base = base.value
                if "_d__data" in norm(base) or st.get(norm(base)) == "STORED" or (isinstance(base, ast.Name) and st.get(base.id) == "STORED"):
                    return "STORED"
                return "OTHER"
            if isinstance(e, ast.Attribute) and e.attr in ("_d__data", "d__data"):
                return "STORED"
            if isinstance(e, ast.Call):
                cn = call_name(e)
                if cn in ("zeros", "zeros_like", "copy", "array", "deepcopy", "empty"):
                    return "FRESH"
                if cn.startswith("_") and "_to_" in cn:
                    return "FRESH"      # another helper: its own verdict covers it
                return "OTHER"
            if isinstance(e, ast.BinOp):
                return "FRESH"
            return "OTHER"

        def test(t, st):
            tx = norm(t)
            if tx in ("obj.storage_initialized", "self.storage_initialized"):
                return True
            if isinstance(t, ast.UnaryOp) and isinstance(t.op, ast.Not):
                v = test(t.operand, st)
                return None if v is None else (not v)
            if isinstance(t, ast.BoolOp):
                vs = [test(v, st) for v in t.values]
                if isinstance(t.op, ast.And):
                    return False if False in vs else (None if None in vs else True)
                return True if True in vs else (None if None in vs else False)
            if isinstance(t, ast.Compare) and len(t.ops) == 1 and isinstance(t.comparators[0], ast.Constant) \
                    and t.comparators[0].value is None:
                v = ev(t.left, st)
                if v == "OTHER":
                    return None
                isnone = (v == "NONE")
                if isinstance(t.ops[0], ast.Is):
                    return isnone
                if isinstance(t.ops[0], ast.IsNot):
                    return not isnone
            return None

        def run_block(stmts, st):
            for s_ in stmts:
                if isinstance(s_, ast.Assign) and len(s_.targets) == 1 and isinstance(s_.targets[0], ast.Name):
                    v = ev(s_.value, st)
                    st[s_.targets[0].id] = "ALIAS" if v in ("STORED", "ALIAS") else v
                elif isinstance(s_, ast.AugAssign) and isinstance(s_.target, ast.Name):
                    if st.get(s_.target.id) == "ALIAS":
                        problems.append(s_)
                elif isinstance(s_, ast.AugAssign) and isinstance(s_.target, ast.Subscript):
                    b_ = s_.target
                    while isinstance(b_, ast.Subscript):
                        b_ = b_.value
                    if isinstance(b_, ast.Name) and st.get(b_.id) == "ALIAS":
                        problems.append(s_)
                elif isinstance(s_, ast.If):
                    c = test(s_.test, st)
                    if c is True:
                        run_block(s_.body, st)
                    elif c is False:
                        run_block(s_.orelse, st)
                    else:
                        a, b = dict(st), dict(st)
                        run_block(s_.body, a)
                        run_block(s_.orelse, b)
                        for k in set(a) | set(b):
                            va, vb = a.get(k), b.get(k)
                            st[k] = va if va == vb else ("ALIAS" if "ALIAS" in (va, vb) else (va or vb))
                elif isinstance(s_, ast.For):
                    for _ in range(2):
                        run_block(s_.body, st)
                elif isinstance(s_, ast.Try):
                    # the cell is present: the body runs, the handlers do not
                    run_block(s_.body, st)
                elif isinstance(s_, ast.With):
                    run_block(s_.body, st)
        run_block(f.node.body, {})
        run.obligation(rid, "twod2." + f.name, not problems, key="accumulator-owns-array",
                       message="%s adds in place into an accumulator that is only a reference to a stored cell (%s): "
                               "reading this view changes what is stored" % (f.name, [norm(p_)[:40] for p_ in problems[:2]]),
                       loc=f.loc(problems[0]) if problems else f.loc(), sample={"helper": f.name})


def rule_E(run, prog, m):
    """The getter and setter of the storage and every refusal check key off self.storage_resolution.
    Relabelling it without converting the stored dictionary makes the old cells invisible to every
    view (the total no longer contains what was added) and switches the refusals off.  The label may
    therefore be written only (i) in a constructor, (ii) by the first addition, under the guard
    'not self.storage_initialized', (iii) by the conversion loop, right after the elementary
    conversion to that level, (iv) by a roll-back: an except handler that puts back the label saved before the try and
    raises again."""
    from ..loader import parents_map
    rid = "C19-E"
    n_sites = 0
    for mod in prog.modules.values():
        for fn in [f for c in mod.classes.values() for f in c.methods.values()] + list(mod.functions.values()):
            stores = [n for n in ast.walk(fn.node) if isinstance(n, (ast.Assign, ast.AugAssign))
                      and any(isinstance(t_, ast.Attribute) and t_.attr == "storage_resolution"
                              for t_ in (n.targets if isinstance(n, ast.Assign) else [n.target]))]
            if not stores:
                continue
            prog.consulted.add(fn.relpath)
            pm = parents_map(fn.node)
            for st in stores:
                n_sites += 1
                why = None
                if fn.name == "__init__":
                    ok = True
                    kind = "constructor"
                else:
                    # (ii) guarded first addition
                    guarded = False
                    node = st
                    while node is not None and node is not fn.node:
                        par = pm.get(node)
                        if isinstance(par, ast.If) and norm(par.test) == "not self.storage_initialized" and \
                                any(node is x or any(node is y for y in ast.walk(x)) for x in par.body):
                            guarded = True
                        node = par
                    # (iii) conversion loop: previous statement in the same block converts to the same level
                    conv = False
                    par = pm.get(st)
                    for fld in ("body", "orelse"):
                        blk = getattr(par, fld, None)
                        if isinstance(blk, list) and st in blk and blk.index(st) > 0:
                            prev = blk[blk.index(st) - 1]
                            if isinstance(prev, ast.Expr) and isinstance(prev.value, ast.Call) and \
                                    call_name(prev.value) == "_convert_res_elementary" and len(prev.value.args) == 2 and \
                                    isinstance(st, ast.Assign) and norm(st.value) == "_resolutions[%s]" % norm(prev.value.args[1]):
                                conv = True
                    # (iv) roll-back: inside an except handler that raises again, the label saved before the try is put back
                    roll = False
                    node = st
                    while node is not None and node is not fn.node:
                        par = pm.get(node)
                        if isinstance(par, ast.ExceptHandler) and par.body and isinstance(par.body[-1], ast.Raise) and par.body[-1].exc is None \
                                and isinstance(st, ast.Assign) and isinstance(st.value, ast.Name):
                            roll = any(isinstance(a_, ast.Assign) and norm(a_.targets[0]) == st.value.id
                                       and norm(a_.value) == "self.storage_resolution" and a_.lineno < par.lineno
                                       for a_ in ast.walk(fn.node))
                        node = par
                    ok = guarded or conv or roll
                    kind = "first addition" if guarded else ("conversion" if conv else ("roll-back" if roll else "unguarded"))
                run.obligation(rid, fn.short, ok, key="label-write:" + norm(st)[:50],
                               message="%s relabels the storage (%s) outside a constructor, the first-addition guard "
                                       "'not self.storage_initialized' and the conversion loop: the stored cells are "
                                       "not converted with it" % (fn.short, norm(st)[:60]),
                               loc=fn.loc(st), sample={"function": fn.short, "kind": kind})
    if n_sites < 3:
        raise AnalysisError("only %d writes of storage_resolution found (3 confirmed)" % n_sites)



def _guards_before(pm, fn_node, st):
    """Tests that must have been passed to reach statement st: `if T: raise` statements earlier in an enclosing block
    (reached only when T is false) - the refusals on the path to st."""
    out = []
    node = st
    while node is not None and node is not fn_node:
        par = pm.get(node)
        for fld in ("body", "orelse", "finalbody"):
            blk = getattr(par, fld, None)
            if isinstance(blk, list) and node in blk:
                for prev in blk[:blk.index(node)]:
                    if isinstance(prev, ast.If) and prev.body and isinstance(prev.body[-1], ast.Raise) and not prev.orelse:
                        out.append(prev)
        node = par
    return out


def _unreachable(fn_node):
    """statements that follow a raise / return / continue / break in the same block"""
    dead = []
    for n in ast.walk(fn_node):
        for fld in ("body", "orelse", "finalbody"):
            blk = getattr(n, fld, None)
            if isinstance(blk, list):
                for k, st in enumerate(blk[:-1]):
                    if isinstance(st, (ast.Raise, ast.Return, ast.Continue, ast.Break)):
                        dead.extend(blk[k + 1:])
                        break
    return dead


def rule_I(run, prog, m):
    """'Inadmissible operations are refused without changing the stored data': an array that does not have the shape of
    the axes cannot be added to the others (the total and every reduction of the resolution fail from then on) or is
    broadcast into them.  Every store of the assigned value into the storage, at every resolution, is therefore reached
    only past a refusal that compares value.shape with the lengths of the two axes; and no refusal of the setter sits
    behind a raise where it cannot run."""
    from ..loader import parents_map
    rid = "C19-I"
    fac = m.functions["twodspectrum_dictionary"]
    setters = [n for n in ast.walk(fac.node) if isinstance(n, ast.FunctionDef) and any(norm(d).endswith(".setter") for d in n.decorator_list)]
    if len(setters) != 1:
        raise AnalysisError("twodspectrum_dictionary: setter not found")
    setter = setters[0]
    val = setter.args.args[1].arg
    pm = parents_map(setter)
    stores = [n for n in ast.walk(setter) if isinstance(n, ast.Assign) and isinstance(n.targets[0], ast.Subscript)
              and norm(n.value) == val]
    if len(stores) < 5:
        raise AnalysisError("setter: %d stores of the assigned value (5 confirmed)" % len(stores))
    dead = _unreachable(setter)
    dead_ids = {id(x) for d in dead for x in ast.walk(d)}
    for st in stores:
        guards = [g for g in _guards_before(pm, setter, st) if id(g) not in dead_ids]
        shape = [g for g in guards if (val + ".shape") in norm(g.test) and "xaxis.length" in norm(g.test) and "yaxis.length" in norm(g.test)]
        run.obligation(rid, "twod2.twodspectrum_dictionary.setter", bool(shape), key="shape-refusal:" + norm(st.targets[0])[:40],
                       message="the setter stores the assigned array as %s without a reachable refusal that compares its shape "
                               "with the axes: an array that does not fit is stored next to the others and the total can no "
                               "longer be formed (or it is broadcast into it)" % norm(st.targets[0]),
                       loc=fac.loc(st), sample={"store": norm(st)})
    refusals = [n for n in ast.walk(setter) if isinstance(n, ast.If) and n.body and isinstance(n.body[-1], ast.Raise)]
    for r_ in refusals:
        run.obligation(rid, "twod2.twodspectrum_dictionary.setter", id(r_) not in dead_ids, key="refusal-reachable:" + norm(r_.test)[:50],
                       message="the refusal 'if %s: raise' of the setter follows a raise in the same block and can never run" % norm(r_.test)[:80],
                       loc=fac.loc(r_), sample={"test": norm(r_.test)[:80]})


def rule_I2(run, prog, m):
    """The refusal of the setter sees what is assigned.  A second addition to a cell assigns `odata + data`: numpy broadcasts
    an array of another shape (a row, a column, a scalar array) into the stored one, the sum has the right shape and is
    accepted - the same array as a first addition is refused.  So wherever the adding routine stores a sum of the stored
    array and its argument, the argument itself passes a shape refusal first: an `if` that reads the shape of the
    argument together with the lengths of both axes and raises, placed before the branch over the resolutions (in the
    adding routine or in the wrapper that delegates to it)."""
    rid = "C19-I"
    base = prog.cls(T2 + ".TwoDSpectrumBase")
    f = base.methods["_add_data_to_cell"]
    wrap = base.methods["_add_data"]
    prog.consulted.add(f.relpath)
    par = f.node.args.args[1].arg
    sums = [n for n in ast.walk(f.node) if isinstance(n, ast.Assign) and norm(n.targets[0]) == "self.d__data"
            and isinstance(n.value, ast.BinOp) and any(isinstance(y, ast.Name) and y.id == par for y in ast.walk(n.value))]
    if len(sums) < 5:
        raise AnalysisError("_add_data_to_cell: %d accumulating stores found (5 confirmed)" % len(sums))

    def refusal(fn, p_):
        for st in fn.node.body:
            if isinstance(st, ast.If) and any(isinstance(x, ast.Raise) for x in st.body):
                t_ = norm(st.test)
                if "shape" in t_ and p_ in {y.id for y in ast.walk(st.test) if isinstance(y, ast.Name)} \
                        and "xaxis.length" in t_ and "yaxis.length" in t_:
                    return st
        return None
    r_ = refusal(f, par) or refusal(wrap, wrap.node.args.args[1].arg)
    first_branch = min([n.lineno for n in sums])
    ok = r_ is not None and (r_.lineno < first_branch or r_ in wrap.node.body)
    for st in sums:
        run.obligation(rid, f.short, ok, key="argument-shape-refused:" + str(sums.index(st)),
                       message="%s stores `%s` and no refusal looks at the shape of `%s` itself: an array that does not have the "
                               "shape of the axes is broadcast into the stored one by the sum (the setter sees only the sum, which "
                               "fits) - the same array is refused when it is the first addition to the cell"
                               % (f.short, norm(st.value), par), loc=f.loc(st), sample={"store": norm(st)})


def rule_O(run, prog):
    """'... the total spectrum read back equals the sum of everything added ... for all data arrays': complex arrays of any
    magnitude.  Every method of the spectrum classes that takes `data` and stores into the object's arrays is traced
    (qv/faithful.py)."""
    from .. import faithful
    rid = "C19-O"
    n = 0
    for q in ("quantarhei.spectroscopy.twod.TwoDSpectrum", "quantarhei.spectroscopy.twod2.TwoDSpectrumBase",
              "quantarhei.spectroscopy.twod2.TwoDResponse"):
        cls = prog.cls(q)
        for nme, f in cls.methods.items():
            if not isinstance(f.node, ast.FunctionDef) or "data" not in [a.arg for a in f.node.args.args]:
                continue
            t = faithful.trace(f.node, "data", ("data", "_data", "d__data", "_d__data"))
            if not t.stores:
                continue
            n += 1
            prog.consulted.add(f.relpath)
            bad = t.findings[0] if t.findings else None
            run.obligation(rid, f.short, bad is None, key="whole",
                           message="%s stores `%s`, which keeps a part of the array it was given (`%s`): the spectrum read back is "
                                   "not what was added" % (f.short, norm(bad[0])[:60] if bad else "", norm(bad[1])[:50] if bad else ""),
                           loc=f.loc(bad[0] if bad else f.node), sample={"stores": t.stores})
    if n < 4:
        raise AnalysisError("C19-O: only %d storing methods with a `data` parameter found in the spectrum classes" % n)


def rule_N(run, prog, m):
    """'Each view equals the sum of the additions belonging to it': the view helpers (_pathways_to_*, _types_to_*, ...) add
    up the cells of a class and skip a cell that was never added - the read of that one cell sits in a try whose handler
    goes on.  The handler must stand for one cell: a try that encloses the loop over the cells ends the whole sum at the
    first missing cell, and every cell after it is left out of the view, of the total and of every reduction made
    through the helper (a response that holds R2g but not R1g loses R2g from GSB)."""
    rid = "C19-N"
    n = 0
    for nme, f in sorted(m.functions.items()):
        if not (nme.startswith("_") and "_to_" in nme):
            continue
        for tr in [x for x in walk_no_nested(f.node) if isinstance(x, ast.Try)]:
            swallowing = [h for h in tr.handlers if not any(isinstance(y, ast.Raise) for y in ast.walk(h))]
            if not swallowing:
                continue
            n += 1
            prog.consulted.add(f.relpath)
            loops = [y for b_ in tr.body for y in ast.walk(b_) if isinstance(y, (ast.For, ast.While))]
            run.obligation(rid, "twod2." + nme, not loops, key="one-cell-per-handler:%d" % n,
                           message="%s reads the cells of a view inside one try around the whole loop (`for %s in %s`): the first cell "
                                   "that was never added raises, the handler goes on after the loop, and the cells that follow are "
                                   "missing from the view, the total and the reductions"
                                   % (nme, norm(loops[0].target) if loops else "", norm(loops[0].iter)[:40] if loops else ""),
                           loc=f.loc(tr), sample={"function": nme})
    if n < 6:
        raise AnalysisError("C19-N: only %d cell reads with a 'not there' handler found in the view helpers" % n)


def rule_M(run, prog, m):
    """'Inadmissible operations are refused without changing the stored data.'  The adding routine prepares the storage on
    the first addition (creates the dictionary, marks it initialised, takes the resolution named in the call) before it
    looks at the addition; its refusals (unknown type for the resolution, missing or superfluous tag, resolution too high)
    come later on the same paths.  Every attribute of self assigned before a refusal is therefore put back when the
    routine fails: the wrapper calls it inside a try whose except handler restores each of them from a value saved
    before the call and raises again.  Without it a refused first addition leaves the response at the resolution of the
    refused call - additions that were admissible before are refused afterwards."""
    from .c09 import _refusals_after_effects
    rid = "C19-M"
    base = prog.cls(T2 + ".TwoDSpectrumBase")
    f, wrap = base.methods["_add_data_to_cell"], base.methods["_add_data"]
    prog.consulted.add(f.relpath)
    hits = _refusals_after_effects(f)
    if len(hits) < 5:
        raise AnalysisError("_add_data_to_cell: only %d refusals after the preparation of the storage (10 confirmed)" % len(hits))
    # attributes assigned before any refusal, in the statement lists that enclose it
    pm = parents_map(f.node)
    early = set()
    for _txt, _w, r in hits:
        node = r
        while node is not f.node and node is not None:
            par = pm.get(node)
            for fld in ("body", "orelse", "finalbody"):
                b = getattr(par, fld, None)
                if isinstance(b, list) and node in b:
                    for st in b[:b.index(node)]:
                        for x in ast.walk(st):
                            if isinstance(x, ast.Assign):
                                for t_ in x.targets:
                                    if isinstance(t_, ast.Attribute) and norm(t_.value) == "self":
                                        early.add(t_.attr)
            node = par
    early.discard("d__data")
    if not early:
        raise AnalysisError("_add_data_to_cell: no attribute is assigned before a refusal")
    tries = [t_ for t_ in walk_no_nested(wrap.node) if isinstance(t_, ast.Try)
             and any(isinstance(c, ast.Call) and norm(c.func) == "self._add_data_to_cell" for b_ in t_.body for c in ast.walk(b_))]
    if len(tries) != 1:
        raise AnalysisError("_add_data: the call of _add_data_to_cell is not inside one try statement")
    tr = tries[0]
    restored, reraises = set(), False
    for h in tr.handlers:
        if h.type is not None and norm(h.type) not in ("Exception", "BaseException"):
            continue
        reraises = reraises or any(isinstance(x, ast.Raise) and x.exc is None for x in ast.walk(h))
        for x in ast.walk(h):
            if isinstance(x, ast.Assign) and isinstance(x.value, ast.Name):
                saved_before = any(isinstance(a_, ast.Assign) and norm(a_.targets[0]) == x.value.id and a_.lineno < tr.lineno
                                   for a_ in walk_no_nested(wrap.node))
                for t_ in x.targets:
                    if isinstance(t_, ast.Attribute) and norm(t_.value) == "self" and saved_before:
                        restored.add(t_.attr)
    for a in sorted(early):
        run.obligation(rid, wrap.short, a in restored and reraises, key="refusal-restores:" + a,
                       message="_add_data_to_cell assigns self.%s before its refusals (%d of them follow on the same paths), and _add_data "
                               "does not put it back when the addition is refused: a refused first addition leaves the response "
                               "prepared for the refused call (its resolution, an initialised empty storage), and additions that "
                               "were admissible before are refused afterwards" % (a, len(hits)), loc=wrap.loc(tr),
                       sample={"assigned_before_refusals": sorted(early), "restored": sorted(restored)})
    # 'as it was' includes 'not there': a value saved with getattr(self, name, default) belongs to an attribute that may be
    # absent; writing the default back creates it (an empty response whose storage is None instead of missing answers the
    # next request with a TypeError instead of doing what an empty response does)
    for a_ in walk_no_nested(wrap.node):
        if not (isinstance(a_, ast.Assign) and a_.lineno < tr.lineno and isinstance(a_.value, ast.Call)
                and norm(a_.value.func) == "getattr" and len(a_.value.args) == 3 and norm(a_.value.args[0]) == "self"
                and isinstance(a_.value.args[1], ast.Constant)):
            continue
        attr = a_.value.args[1].value
        put_back = [x for h in tr.handlers for x in ast.walk(h) if isinstance(x, ast.Assign)
                    and any(isinstance(t_, ast.Attribute) and norm(t_.value) == "self" and t_.attr == attr for t_ in x.targets)]
        if not put_back:
            continue
        removes = any((isinstance(x, ast.Delete) and any(isinstance(t_, ast.Attribute) and t_.attr == attr for t_ in x.targets))
                      or (isinstance(x, ast.Call) and norm(x.func) == "delattr" and len(x.args) == 2
                          and isinstance(x.args[1], ast.Constant) and x.args[1].value == attr)
                      for h in tr.handlers for x in ast.walk(h))
        run.obligation(rid, wrap.short, removes, key="absence-restored:" + attr,
                       message="_add_data saves self.%s with getattr(..., %s) - the attribute may not exist yet - and puts the saved "
                               "value back when the addition is refused: where there was no attribute there is now one holding %s; "
                               "a response that refused its first addition is no longer an empty response (set_resolution and "
                               "the views fail on it)" % (attr, norm(a_.value.args[2]), norm(a_.value.args[2])),
                       loc=wrap.loc(put_back[0]), sample={"attribute": attr})


def rule_J(run, prog, m):
    """The storage resolution is one of the five names of _resolutions.  A branch that compares the resolution (the
    attribute or a parameter called resolution) with any other constant - e.g. with the name of the total signal - is
    never taken, and the data of that resolution are silently left out (trim_to trimmed the axes and not the array)."""
    rid = "C19-J"
    def resolve(mod, name, depth=0):
        """string / list value of a module-level name, following assignments and imports; None when the name is not
        module-level; AnalysisError when it is and cannot be resolved"""
        if depth > 4:
            raise AnalysisError("constant %s: resolution too deep" % name)
        if name in mod.assigns:
            v = mod.assigns[name]
            if isinstance(v, ast.Name):
                return resolve(mod, v.id, depth + 1)
            try:
                return ast.literal_eval(v)
            except Exception:
                return None
        imp = mod.imports.get(name)
        if imp and imp[0] == "object":
            return resolve(prog.module(imp[1]), imp[2], depth + 1)
        return None

    class _C(dict):
        def get(self, k, d=None):
            return resolve(cur[0], k)
    cur = [m]
    consts = _C()
    res = consts.get("_resolutions")
    if not isinstance(res, list) or len(res) != 5:
        raise AnalysisError("_resolutions table not found")
    n = 0
    mods = [m, prog.module("quantarhei.spectroscopy.twodcontainer")]
    for mod in mods:
        prog.consulted.add(mod.relpath)
        cur[0] = mod
        for fn in [f for c in mod.classes.values() for f in c.methods.values()] + list(mod.functions.values()):
            for cmp_ in [x for x in ast.walk(fn.node) if isinstance(x, ast.Compare) and len(x.ops) == 1
                         and isinstance(x.ops[0], (ast.Eq, ast.NotEq))]:
                l, r = cmp_.left, cmp_.comparators[0]
                for a, b in ((l, r), (r, l)):
                    if norm(a).endswith("storage_resolution") or norm(a) in ("resolution", "storage_res"):
                        if isinstance(b, ast.Constant) and isinstance(b.value, str):
                            v = b.value
                        elif isinstance(b, ast.Name) and isinstance(consts.get(b.id), str):
                            v = consts.get(b.id)
                        else:
                            continue
                        n += 1
                        run.obligation(rid, fn.short, v in res, key="resolution-name:%s:%s" % (norm(cmp_)[:50], v),
                                       message="%s compares the storage resolution with %r, which is not one of %s: the branch "
                                               "is never taken" % (fn.short, v, res), loc=fn.loc(cmp_), sample={"compare": norm(cmp_), "value": v})
    if n < 20:
        raise AnalysisError("only %d comparisons of the storage resolution with a constant found (20 confirmed)" % n)


def rule_K(run, prog, m):
    """A view of the response is handed out as a spectrum object that says which view it is: get_TwoDSpectrum passes the
    requested type to the call that stores the data in the new spectrum (set_data without it resets the type to the
    total signal).  And neither adding data nor taking a view changes which data a later plain read returns: a method
    that switches the data flag to address one cell saves the flag first and restores it in a finally clause."""
    from ..loader import parents_map
    rid = "C19-K"
    cls = prog.cls(T2 + ".TwoDResponse")
    f = cls.methods["get_TwoDSpectrum"]
    prog.consulted.add(f.relpath)
    par = f.node.args.args[1].arg
    calls = [n for n in ast.walk(f.node) if isinstance(n, ast.Call) and call_name(n) == "set_data"]
    if len(calls) != 1:
        raise AnalysisError("get_TwoDSpectrum: set_data call not found")
    c = calls[0]
    passed = [norm(k.value) for k in c.keywords if k.arg == "dtype"] + [norm(a) for a in c.args[1:2]]
    run.obligation(rid, f.short, passed == [par], key="view-type-forwarded",
                   message="get_TwoDSpectrum stores the data of the requested view with set_data(...) without the type: the "
                           "spectrum handed out for the rephasing or non-rephasing view says it is the total signal",
                   loc=f.loc(c), sample={"call": norm(c)[:80]})
    # the container of views says which view it holds: where a method selects the view of every spectrum by a parameter and
    # collects them in a container whose constructor takes the type, the parameter reaches the constructor
    from ..loader import ClassInfo
    cont = prog.cls("quantarhei.spectroscopy.twodcontainer.TwoDResponseContainer")
    g = cont.methods["get_TwoDSpectrumContainer"]
    prog.consulted.add(g.relpath)
    gpar = [a.arg for a in g.node.args.args[1:]]
    sel = [c_ for c_ in ast.walk(g.node) if isinstance(c_, ast.Call) and call_name(c_) == "get_TwoDSpectrum"
           and any(k.arg == "dtype" and isinstance(k.value, ast.Name) and k.value.id in gpar for k in c_.keywords)]
    if not sel:
        raise AnalysisError("get_TwoDSpectrumContainer: the view is no longer selected by a parameter")
    tpar = [k.value.id for k in sel[0].keywords if k.arg == "dtype"][0]
    made = []
    for c_ in ast.walk(g.node):
        if isinstance(c_, ast.Call) and isinstance(c_.func, ast.Name):
            try:
                tgt = prog.resolve_name(g.module, c_.func.id, g)
            except Exception:
                tgt = None
            if isinstance(tgt, ClassInfo):
                init = prog.find_method(tgt, "__init__")
                ps = [a.arg for a in init.node.args.args[1:]] if init is not None else []
                if "dtype" in ps:
                    made.append((c_, ps))
    if not made:
        raise AnalysisError("get_TwoDSpectrumContainer: no container with a type is created")
    for c_, ps in made:
        given = {k.arg: norm(k.value) for k in c_.keywords if k.arg}
        for p_, a_ in zip(ps, c_.args):
            given.setdefault(p_, norm(a_))
        run.obligation(rid, g.short, given.get("dtype") == tpar, key="container-type-forwarded",
                       message="get_TwoDSpectrumContainer collects the `%s` view of every spectrum in `%s`, a container created "
                               "without that type: it says it holds the total signal, its fft(dtype=%s) is refused and what it "
                               "hands out is labelled total" % (tpar, norm(c_)[:50], tpar), loc=g.loc(c_))
    # flag discipline
    base = prog.cls(T2 + ".TwoDSpectrumBase")
    n = 0
    for cl, names in ((base, ("_add_data",)), (cls, ("get_TwoDSpectrum",))):
        for nme in names:
            fn = cl.methods[nme]
            n += 1
            pm = parents_map(fn.node)
            sets = [x for x in ast.walk(fn.node) if isinstance(x, ast.Call) and norm(x.func) == "self.set_data_flag"]
            helper_sets = []
            for x in ast.walk(fn.node):
                if isinstance(x, ast.Call) and isinstance(x.func, ast.Attribute) and norm(x.func.value) == "self" \
                        and x.func.attr in cl.methods and x.func.attr != "set_data_flag":
                    h = cl.methods[x.func.attr]
                    if any(isinstance(y, ast.Call) and norm(y.func) == "self.set_data_flag" for y in ast.walk(h.node)):
                        helper_sets.append(x)
            saved = {norm(t_) for x in ast.walk(fn.node) if isinstance(x, ast.Assign) for t_ in x.targets
                     if isinstance(t_, ast.Name) and "self.current_dtype" in norm(x.value)}
            ok = True
            why = ""
            for x in sets + helper_sets:
                if x in sets and norm(x.args[0]) in saved:
                    continue       # the restoring call itself
                # must sit in the body of a try whose finally restores a saved flag
                node, prot = x, False
                while node is not None and node is not fn.node:
                    p_ = pm.get(node)
                    if isinstance(p_, ast.Try) and any(node is b or any(node is y for y in ast.walk(b)) for b in p_.body):
                        if any(isinstance(y, ast.Call) and norm(y.func) == "self.set_data_flag" and norm(y.args[0]) in saved
                               for b in p_.finalbody for y in ast.walk(b)):
                            prot = True
                    node = p_
                if not prot:
                    ok = False
                    why = norm(x)[:60]
            if not (sets or helper_sets):
                raise AnalysisError("%s no longer switches the data flag" % fn.short)
            run.obligation(rid, fn.short, ok, key="flag-restored",
                           message="%s switches the data flag (%s) and does not restore it in a finally clause: the next plain read "
                                   "(data, get_max_value, the pump-probe spectrum) returns the cell addressed last instead of what "
                                   "it returned before" % (fn.short, why), loc=fn.loc(fn.node), sample={"switches": len(sets) + len(helper_sets)})
    # what is saved is the whole flag: every attribute set_data_flag writes from its argument
    sdf = base.methods["set_data_flag"]
    parts = sorted({t_.attr for x in ast.walk(sdf.node) if isinstance(x, ast.Assign) for t_ in x.targets
                    if isinstance(t_, ast.Attribute) and norm(t_.value) == "self"
                    and any(isinstance(y, ast.Name) and y.id == sdf.node.args.args[1].arg for y in ast.walk(x.value))})
    if "current_dtype" not in parts or len(parts) < 2:
        raise AnalysisError("set_data_flag: the parts of the flag (type and tag) not found: %s" % parts)
    k = 0
    for cl in (base, cls):
        for nme, fn in cl.methods.items():
            if nme == "set_data_flag":
                continue
            assigns = {}
            for x in walk_no_nested(fn.node):
                if isinstance(x, ast.Assign) and len(x.targets) == 1 and isinstance(x.targets[0], ast.Name):
                    assigns.setdefault(x.targets[0].id, []).append(x)
            for x in walk_no_nested(fn.node):
                if not (isinstance(x, ast.Call) and norm(x.func) == "self.set_data_flag" and x.args and isinstance(x.args[0], ast.Name)):
                    continue
                nm = x.args[0].id
                srcs = assigns.get(nm, [])
                read = {y.attr for a_ in srcs for y in ast.walk(a_.value) if isinstance(y, ast.Attribute) and norm(y.value) == "self"}
                if "current_dtype" not in read:
                    continue        # not a restore of a saved flag
                k += 1
                missing = [p_ for p_ in parts if p_ not in read]
                run.obligation(rid, fn.short, not missing, key="whole-flag-saved:" + nm,
                               message="%s saves the data flag in `%s` from self.current_dtype alone and restores it with set_data_flag(%s): "
                                       "the flag has the parts %s, and a plain type resets self.%s - a pathway view [type, tag] in force "
                                       "before the call reads the sum of all pathways of the type afterwards"
                                       % (fn.short, nm, nm, parts, (missing or [""])[0]), loc=fn.loc(x), sample={"saved_from": sorted(read)})
    if k < 2:
        raise AnalysisError("C19-K: only %d restores of a saved flag found (3 confirmed)" % k)

def _fold(m, node, env):
    if isinstance(node, ast.Constant):
        return node.value
    if isinstance(node, ast.Name):
        if node.id in env:
            return env[node.id]
        if node.id in m.assigns:
            return _fold(m, m.assigns[node.id], env)
        r = None
        raise AnalysisError("cannot fold name %s" % node.id)
    if isinstance(node, ast.List):
        return [_fold(m, e, env) for e in node.elts]
    if isinstance(node, ast.Subscript):
        return _fold(m, node.value, env)[_fold(m, node.slice, env)]
    if isinstance(node, ast.Dict):
        return {_fold(m, k, env): _fold(m, v, env) for k, v in zip(node.keys, node.values)}
    if isinstance(node, ast.Call) and isinstance(node.func, ast.Name) and node.func.id == "dict":
        return {k.arg: _fold(m, k.value, env) for k in node.keywords}
    raise AnalysisError("cannot fold %s" % norm(node))


def _signal_names(prog, m):
    env = {}
    for nm in ("signal_REPH", "signal_NONR", "signal_DC", "signal_TOTL"):
        r = prog.resolve_in_module(m.name, nm)
        if isinstance(r, tuple) and r[0] == "const":
            env[nm] = const_value(r[2])
        else:
            raise AnalysisError("cannot resolve %s" % nm)
    return env


def rule_A(run, prog, m):
    rid = "C19-A"
    env = _signal_names(prog, m)
    ptypes = _fold(m, m.assigns["_ptypes"], env)
    procs = _fold(m, m.assigns["_processes"], env)
    sigs = _fold(m, m.assigns["_signals"], env)
    run.obligation(rid, "twod2._ptypes", len(ptypes) == len(set(ptypes)) and len(ptypes) >= 8, key="distinct",
                   message="pathway types must be distinct", loc=m.relpath, sample={"ptypes": ptypes})
    for name, tbl in (("_processes", procs), ("_signals", sigs)):
        flat = [x for v in tbl.values() for x in v]
        ok = sorted(flat) == sorted(ptypes)
        run.obligation(rid, "twod2." + name, ok, key="partition",
                       message="%s must be a partition of the pathway types: members %s" % (name, sorted(flat)),
                       loc=m.relpath, sample={"table": {k: v for k, v in tbl.items()}})
    total = _fold(m, m.assigns["_total"], env)
    ok = total not in ptypes and total not in procs and total not in sigs and \
        not (set(procs) & set(sigs) - {"DC"}) and not (set(ptypes) & (set(procs) | set(sigs)))
    run.obligation(rid, "twod2 names", ok, key="disjoint-names",
                   message="type, process, signal and total names must not collide (the dispatch uses membership "
                           "tests in this order)", loc=m.relpath,
                   sample={"processes": sorted(procs), "signals": sorted(sigs), "total": total})
    res = _fold(m, m.assigns["_resolutions"], env)
    run.obligation(rid, "twod2._resolutions", res == RES, key="order",
                   message="resolution levels must be ordered off < signals < processes < types < pathways",
                   loc=m.relpath, sample={"resolutions": res})
    return ptypes, procs, sigs


def rule_B(run, prog, m):
    rid = "C19-B"
    spec = {"_pathways_to_processes": ("_processes", "process", "cells"),
            "_pathways_to_signals": ("_signals", "signal", "cells"),
            "_types_to_processes": ("_processes", "process", "cells"),
            "_types_to_signals": ("_signals", "signal", "cells"),
            "_pathways_to_total": ("_signals", None, "_pathways_to_signals"),
            "_types_to_total": ("_processes", None, "_types_to_processes"),
            "_signals_to_total": ("_signals", None, "storage"),
            "_processes_to_total": ("_processes", None, "storage")}
    for name, (table, arg, how) in spec.items():
        f = m.functions.get(name)
        if f is None:
            raise AnalysisError("view helper %s vanished" % name)
        prog.consulted.add(f.relpath)
        zeros = [n for n in walk_no_nested(f.node) if isinstance(n, ast.Assign) and norm(n.targets[0]) == "data"
                 and isinstance(n.value, ast.Call) and call_name(n.value) == "zeros"]
        ok = len(zeros) >= 1
        # members iterated
        if arg is not None:
            tdef = [n for n in walk_no_nested(f.node) if isinstance(n, ast.Assign) and norm(n.targets[0]) == "types"]
            ok = ok and len(tdef) == 1 and norm(tdef[0].value) == "%s[%s]" % (table, arg)
            loops = [n for n in walk_no_nested(f.node) if isinstance(n, ast.For) and norm(n.iter) == "types"]
            ok = ok and len(loops) == 1
            if ok:
                lp = loops[0]
                v = lp.target.id
                reads = [n for n in ast.walk(lp) if isinstance(n, ast.Subscript) and norm(n.value) == "obj._d__data"
                         and norm(n.slice) == v]
                adds = [n for n in ast.walk(lp) if isinstance(n, ast.AugAssign) and norm(n.target) == "data"
                        and isinstance(n.op, ast.Add)]
                ok = len(reads) == 1 and len(adds) == 1
        else:
            loops = [n for n in walk_no_nested(f.node) if isinstance(n, ast.For) and norm(n.iter) == table]
            ok = ok and len(loops) == 1
            if ok:
                lp = loops[0]
                v = lp.target.id
                adds = [n for n in ast.walk(lp) if isinstance(n, ast.AugAssign) and norm(n.target) == "data"
                        and isinstance(n.op, ast.Add)]
                ok = len(adds) == 1
                if ok:
                    if how == "storage":
                        ok = norm(adds[0].value) == "obj._d__data[%s]" % v
                    else:
                        ok = norm(adds[0].value) == "%s(obj, %s)" % (how, v)
        rets = [n for n in walk_no_nested(f.node) if isinstance(n, ast.Return) and n.value is not None
                and not (isinstance(n.value, ast.Constant))]
        ok = ok and all(norm(r.value) == "data" for r in rets) and bool(rets)
        run.obligation(rid, "twod2." + name, ok, key="sum-over-class",
                       message="%s must add, into a fresh zero array, exactly the stored cells of the members of "
                               "%s%s" % (name, table, "[%s]" % arg if arg else ""), loc="%s:%d" % (m.relpath, f.node.lineno),
                       sample={"helper": name, "class_table": table})
    # getter of a type under 'pathways' without a tag: sum over the tags of that type (copy first)
    fac = m.functions["twodspectrum_dictionary"]
    getter = [n for n in fac.node.body if isinstance(n, ast.FunctionDef) and len(n.args.args) == 1][0]
    loops = [n for n in ast.walk(getter) if isinstance(n, ast.For) and norm(n.iter) == "piece"]
    ok = len(loops) == 1 and any(norm(s) == "data = dat.copy()" for s in ast.walk(loops[0]) if isinstance(s, ast.stmt)) \
        and any(norm(s) == "data += dat" for s in ast.walk(loops[0]) if isinstance(s, ast.stmt))
    run.obligation(rid, "twod2.twodspectrum_dictionary.getter", ok, key="type-sum-over-tags",
                   message="the untagged read of a pathway type must sum copies of all tagged pathways of that type",
                   loc="%s:%d" % (m.relpath, getter.lineno))


# ----------------------------------------------------------------------
class _Cfg:
    def __init__(self, res, cls, tag):
        self.res, self.cls, self.tag = res, cls, tag


def _eval_test(test, cfg, names):
    """True/False/None(unknown) for the comparison-only tests of getter/setter"""
    t = norm(test)
    for r in RES:
        if t == "self.storage_resolution == '%s'" % r:
            return cfg.res == r
    tbl = {"_ptypes": "ptype", "_processes": "process", "_signals": "signal"}
    for k, c in tbl.items():
        if t == "self.current_dtype in %s" % k:
            return cfg.cls == c
        if t == "self.current_dtype not in %s" % k:
            return cfg.cls != c
    if t == "self.current_dtype == _total":
        return cfg.cls == "total"
    if t == "self.current_dtype != _total":
        return cfg.cls != "total"
    # tag domain: None / a falsy tag such as 0 or "" / a truthy tag
    if t == "self.current_tag is not None":
        return cfg.tag is not None
    if t == "self.current_tag is None":
        return cfg.tag is None
    if t == "self.current_tag":
        return cfg.tag == "truthy"
    if t == "not self.current_tag":
        return cfg.tag != "truthy"
    if t == "self.storage_initialized":
        return True
    if t in ("not ini", "not self.storage_initialized"):
        return False
    if t == "isinstance(value, numpy.ndarray)":
        return True
    return None


def _first_effect(stmts, cfg, kind):
    """Walk the decision tree under configuration cfg; return ('raise',text) / ('return',expr) /
    ('store',target) / None."""
    for st in stmts:
        if isinstance(st, ast.If):
            v = _eval_test(st.test, cfg, None)
            if v is True:
                r = _first_effect(st.body, cfg, kind)
                if r is not None:
                    return r
                continue
            if v is False:
                r = _first_effect(st.orelse, cfg, kind)
                if r is not None:
                    return r
                continue
            # unknown test (e.g. tag already exists): the refusing arm is a data-dependent refusal;
            # continue with the other arm
            arm_raises = any(isinstance(x, ast.Raise) for x in st.body)
            if arm_raises:
                r = _first_effect(st.orelse, cfg, kind)
                if r is not None:
                    return r
                continue
            raise AnalysisError("decision outside the finite vocabulary: %s" % norm(st.test))
        if isinstance(st, ast.Raise):
            return ("raise", norm(st)[:60])
        if isinstance(st, ast.Return):
            return ("return", st.value)
        if isinstance(st, ast.Try):
            r = _first_effect(st.body, cfg, kind)
            if r is not None:
                return r
            continue
        if kind == "set" and isinstance(st, ast.Assign) and isinstance(st.targets[0], ast.Subscript) and \
                norm(st.targets[0].value) in ("piece", "storage") and norm(st.value) == "value":
            return ("store", norm(st.targets[0]))
        if isinstance(st, ast.For) and kind == "get":
            # accumulation loop over tags followed by return data
            continue
    return None


def _classify_get(eff):
    if eff is None:
        return "none"
    k, v = eff
    if k == "raise":
        return "raise"
    if v is None:
        return "none"
    t = norm(v)
    if t.endswith(".copy()"):
        t = t[:-len(".copy()")]        # a copy of the cell addresses the same cell
    if t in ("piece[self.current_tag]", "ret", "storage[self.current_dtype]", "storage[_total]"):
        return "cell"
    if t == "data" or t.startswith("_"):
        return "aggregate"
    if t.startswith("numpy.zeros"):
        return "cell"       # empty cell
    if t == "None":
        return "cell"
    raise AnalysisError("getter return not classified: %s" % t)


def rule_C(run, prog, m):
    rid = "C19-C"
    fac = m.functions["twodspectrum_dictionary"]
    inner = [n for n in fac.node.body if isinstance(n, ast.FunctionDef)]
    getter = [n for n in inner if len(n.args.args) == 1][0]
    setter = [n for n in inner if len(n.args.args) == 2][0]
    table_g, table_s = {}, {}
    for res, cls, tag in itertools.product(RES, CLASSES, (None, "falsy", "truthy")):
        cfg = _Cfg(res, cls, tag)
        table_g[(res, cls, tag)] = _classify_get(_first_effect(getter.body, cfg, "get"))
        eff = _first_effect(setter.body, cfg, "set")
        table_s[(res, cls, tag)] = "none" if eff is None else eff[0]
    # ret from try: storage[...] is the cell; verify the try bodies really read the addressed cell
    cells_ok = all(norm(n.value).replace(".copy()", "") in ("storage[self.current_dtype]", "storage[_total]")
                   for n in ast.walk(getter) if isinstance(n, ast.Assign) and norm(n.targets[0]) == "ret"
                   and not isinstance(n.value, ast.Constant))
    run.obligation(rid, "twod2.twodspectrum_dictionary.getter", cells_ok, key="cell-addressing",
                   message="a plain read must address storage[current_dtype] (or storage[total])",
                   loc="%s:%d" % (m.relpath, getter.lineno))
    # branches of _add_data: resolution A -> (required class, tag requirement)
    add, _ = protocol_body(prog, prog.cls(T2 + ".TwoDSpectrumBase"), "_add_data")
    chain = [n for n in add.node.body if isinstance(n, ast.If) and norm(n.test).startswith("resolution == ")]
    if len(chain) != 1:
        raise AnalysisError("_add_data: dispatch on the added resolution not found")
    node = chain[0]
    branches = {}
    while node is not None:
        A = const_value(node.test.comparators[0])
        inner_if = node.body[0]
        t = norm(inner_if.test)
        req = {"dtype in _ptypes": "ptype", "dtype in _processes": "process", "dtype in _signals": "signal",
               "dtype == _total": "total"}.get(t)
        if req is None:
            raise AnalysisError("_add_data[%s]: class test not recognised: %s" % (A, t))
        tagtest = inner_if.body[0]
        tag_required = norm(tagtest.test) == "tag is not None" and not any(isinstance(x, ast.Raise) for x in tagtest.body)
        tag_forbidden = norm(tagtest.test) == "tag is not None" and any(isinstance(x, ast.Raise) for x in tagtest.body)
        # the read-modify-write
        rmw = [norm(s) for s in ast.walk(inner_if) if isinstance(s, ast.stmt)]
        first = {"self.d__data = data", "self.d__data = numpy.array(data)", "self.d__data = data.copy()",
                 "self.d__data = numpy.copy(data)"}
        ok = "odata = self.d__data" in rmw and ("self.d__data = odata + data" in rmw or "self.d__data = data + odata" in rmw) \
            and bool(first & set(rmw))
        run.obligation(rid, "TwoDSpectrumBase._add_data[%s]" % A, ok, key="rmw",
                       message="adding must read the addressed data, add, and write it back", loc=add.loc(node),
                       sample={"added_resolution": A})
        branches[A] = (req, tag_required, tag_forbidden)
        node = node.orelse[0] if node.orelse and isinstance(node.orelse[0], ast.If) else None
    if sorted(branches) != sorted(RES):
        raise AnalysisError("_add_data branches: %s" % sorted(branches))
    # the admissibility test: added resolution <= storage resolution
    st = [norm(s) for s in ast.walk(add.node) if isinstance(s, ast.stmt)]
    ok = "res1 = _resolution2number(resolution)" in st and "res2 = _resolution2number(self.storage_resolution)" in st and \
        any(isinstance(n, ast.If) and norm(n.test) == "res1 <= res2" and any(isinstance(x, ast.Raise) for x in n.orelse)
            for n in ast.walk(add.node))
    run.obligation(rid, "TwoDSpectrumBase._add_data", ok, key="admissible",
                   message="adding at a finer resolution than the storage must be refused", loc=add.loc())
    for S in RES:
        for A in RES:
            if RES.index(A) > RES.index(S):
                continue
            req, tag_req, tag_forb = branches[A]
            for tag in ((None,) if not tag_req else ("falsy", "truthy")):
              g = table_g[(S, req, tag)]
              s = table_s[(S, req, tag)]
              sound = (g == "cell" and s == "store") or s == "raise" or g == "raise"
              run.obligation(rid, "TwoDSpectrumBase._add_data", sound, key="rmw:storage=%s,add=%s,tag=%s" % (S, A, tag),
                           message="adding %s-level data to %s-level storage reads %s and then %s: the sum over "
                                   "several stored cells is written back as one more cell, so the total read back "
                                   "is no longer the sum of what was added"
                                   % (A, S, "an aggregate over cells" if g == "aggregate" else g,
                                      "stores it" if s == "store" else s),
                           loc=add.loc(), sample={"storage": S, "added": A, "class": req, "tag": tag,
                                                  "getter": g, "setter": s})
    # flag setting: list -> (dtype, tag); scalar -> (dtype, None)
    sf = prog.func(T2 + ".TwoDSpectrumBase.set_data_flag")
    st = [norm(s) for s in ast.walk(sf.node) if isinstance(s, ast.stmt)]
    ok = "self.current_dtype = flag[0]" in st and "self.current_tag = flag[1]" in st and \
        "self.current_dtype = flag" in st and "self.current_tag = None" in st
    run.obligation(rid, "TwoDSpectrumBase.set_data_flag", ok, key="flag",
                   message="the data flag must set the addressed type and tag", loc=sf.loc())


def rule_D(run, prog, m):
    rid = "C19-D"
    cv = prog.func(T2 + ".TwoDSpectrumBase._convert_resolution")
    tbl = [n for n in walk_no_nested(cv.node) if isinstance(n, ast.Assign) and norm(n.targets[0]) == "_conversion_paths"]
    if len(tbl) != 1:
        raise AnalysisError("_conversion_paths not found")
    paths = ast.literal_eval(tbl[0].value)
    el = prog.func(T2 + ".TwoDSpectrumBase._convert_res_elementary")
    steps = set()
    node = [n for n in el.node.body if isinstance(n, ast.If)][0]
    branches = {}
    while node is not None:
        cs = [c for c in ast.walk(node.test) if isinstance(c, ast.Compare)]
        vals = {norm(c.left): const_value(c.comparators[0]) for c in cs}
        branches[(vals["old"], vals["new"])] = node
        node = node.orelse[0] if node.orelse and isinstance(node.orelse[0], ast.If) else None
    for old, targets in paths.items():
        for new, path in targets.items():
            ok = path[0] == old and path[-1] == new and all(a > b for a, b in zip(path, path[1:]))
            run.obligation(rid, "TwoDSpectrumBase._convert_resolution", ok, key="path:%d->%d" % (old, new),
                           message="conversion path %s must start at %d, end at %d and strictly descend" % (path, old, new),
                           loc=cv.loc(), sample={"from": old, "to": new, "path": path})
            for a, b in zip(path, path[1:]):
                steps.add((a, b))
    for a, b in sorted(steps):
        run.obligation(rid, "TwoDSpectrumBase._convert_res_elementary", (a, b) in branches, key="step:%d->%d" % (a, b),
                       message="elementary conversion %d->%d is used by a path but not implemented" % (a, b), loc=el.loc(),
                       sample={"step": [a, b]})
    lossy = (2, 1) not in branches and not any(1 in t and 2 in paths for t in [paths.get(2, {})])
    run.obligation(rid, "TwoDSpectrumBase._convert_res_elementary", (2, 1) not in branches and 1 not in paths.get(2, {}),
                   key="no-2->1", message="processes cannot be converted to signals (the partitions are different)",
                   loc=el.loc())
    expect = {(4, 3): None, (3, 2): "_types_to_processes(self, process)", (3, 1): "_types_to_signals(self, signal)",
              (1, 0): "_signals_to_total(self)", (2, 0): "_processes_to_total(self)"}
    for key, node in branches.items():
        st = [norm(s) for s in ast.walk(ast.Module(body=node.body, type_ignores=[])) if isinstance(s, ast.stmt)]
        ok = "storage = {}" in st and "self._d__data = storage" in st and st.index("storage = {}") < st.index("self._d__data = storage")
        src = expect.get(key)
        if src is not None:
            ok = ok and ("data = " + src) in st
        elif key == (4, 3):
            ok = ok and "data += pdict[key]" in st and "storage[dtype] = data" in st and \
                any(s.startswith("for dtype in _ptypes") for s in st)
        else:
            ok = False
        run.obligation(rid, "TwoDSpectrumBase._convert_res_elementary", ok, key="branch:%d->%d" % key,
                       message="conversion %d->%d must build a new storage from the sums over the partition and "
                               "then replace the old one" % key, loc=el.loc(node), sample={"step": list(key)})
    sr = prog.func(T2 + ".TwoDSpectrumBase.set_resolution")
    st = [norm(s) for s in ast.walk(sr.node) if isinstance(s, ast.stmt)]
    ok = any(isinstance(n, ast.If) and norm(n.test) == "res_old < res_new" and any(isinstance(x, ast.Raise) for x in n.body)
             for n in ast.walk(sr.node)) and "self._convert_resolution(res_old, res_new)" in st
    run.obligation(rid, "TwoDSpectrumBase.set_resolution", ok, key="descend-only",
                   message="raising the resolution must be refused before anything is changed", loc=sr.loc())
    # the storage resolution label advances with each elementary step
    st = [norm(s) for s in ast.walk(cv.node) if isinstance(s, ast.stmt)]
    ok = "self._convert_res_elementary(start, end)" in st and "self.storage_resolution = _resolutions[end]" in st
    run.obligation(rid, "TwoDSpectrumBase._convert_resolution", ok, key="label",
                   message="the stored resolution label must follow each elementary conversion", loc=cv.loc())
