"""Stored results are what a fresh computation would give (shared by C03, C05, C08, C09, C11, C13, C15, C17, C19).

qv/memo.py finds, in the classes a property names, every method that keeps a result (or the fact that
"nothing changed") on self and short-cuts later calls with it, collects what the short-cut computation
reads, and demands that the guard covers the parameters and the ambient units/basis and that every other
writer of the attributes read invalidates the stored value.  On the tree as confirmed the package contains
one such method in the classes covered, `Molecule.get_Hamiltonian` - a documented cache with an explicit
`recalculate=` option ("The Hamiltonian is stored, and next time it is retrieved we obtain the same
object"); it is the positive control: the analysis must find it on every run.
"""
from ..loader import AnalysisError
from .. import memo

KNOWN_OK = {
    ("Molecule.get_Hamiltonian", "HH"): "documented cache of the molecule's Hamiltonian with an explicit recalculate= option",
}


def check(run, prog, rid, classes, what, also_ok=None, subclasses=None):
    control = memo.find_memos(prog, prog.cls("quantarhei.builders.molecules.Molecule"))
    if not any(m.attr == "HH" and m.func.name == "get_Hamiltonian" for m in control):
        raise AnalysisError("%s: the memo analysis no longer recognises the documented cache Molecule.get_Hamiltonian "
                            "(positive control)" % rid)
    total = 0
    for q in classes:
        cls = prog.cls(q)
        nmeth = len([f for f in cls.methods.values()])
        ok_here = dict(KNOWN_OK)
        ok_here.update(also_ok or {})
        memos = memo.check_class(run, rid, prog, cls, what, known_ok=ok_here, subclasses=subclasses)
        live = [m for m in memos if (m.func.short, m.attr) not in ok_here]
        for f in cls.methods.values():
            prog.consulted.add(f.relpath)
        run.obligation(rid, cls.name, True, key="scanned",
                       message="", loc="%s:%d" % (cls.module.relpath, cls.node.lineno),
                       sample={"class": cls.name, "methods_scanned": nmeth,
                               "stored_results_found": [repr(m) for m in memos],
                               "accepted": [ok_here[(m.func.short, m.attr)] for m in memos if (m.func.short, m.attr) in ok_here]})
        total += 1 + len(live)
    return total
