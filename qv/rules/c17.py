"""C17 - population (master-equation) dynamics conserve and match the
exponential.

Decided statically: set_rate keeps zero column sums and the assigned value
(TA on its three stores); _propagate_short_exp is the Taylor scheme around
p -> K p, which conserves sum(p) iff the columns of K sum to zero (TA with
that fact); get_PropagationMatrix is identity-started, steps with
S.diag(exp(lambda*step)).S^-1 on the sub-axis and applies the start offset
once; the initial populations are not mutated.  Not decided: non-negativity
for admissible steps and closeness to expm (magnitudes).
"""
import ast

from ..loader import AnalysisError, norm, walk_no_nested, call_name
from .. import ta
from ..ta import Expr, Array, Facts, normal, show_normal
from ..ta_front import Interp, Obj, Index
from . import taylor, c02
from .c08 import eval_with

RM = "quantarhei.qm.liouvillespace.rates.ratematrix.RateMatrix"
PP = "quantarhei.qm.propagators.poppropagator.PopulationPropagator"


def check(run, prog, tier):
    run.explanation = (
        "TA interpretation of RateMatrix.set_rate (column sums and assigned value as identities), "
        "Taylor-step recogniser plus conservation identity on the population propagator, structural "
        "and TA rules on get_PropagationMatrix (identity start, spectral exponential, recurrence, "
        "single application of the start offset, guard by is_subset_of), ownership rule on the "
        "initial populations. Not decided: sign of populations, distance to the matrix exponential.")
    run.trusted_base = ["numpy.linalg.eig/inv semantics (K = S diag(lambda) S^-1)",
                        "qv/ta_front.py model of numpy.dot/diag/eye"]
    run.rule("C17-A", "set_rate keeps zero column sums and the assigned off-diagonal value (TA)", minimum=5)
    run.rule("C17-B", "short-exponential population steps: Taylor scheme, sum conserved iff columns sum to zero", minimum=9)
    run.rule("C17-C", "propagation matrix: identity start, spectral exponential, recurrence, offset once", minimum=7)
    run.rule("C17-D", "initial populations are not mutated", minimum=2)
    rule_A(run, prog)
    rule_B(run, prog)
    rule_C(run, prog)
    rule_D(run, prog)


def rule_A(run, prog):
    rid = "C17-A"
    f = prog.func(RM + ".set_rate")
    body = [s for s in f.node.body if not (isinstance(s, ast.Expr) and isinstance(s.value, ast.Constant))]
    # refusal of the diagonal case precedes every store
    first_store = min([s.lineno for s in ast.walk(f.node) if isinstance(s, (ast.Assign, ast.AugAssign))
                       and isinstance(s.targets[0] if isinstance(s, ast.Assign) else s.target, ast.Subscript)]
                      or [10**9])
    guards = [s for s in body if isinstance(s, ast.If) and any(isinstance(x, ast.Raise) for x in s.body)
              and isinstance(s.test, ast.Compare) and isinstance(s.test.ops[0], ast.Eq)]
    ok = len(guards) == 1 and guards[0].lineno < first_store
    run.obligation(rid, "RateMatrix.set_rate", ok, key="diagonal-refused",
                   message="assignment of a diagonal rate must be refused before any store", loc=f.loc(),
                   sample={"guard": norm(guards[0].test) if guards else None})
    D = Array.opaque("D", 2)
    selfo = Obj("self", attrs={"data": D})

    def oracle(it, test, env):
        if guards and norm(test) == norm(guards[0].test):
            return False
        return None
    it = Interp(prog, lenient=False, branch_oracle=oracle)
    it.call_function(f, [(Index("#N"), Index("#M")), Expr.factor("value")], self_obj=selfo)
    new = selfo.get("data")
    distinct = Expr.const(1) - Expr.delta("#N", "#M")
    old = Expr.factor("D", ("$0", "$1"))
    # assigned value
    nf = normal((new.at("#N", "#M") - Expr.factor("value")) * distinct)
    run.obligation(rid, "RateMatrix.set_rate", not nf, key="assigned-value",
                   message="after set_rate the element [N,M] is not the given value: %s" % show_normal(nf, 3),
                   loc=f.loc(), sample={"identity": "K'[N,M] = value (N != M)"})
    # column sums unchanged for every column
    cs = (new.at("x", "j") - Expr.factor("D", ("x", "j"))).sum_over("x") * distinct
    nf = normal(cs)
    run.obligation(rid, "RateMatrix.set_rate", not nf, key="column-sums",
                   message="set_rate changes a column sum: %s" % show_normal(nf, 3), loc=f.loc(),
                   sample={"identity": "sum_x K'[x,j] = sum_x K[x,j] for every j",
                           "K'-K": show_normal(normal((new.at("i", "j") - Expr.factor("D", ("i", "j"))) * distinct), 4)})
    # only column M is touched
    ch = (new.at("i", "j") - Expr.factor("D", ("i", "j"))) * (Expr.const(1) - Expr.delta("j", "#M")) * distinct
    nf = normal(ch)
    run.obligation(rid, "RateMatrix.set_rate", not nf, key="one-column",
                   message="set_rate modifies elements outside column M: %s" % show_normal(nf, 3), loc=f.loc(),
                   sample={"identity": "K'[i,j] = K[i,j] for j != M"})
    # other off-diagonal elements of column M keep their value
    ch = (new.at("i", "#M") - Expr.factor("D", ("i", "#M"))) * (Expr.const(1) - Expr.delta("i", "#M")) * \
        (Expr.const(1) - Expr.delta("i", "#N")) * distinct
    nf = normal(ch)
    run.obligation(rid, "RateMatrix.set_rate", not nf, key="other-rates",
                   message="set_rate modifies another off-diagonal rate: %s" % show_normal(nf, 3), loc=f.loc(),
                   sample={"identity": "K'[i,M] = K[i,M] for i not in {N,M}"})
    # zero-initialised matrix
    init = prog.func(RM + ".__init__")
    z = [n for n in ast.walk(init.node) if isinstance(n, ast.Assign) and norm(n.targets[0]) == "self.data"
         and isinstance(n.value, ast.Call) and call_name(n.value) == "zeros"]
    run.obligation(rid, "RateMatrix.__init__", len(z) == 1, key="zero-start",
                   message="an empty rate matrix must start as zeros (zero column sums)", loc=init.loc())


def rule_B(run, prog):
    rid = "C17-B"
    f = prog.func(PP + "._propagate_short_exp")
    res = taylor.analyse(run, rid, prog, f, 1, free_ranks={"self.KK.data": 2})
    if len(res) != 1:
        raise AnalysisError("population propagator: expected one Taylor loop")
    x = res[0]
    if x.get("failed"):
        return
    (i0,) = x["idx"]
    y = x["y"]
    K = "A:self.KK.data"
    exp = (Expr.factor("dt") * Expr.factor("ll", (), False, -1) * Expr.factor(K, (i0, "k")) *
           Expr.factor("x:" + x["x1"], ("k",))).sum_over("k")
    nf = normal(y - exp)
    run.obligation(rid, x["construct"], not nf, key="map",
                   message="population step is not (dt/ll) K p: %s" % show_normal(nf, 3), loc=f.loc(x["loop"]),
                   sample={"identity": "G p = (dt/ll) K p"})
    tot = normal(y.sum_over(i0), Facts(colsum0=[K]))
    run.obligation(rid, x["construct"], not tot, key="conservation",
                   message="sum of populations is not conserved by one step even for zero column sums: %s"
                   % show_normal(tot, 3), loc=f.loc(x["loop"]),
                   sample={"identity": "sum_i (K p)_i = 0 given sum_i K[i,j] = 0"})
    tot2 = normal(y.sum_over(i0))
    run.obligation(rid, x["construct"], bool(tot2), key="needs-column-sums",
                   message="conservation identity holds without the column-sum fact: the fact is not "
                           "exercised (checker self-consistency)", loc=f.loc(x["loop"]))
    c02._step_rule.__globals__  # same module helpers
    ok = x["steps"] == ["self.dt"]
    run.obligation(rid, x["construct"], ok, key="step", message="step must be self.dt", loc=f.loc(x["loop"]))
    # slot 0 receives the initial populations
    st = [norm(s) for s in f.node.body]
    run.obligation(rid, "PopulationPropagator._propagate_short_exp", "pops[0, :] = pini" in st, key="slot0",
                   message="slot 0 of the result must be the initial populations", loc=f.loc())
    init = prog.func(PP + ".__init__")
    st = [norm(s) for s in ast.walk(init.node) if isinstance(s, ast.stmt)]
    ok = "self.dt = self.timeAxis.step" in st and "self.Nref = 1" in st and "self.Nt = self.timeAxis.length" in st
    run.obligation(rid, "PopulationPropagator.__init__", ok, key="step-setup",
                   message="propagator must take its step and length from its time axis with Nref=1",
                   loc=init.loc())


def rule_C(run, prog):
    rid = "C17-C"
    f = prog.func(PP + ".get_PropagationMatrix")
    top = [s for s in f.node.body if isinstance(s, ast.If)]
    ok = len(top) >= 1 and norm(top[0].test) == "timeaxis.is_subset_of(self.timeAxis)"
    run.obligation(rid, "PopulationPropagator.get_PropagationMatrix", ok, key="guard",
                   message="the sub-axis must be checked with is_subset_of before anything is computed",
                   loc=f.loc())
    if not ok:
        return
    blk = top[0].body
    st = {norm(s): s for s in ast.walk(ast.Module(body=blk, type_ignores=[])) if isinstance(s, ast.stmt)}
    ok = "U0 = numpy.eye(N)" in st and "U[:, :, 0] = U0" in st
    run.obligation(rid, "PopulationPropagator.get_PropagationMatrix", ok, key="identity-start",
                   message="propagation matrix must start from the identity (after the start offset)",
                   loc=f.loc())
    ok = "Kd, SS = numpy.linalg.eig(self.KK)" in st and "S1 = numpy.linalg.inv(SS)" in st
    run.obligation(rid, "PopulationPropagator.get_PropagationMatrix", ok, key="spectral",
                   message="the exponential must be built from eig(K) and the inverse of its eigenvector "
                           "matrix", loc=f.loc())
    # spectral exponential expressions
    S = Array.opaque("S", 2)
    S1 = Array.opaque("S1", 2)
    lam = Array.opaque("lam", 1)
    for name, step_text in (("expKd_step", "timeaxis.step"), ("expKd_dt", "dt")):
        asg = [s for s in st.values() if isinstance(s, ast.Assign) and norm(s.targets[0]) == name]
        if len(asg) != 1:
            raise AnalysisError("get_PropagationMatrix: assignment of %s not found" % name)
        v = eval_with(prog, f, asg[0].value, {"SS": S, "S1": S1, "Kd": lam, step_text: Expr.factor("h")})
        okv = isinstance(v, Array) and v.rank == 2
        detail = ""
        if okv:
            e = v.at("i", "j")
            # expected: sum_k S[i,k] * exp{lam[k]*h} * S1[k,j]
            fn = [n for n in e.names() if n.startswith("exp{")]
            okv = len(fn) == 1
            if okv:
                want = (S.at("i", "k") * Expr.factor(fn[0], ("k",)) * S1.at("k", "j")).sum_over("k")
                nf = normal(e - want)
                okv = not nf and "lam" in fn[0] and "h" in fn[0]
                detail = fn[0]
        run.obligation(rid, "PopulationPropagator.get_PropagationMatrix", okv, key="exp:" + name,
                       message="%s must be S . diag(exp(lambda * %s)) . S^-1" % (name, step_text), loc=f.loc(asg[0]),
                       sample={"expression": norm(asg[0].value), "exponent": detail})
    dtdef = [s for s in st.values() if isinstance(s, ast.Assign) and norm(s.targets[0]) == "dt"]
    ok = len(dtdef) == 1 and norm(dtdef[0].value) == "timeaxis.start - self.timeAxis.start"
    run.obligation(rid, "PopulationPropagator.get_PropagationMatrix", ok, key="offset-dt",
                   message="start offset must be timeaxis.start - self.timeAxis.start", loc=f.loc())
    # recurrence
    loops = [s for s in blk if isinstance(s, ast.For) and norm(s.iter) == "range(1, timeaxis.length)"]
    ok = len(loops) == 1 and [norm(s) for s in loops[0].body] == \
        ["U[:, :, %s] = numpy.dot(expKd_step, U[:, :, %s - 1])" % (loops[0].target.id, loops[0].target.id)]
    run.obligation(rid, "PopulationPropagator.get_PropagationMatrix", ok, key="recurrence",
                   message="U_i must be exp(K step) . U_{i-1} for i = 1 .. length-1", loc=f.loc(),
                   sample={"loop": norm(loops[0]) [:120] if loops else None})
    # offset applied once: exactly one of the two alternatives, under start mismatch
    off = [s for s in blk if isinstance(s, ast.If) and norm(s.test) == "self.timeAxis.start != timeaxis.start"]
    ok = len(off) == 1
    if ok:
        inner = [s for s in off[0].body if isinstance(s, ast.If)]
        ok = len(inner) == 1 and \
            norm(inner[0].test) == "timeaxis.start == self.timeAxis.start + Ns * timeaxis.step"
        if ok:
            a = [norm(s) for s in inner[0].body]
            b = [norm(s) for s in inner[0].orelse]
            ok = len(inner[0].body) == 1 and isinstance(inner[0].body[0], ast.For) and \
                norm(inner[0].body[0].iter) == "range(Ns)" and \
                [norm(s) for s in inner[0].body[0].body] == ["U0 = numpy.dot(expKd_step, U0)"] and \
                b[-1] == "U0 = numpy.dot(expKd_dt, U0)" and sum(1 for x in b if x.startswith("U0 =")) == 1
    run.obligation(rid, "PopulationPropagator.get_PropagationMatrix", ok, key="offset-once",
                   message="a shifted start must be bridged exactly once: Ns steps of exp(K step) when it "
                           "fits, otherwise one exp(K dt)", loc=f.loc())
    g = prog.func("quantarhei.core.valueaxis.ValueAxis.is_subset_of")
    stg = [norm(s) for s in g.node.body if not (isinstance(s, ast.Expr))]
    need = ["Nst = round(self.step / axis.step)", "ret = ret and Nst * axis.step == self.step",
            "ret = ret and (self.start in axis.data and self.start < axis.max)",
            "ret = ret and self.max in axis.data"]
    ok = all(n in stg for n in need)
    run.obligation(rid, "ValueAxis.is_subset_of", ok, key="subset",
                   message="is_subset_of must require an integer step ratio and both end points on the "
                           "parent axis", loc=g.loc(), sample={"statements": stg})


def rule_D(run, prog):
    f = prog.func(PP + "._propagate_short_exp")

    class Proxy:
        def __init__(self, run):
            self.run = run

        def obligation(self, rid, construct, ok, **kw):
            if "PopulationPropagator" in construct:
                self.run.obligation("C17-D", construct, ok, **kw)

        def __getattr__(self, name):
            return getattr(self.run, name)
    c02.rule_E(Proxy(run), prog, [f])
    st = [norm(s) for s in f.node.body]
    ok = "pops = numpy.zeros((Nt, pini.shape[0]))" in st
    run.obligation("C17-D", "PopulationPropagator._propagate_short_exp", ok, key="fresh-result",
                   message="the result array must be freshly allocated per call", loc=f.loc())
