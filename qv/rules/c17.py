"""C17 - population (master-equation) dynamics conserve and match the
exponential.

Decided statically: set_rate keeps zero column sums and the assigned value
(TA on its three stores); _propagate_short_exp is the Taylor scheme around
p -> K p, which conserves sum(p) iff the columns of K sum to zero (TA with
that fact); get_PropagationMatrix is identity-started, steps with
expm(K*step) on the sub-axis (a diagonalisation of K is reported: defective rate
matrices) and applies the start offset
once; the initial populations are not mutated.  Not decided: non-negativity
for admissible steps and closeness to expm (magnitudes).
"""
import ast

from ..loader import AnalysisError, norm, walk_no_nested, call_name
from .. import ta
from ..ta import Expr, Array, Facts, normal, show_normal
from ..ta_front import Interp, Obj, Index
from . import taylor, c02
from .c08 import eval_with

RM = "quantarhei.qm.liouvillespace.rates.ratematrix.RateMatrix"
PP = "quantarhei.qm.propagators.poppropagator.PopulationPropagator"


def check(run, prog, tier):
    run.explanation = (
        "TA interpretation of RateMatrix.set_rate (column sums and assigned value as identities), "
        "Taylor-step recogniser plus conservation identity on the population propagator, structural "
        "and TA rules on get_PropagationMatrix (identity start, matrix exponential that is defined for every rate matrix (no diagonalisation), recurrence, "
        "single application of the start offset, guard by is_subset_of), ownership rule on the "
        "initial populations. Not decided: sign of populations, distance to the matrix exponential.")
    run.trusted_base = ["scipy.linalg.expm is the matrix exponential",
                        "qv/ta_front.py model of numpy.dot/diag/eye"]
    run.rule("C17-E", "the propagation matrix and the populations are computed from the rate matrix and step in force (no exponential or decomposition kept across calls)", minimum=2)
    from . import memorule
    memorule.check(run, prog, "C17-E", ['quantarhei.qm.propagators.poppropagator.PopulationPropagator', 'quantarhei.qm.liouvillespace.rates.ratematrix.RateMatrix'],
                   "the matrix returned after an edit of the rates is the exponential of the old ones")
    run.rule("C17-A", "set_rate keeps zero column sums and the assigned off-diagonal value (TA)", minimum=5)
    run.rule("C17-B", "short-exponential population steps: Taylor scheme, sum conserved iff columns sum to zero", minimum=9)
    run.rule("C17-C", "propagation matrix: identity start, matrix exponential defined for every rate matrix, recurrence, offset once", minimum=7)
    run.rule("C17-D", "initial populations and the rate matrix are not mutated (also not through views of them)", minimum=6)
    run.rule("C17-H", "a time axis that was moved is still one axis: its array of points and its (start, step) description moved by "
                      "the same amount (rule of C13-G): the sub-axis test of get_PropagationMatrix reads the points, the offset of "
                      "the first step is computed from the starts", minimum=2)
    from . import axisrule
    axisrule.check(run, prog, "C17-H", "get_PropagationMatrix decides from the points whether the axis is a sub-axis and from the "
                                        "starts how far the first requested time lies from the propagator's first time")
    rule_A(run, prog)
    rule_A2(run, prog)
    rule_A3(run, prog)
    rule_B(run, prog)
    rule_C(run, prog)
    rule_D(run, prog)
    run.rule("C17-F", "the populations handed out depend linearly on the initial populations (degree analysis): no renormalisation, "
                      "clipping or added constant on the way from p(0) to p(t)", minimum=2)
    rule_F(run, prog)
    run.rule("C17-G", "whether a time axis is a sub-axis of the propagator's, and which of its points a time is, does not depend on "
                      "where the axes start: the comparisons and look-ups of ValueAxis use points through differences only "
                      "(affine typing, shared with C08-M)", minimum=7)
    from . import handout
    from ..report import RuleProxy
    handout.check_axis_lookup(RuleProxy(run, "C17-G"), "C17-G", prog)


def rule_F(run, prog):
    """'propagate() conserves the sum of populations and equals exp(K t) p0': both for every p0 - a block of a larger
    vector, particle numbers, a difference of two states.  exp(K t) p0 is linear in p0, so the value returned by
    propagate() must be of degree one in its argument.  The degree analysis (qv/lin.py) follows the statements of
    propagate and of the methods it calls; a division by sum(p), a clipping to [0, 1], an added offset give degree 'N'."""
    from .. import lin
    rid = "C17-F"
    cls = prog.cls(PP)
    n = 0
    for nme in ("propagate", "_propagate_short_exp"):
        f = cls.methods[nme]
        prog.consulted.add(f.relpath)
        par = f.node.args.args[1].arg
        dg = lin.Degrees(prog, cls)
        env = {a.arg: lin.C for a in f.node.args.args[1:]}
        env[par] = lin.L
        d = dg.run(f.node, env)
        n += 1
        at = dg.trace[0] if dg.trace else f.node
        run.obligation(rid, f.short, d == lin.L, key="linear-in-initial-populations",
                       message="%s returns a value of degree %s in %s (L = linear): `%s` is where linearity is lost.  The propagation "
                               "is then exp(K t) p0 only for initial vectors of one particular norm - a vector whose sum is not 1 "
                               "(a block of populations, particle numbers) comes back rescaled, its sum not conserved"
                               % (f.short, d, par, norm(at)[:70] if dg.trace else ""), loc=f.loc(at), sample={"degree": d})
    if n < 2:
        raise AnalysisError("C17-F: propagate and its short-exponential routine not found")


def rule_A(run, prog):
    rid = "C17-A"
    f = prog.func(RM + ".set_rate")
    body = [s for s in f.node.body if not (isinstance(s, ast.Expr) and isinstance(s.value, ast.Constant))]
    # refusal of the diagonal case precedes every store
    first_store = min([s.lineno for s in ast.walk(f.node) if isinstance(s, (ast.Assign, ast.AugAssign))
                       and isinstance(s.targets[0] if isinstance(s, ast.Assign) else s.target, ast.Subscript)]
                      or [10**9])
    guards = [s for s in body if isinstance(s, ast.If) and any(isinstance(x, ast.Raise) for x in s.body)
              and isinstance(s.test, ast.Compare) and isinstance(s.test.ops[0], ast.Eq)]
    ok = len(guards) == 1 and guards[0].lineno < first_store
    run.obligation(rid, "RateMatrix.set_rate", ok, key="diagonal-refused",
                   message="assignment of a diagonal rate must be refused before any store", loc=f.loc(),
                   sample={"guard": norm(guards[0].test) if guards else None})
    D = Array.opaque("D", 2)
    selfo = Obj("self", attrs={"data": D})

    def oracle(it, test, env):
        if guards and norm(test) == norm(guards[0].test):
            return False
        return None
    it = Interp(prog, lenient=False, branch_oracle=oracle)
    it.call_function(f, [(Index("#N"), Index("#M")), Expr.factor("value")], self_obj=selfo)
    new = selfo.get("data")
    distinct = Expr.const(1) - Expr.delta("#N", "#M")
    old = Expr.factor("D", ("$0", "$1"))
    # assigned value
    nf = normal((new.at("#N", "#M") - Expr.factor("value")) * distinct)
    run.obligation(rid, "RateMatrix.set_rate", not nf, key="assigned-value",
                   message="after set_rate the element [N,M] is not the given value: %s" % show_normal(nf, 3),
                   loc=f.loc(), sample={"identity": "K'[N,M] = value (N != M)"})
    # column sums unchanged for every column
    cs = (new.at("x", "j") - Expr.factor("D", ("x", "j"))).sum_over("x") * distinct
    nf = normal(cs)
    run.obligation(rid, "RateMatrix.set_rate", not nf, key="column-sums",
                   message="set_rate changes a column sum: %s" % show_normal(nf, 3), loc=f.loc(),
                   sample={"identity": "sum_x K'[x,j] = sum_x K[x,j] for every j",
                           "K'-K": show_normal(normal((new.at("i", "j") - Expr.factor("D", ("i", "j"))) * distinct), 4)})
    # only column M is touched
    ch = (new.at("i", "j") - Expr.factor("D", ("i", "j"))) * (Expr.const(1) - Expr.delta("j", "#M")) * distinct
    nf = normal(ch)
    run.obligation(rid, "RateMatrix.set_rate", not nf, key="one-column",
                   message="set_rate modifies elements outside column M: %s" % show_normal(nf, 3), loc=f.loc(),
                   sample={"identity": "K'[i,j] = K[i,j] for j != M"})
    # other off-diagonal elements of column M keep their value
    ch = (new.at("i", "#M") - Expr.factor("D", ("i", "#M"))) * (Expr.const(1) - Expr.delta("i", "#M")) * \
        (Expr.const(1) - Expr.delta("i", "#N")) * distinct
    nf = normal(ch)
    run.obligation(rid, "RateMatrix.set_rate", not nf, key="other-rates",
                   message="set_rate modifies another off-diagonal rate: %s" % show_normal(nf, 3), loc=f.loc(),
                   sample={"identity": "K'[i,M] = K[i,M] for i not in {N,M}"})
    # zero-initialised matrix
    init = prog.func(RM + ".__init__")
    z = [n for n in ast.walk(init.node) if isinstance(n, ast.Assign) and norm(n.targets[0]) == "self.data"
         and isinstance(n.value, ast.Call) and call_name(n.value) == "zeros"]
    run.obligation(rid, "RateMatrix.__init__", len(z) == 1, key="zero-start",
                   message="an empty rate matrix must start as zeros (zero column sums)", loc=init.loc())


def rule_B(run, prog):
    rid = "C17-B"
    f = prog.func(PP + "._propagate_short_exp")
    res = taylor.analyse(run, rid, prog, f, 1, free_ranks={"self.KK.data": 2})
    if len(res) != 1:
        raise AnalysisError("population propagator: expected one Taylor loop")
    x = res[0]
    if x.get("failed"):
        return
    (i0,) = x["idx"]
    y = x["y"]
    K = "A:self.KK.data"
    exp = (Expr.factor("dt") * Expr.factor("ll", (), False, -1) * Expr.factor(K, (i0, "k")) *
           Expr.factor("x:" + x["x1"], ("k",))).sum_over("k")
    nf = normal(y - exp)
    run.obligation(rid, x["construct"], not nf, key="map",
                   message="population step is not (dt/ll) K p: %s" % show_normal(nf, 3), loc=f.loc(x["loop"]),
                   sample={"identity": "G p = (dt/ll) K p"})
    tot = normal(y.sum_over(i0), Facts(colsum0=[K]))
    run.obligation(rid, x["construct"], not tot, key="conservation",
                   message="sum of populations is not conserved by one step even for zero column sums: %s"
                   % show_normal(tot, 3), loc=f.loc(x["loop"]),
                   sample={"identity": "sum_i (K p)_i = 0 given sum_i K[i,j] = 0"})
    tot2 = normal(y.sum_over(i0))
    run.obligation(rid, x["construct"], bool(tot2), key="needs-column-sums",
                   message="conservation identity holds without the column-sum fact: the fact is not "
                           "exercised (checker self-consistency)", loc=f.loc(x["loop"]))
    c02._step_rule.__globals__  # same module helpers
    ok = x["steps"] == ["self.dt"]
    run.obligation(rid, x["construct"], ok, key="step", message="step must be self.dt", loc=f.loc(x["loop"]))
    # slot 0 receives the initial populations
    st = [norm(s) for s in f.node.body]
    run.obligation(rid, "PopulationPropagator._propagate_short_exp", "pops[0, :] = pini" in st, key="slot0",
                   message="slot 0 of the result must be the initial populations", loc=f.loc())
    init = prog.func(PP + ".__init__")
    st = [norm(s) for s in ast.walk(init.node) if isinstance(s, ast.stmt)]
    ok = "self.dt = self.timeAxis.step" in st and "self.Nref = 1" in st and "self.Nt = self.timeAxis.length" in st
    run.obligation(rid, "PopulationPropagator.__init__", ok, key="step-setup",
                   message="propagator must take its step and length from its time axis with Nref=1",
                   loc=init.loc())


def rule_A2(run, prog):
    """'Keeps the assigned off-diagonal values': set_rate writes into self.data element-wise, so the array must be able to
    hold a rate (a real number) and must belong to this matrix alone.  Every store of self.data in the constructor is a
    fresh floating-point array: zeros with a float (or default) element type, or a float64 copy of what was given."""
    rid = "C17-A"
    cls = prog.cls("quantarhei.qm.liouvillespace.rates.ratematrix.RateMatrix")
    init = cls.methods["__init__"]
    prog.consulted.add(init.relpath)
    FLOATS = ("float", "numpy.float64", "REAL", "numpy.double", "'float64'")
    fresh = set()       # names bound to a fresh float array
    for n in walk_no_nested(init.node):
        if isinstance(n, ast.Assign) and isinstance(n.value, ast.Call) and call_name(n.value) in ("array", "zeros", "asfarray"):
            dt = [k.value for k in n.value.keywords if k.arg == "dtype"]
            copyfalse = any(k.arg == "copy" and isinstance(k.value, ast.Constant) and k.value.value is False for k in n.value.keywords)
            if ((dt and norm(dt[0]) in FLOATS) or (call_name(n.value) == "zeros" and not dt)) and not copyfalse:
                for t_ in n.targets:
                    fresh.add(norm(t_))
    stores = [n for n in walk_no_nested(init.node) if isinstance(n, ast.Assign) and any(norm(t_) == "self.data" for t_ in n.targets)]
    if not stores:
        raise AnalysisError("RateMatrix.__init__ no longer stores self.data")
    for st_ in stores:
        v = st_.value
        ok = norm(v) in fresh or (isinstance(v, ast.Call) and call_name(v) in ("array", "zeros") and (
            any(k.arg == "dtype" and norm(k.value) in FLOATS for k in v.keywords) or (call_name(v) == "zeros" and not any(k.arg == "dtype" for k in v.keywords))))
        # the name must have been rebound to the fresh array before this store
        if norm(v) in fresh:
            reb = [n for n in walk_no_nested(init.node) if isinstance(n, ast.Assign) and any(norm(t_) == norm(v) for t_ in n.targets)]
            ok = ok and all(r.lineno < st_.lineno for r in reb)
        run.obligation(rid, "RateMatrix.__init__", ok, key="own-float-array:" + norm(st_)[:40],
                       message="the constructor stores %s as the rate matrix: set_rate then writes into an array that keeps the "
                               "element type of what was given (whole numbers truncate the rates) and that the caller, or "
                               "another rate matrix, still holds" % norm(v), loc=init.loc(st_), sample={"store": norm(st_)})


def rule_A3(run, prog):
    """The same for every other way the array of a rate matrix is replaced: a method the class has (its own or inherited,
    `set_data` comes from MatrixData) that stores one of its parameters as self.data stores a float64 copy.  Otherwise
    `RM.set_data(numpy.zeros((2, 2), dtype=int)); RM.set_rate((0, 1), 0.5)` leaves all rates zero, and the matrix
    shares its array with the caller."""
    from .. import memo
    rid = "C17-A"
    cls = prog.cls("quantarhei.qm.liouvillespace.rates.ratematrix.RateMatrix")
    FLOATS = ("float", "numpy.float64", "REAL", "numpy.double", "'float64'")
    n = 0
    for nme, f in memo._class_methods(prog, cls).items():
        if nme == "__init__" or nme.startswith("_") or not hasattr(f.node, "args"):
            continue
        params = {a.arg for a in f.node.args.args[1:]}
        for st_ in walk_no_nested(f.node):
            if not (isinstance(st_, ast.Assign) and any(norm(t_) == "self.data" for t_ in st_.targets)):
                continue
            used = {y.id for y in ast.walk(st_.value) if isinstance(y, ast.Name)} & params
            if not used:
                continue
            n += 1
            prog.consulted.add(f.relpath)
            v = st_.value
            ok = isinstance(v, ast.Call) and call_name(v) == "array" and any(k.arg == "dtype" and norm(k.value) in FLOATS for k in v.keywords) \
                and not any(k.arg == "copy" and isinstance(k.value, ast.Constant) and k.value.value is False for k in v.keywords)
            run.obligation(rid, "RateMatrix.%s" % nme, ok, key="own-float-array:" + nme,
                           message="%s (a method of RateMatrix) stores its argument as the rate matrix (`%s`): the array keeps the element "
                                   "type of what was given - after set_data with whole numbers set_rate((0, 1), 0.5) stores 0 - and is "
                                   "shared with the caller" % (f.short, norm(st_)), loc=f.loc(st_), sample={"store": norm(st_)})
    if n < 1:
        raise AnalysisError("C17-A: no public method of RateMatrix replaces its array from an argument (set_data confirmed)")


def rule_C(run, prog):
    from .. import pat
    rid = "C17-C"
    f = prog.func(PP + ".get_PropagationMatrix")
    prm = [a_.arg for a_ in f.node.args.args if a_.arg != "self"]
    TA = prm[0] if prm else "timeaxis"
    top = [s_ for s_ in f.node.body if isinstance(s_, ast.If)]
    ok = len(top) >= 1 and norm(top[0].test) == "%s.is_subset_of(self.timeAxis)" % TA
    run.obligation(rid, "PopulationPropagator.get_PropagationMatrix", ok, key="guard",
                   message="the sub-axis must be checked with is_subset_of before anything is computed",
                   loc=f.loc())
    if not ok:
        return
    blk = top[0].body
    tx = [norm(s_) for s_ in blk]
    allst = [norm(s_) for s_ in ast.walk(ast.Module(body=blk, type_ignores=[])) if isinstance(s_, ast.stmt)]
    env0 = {"TA": TA}
    e, pos = pat.seq(tx, ["$U0 = numpy.eye($N)", "$U[:, :, 0] = $U0"], env0)
    run.obligation(rid, "PopulationPropagator.get_PropagationMatrix", e is not None, key="identity-start",
                   message="propagation matrix must start from the identity (after the start offset): %s"
                   % (pos if e is None else "ok"), loc=f.loc())
    if e is None:
        return
    # the exponential must be defined for every rate matrix: rate matrices are not normal and can be
    # defective (chain with equal rates), where eig + inverse of the eigenvector matrix is singular
    spectral = [norm(s_) for s_ in ast.walk(ast.Module(body=blk, type_ignores=[])) if isinstance(s_, ast.Assign)
                and isinstance(s_.value, ast.Call) and norm(s_.value.func) in ("numpy.linalg.eig", "numpy.linalg.eigh",
                                                                            "scipy.linalg.eig", "scipy.linalg.eigh")
                and "self.KK" in norm(s_.value)]
    run.obligation(rid, "PopulationPropagator.get_PropagationMatrix", not spectral, key="total-exponential",
                   message="exp(K t) is built from a diagonalisation of the rate matrix (%s): a rate matrix is not "
                           "normal and can be defective (sequential chain with equal rates); the eigenvector matrix "
                           "is then singular and the result is not the exponential" % spectral, loc=f.loc())
    if spectral:
        return
    # step exponential: the matrix applied in the recurrence
    loops = [s_ for s_ in blk if isinstance(s_, ast.For) and norm(s_.iter) == "range(1, %s.length)" % TA]
    ok = len(loops) == 1 and len(loops[0].body) == 1
    estep = None
    if ok:
        v = loops[0].target.id
        m_ = pat.match("$U[:, :, %s] = numpy.dot($ES, $U[:, :, %s - 1])" % (v, v), norm(loops[0].body[0]), e)
        ok = m_ is not None
        if ok:
            e = m_
            estep = e["ES"]
    run.obligation(rid, "PopulationPropagator.get_PropagationMatrix", ok, key="recurrence",
                   message="U_i must be exp(K step) . U_{i-1} for i = 1 .. length-1", loc=f.loc(),
                   sample={"loop": norm(loops[0])[:120] if loops else None})
    # offset: dt = sub-axis start - axis start; applied once
    kdt, e_dt = pat.find(allst, "$DT = %s.start - self.timeAxis.start" % TA, e)
    run.obligation(rid, "PopulationPropagator.get_PropagationMatrix", kdt is not None, key="offset-dt",
                   message="start offset must be the sub-axis start minus the propagator's axis start", loc=f.loc())
    exps = []
    if estep is not None:
        exps.append((estep, "%s.step" % TA))
    edt = None
    if kdt is not None:
        k2, e3 = pat.find(allst, "$U0 = numpy.dot($ED, $U0)", dict(e_dt))
        cands = [x for x in pat.find_all(allst, "$U0 = numpy.dot($ED, $U0)", dict(e_dt)) if x[1]["ED"] != estep]
        if cands:
            edt = cands[0][1]["ED"]
            exps.append((edt, e_dt["DT"]))
    for name, step_text in exps:
        asg = [s_ for s_ in ast.walk(ast.Module(body=blk, type_ignores=[])) if isinstance(s_, ast.Assign)
               and norm(s_.targets[0]) == name]
        okv = len(asg) == 1
        detail = ""
        if okv:
            v_ = asg[0].value
            okv = isinstance(v_, ast.Call) and prog.external_name(f, v_.func) in ("scipy.linalg.expm", "scipy.linalg.matfuncs.expm") \
                and len(v_.args) == 1 and not v_.keywords
            if okv:
                arg = norm(v_.args[0])
                okv = arg in ("self.KK * %s" % step_text, "%s * self.KK" % step_text)
                detail = arg
        run.obligation(rid, "PopulationPropagator.get_PropagationMatrix", bool(okv), key="exp:" + step_text,
                       message="the step matrix must be the matrix exponential expm(K * %s)" % step_text,
                       loc=f.loc(asg[0]) if asg else f.loc(),
                       sample={"expression": norm(asg[0].value) if asg else None, "exponent": detail})
    off = [s_ for s_ in blk if isinstance(s_, ast.If) and norm(s_.test) in ("self.timeAxis.start != %s.start" % TA,
                                                                         "%s.start != self.timeAxis.start" % TA)]
    ok = len(off) == 1 and estep is not None
    if ok:
        inner = [s_ for s_ in off[0].body if isinstance(s_, ast.If)]
        ok = len(inner) == 1
        if ok:
            nsdef = pat.find([norm(s_) for s_ in off[0].body],
                             "$NS = round((%s.start - self.timeAxis.start) / %s.step)" % (TA, TA), e)
            ok = nsdef[0] is not None
            if ok:
                en = nsdef[1]
                ok = pat.match("%s.start == self.timeAxis.start + $NS * %s.step" % (TA, TA), norm(inner[0].test), en) is not None
                ok = ok and len(inner[0].body) == 1 and isinstance(inner[0].body[0], ast.For) and \
                    pat.match("range($NS)", norm(inner[0].body[0].iter), en) is not None and \
                    [norm(s_) for s_ in inner[0].body[0].body] == ["%s = numpy.dot(%s, %s)" % (e["U0"], estep, e["U0"])]
                bb = [norm(s_) for s_ in inner[0].orelse]
                ok = ok and edt is not None and bb and bb[-1] == "%s = numpy.dot(%s, %s)" % (e["U0"], edt, e["U0"]) and \
                    sum(1 for x in bb if x.startswith(e["U0"] + " =")) == 1
    run.obligation(rid, "PopulationPropagator.get_PropagationMatrix", bool(ok), key="offset-once",
                   message="a shifted start must be bridged exactly once: Ns steps of exp(K step) when it "
                           "fits, otherwise one exp(K dt)", loc=f.loc())
    g = prog.func("quantarhei.core.valueaxis.ValueAxis.is_subset_of")
    ax = [a_.arg for a_ in g.node.args.args if a_.arg != "self"][0]
    stg = [norm(s_) for s_ in g.node.body if not (isinstance(s_, ast.Expr))]
    e, pos = pat.seq(stg, ["$R = True", "$NST = round(self.step / %s.step)" % ax,
                           "$R = $R and $NST * %s.step == self.step" % ax], {}, ordered=False)
    ok = e is not None and \
        pat.find(stg, "$R = $R and (self.start in %s.data and self.start < %s.max)" % (ax, ax), e)[0] is not None and \
        pat.find(stg, "$R = $R and self.max in %s.data" % ax, e)[0] is not None and \
        pat.find(stg, "return $R", e)[0] is not None
    run.obligation(rid, "ValueAxis.is_subset_of", ok, key="subset",
                   message="is_subset_of must require an integer step ratio and both end points on the "
                           "parent axis", loc=g.loc(), sample={"statements": stg})


def rule_D(run, prog):
    f = prog.func(PP + "._propagate_short_exp")

    class Proxy:
        def __init__(self, run):
            self.run = run

        def obligation(self, rid, construct, ok, **kw):
            if "PopulationPropagator" in construct:
                self.run.obligation("C17-D", construct, ok, **kw)

        def __getattr__(self, name):
            return getattr(self.run, name)
    c02.rule_E(Proxy(run), prog, [f])
    # the result is a fresh floating-point array: its dtype must not be taken from the input
    # (integer initial populations would truncate every stored step)
    rets = [n for n in f.node.body if isinstance(n, ast.Return) and isinstance(n.value, ast.Name)]
    ok = len(rets) == 1
    detail = None
    if ok:
        res = rets[0].value.id
        allocs = [n for n in f.node.body if isinstance(n, ast.Assign) and norm(n.targets[0]) == res]
        ok = len(allocs) == 1 and isinstance(allocs[0].value, ast.Call) and call_name(allocs[0].value) == "zeros"
        if ok:
            c = allocs[0].value
            dt = [k.value for k in c.keywords if k.arg == "dtype"] + list(c.args[1:2])
            detail = norm(dt[0]) if dt else "(default float64)"
            ok = (not dt) or detail in ("float", "numpy.float64", "REAL", "qr.REAL", "numpy.double", "'float64'")
    # no method of the propagator writes into the rate matrix it was given or into an argument: the constructor keeps
    # the caller's array (rate_matrix.data) without a copy, so a write into self.KK - also through numpy.asarray(),
    # a slice or .T, which return the same storage - edits the caller's rates and every later result
    from .. import arrays
    cls = prog.cls(PP)
    nchecked = 0
    for nme, fn in sorted(cls.methods.items()):
        if nme == "__init__":
            continue
        prog.consulted.add(fn.relpath)
        params = [a.arg for a in fn.node.args.args if a.arg != "self"]
        roots = {"self.KK"} | set(params)
        al = arrays.aliases(fn.node, roots)
        eff = arrays.inplace_effects(fn.node, al, roots={"self.KK"})
        # writes into a parameter itself (not rebound first) count too
        rebound = {t.id for n in walk_no_nested(fn.node) if isinstance(n, ast.Assign) for t in n.targets
                   if isinstance(t, ast.Name) and t.id in params and not arrays._is_root(n.value, roots, al)}
        eff += [e for e in arrays.inplace_effects(fn.node, set(params) - rebound) if e not in eff]
        nchecked += 1
        run.obligation("C17-D", fn.short, not eff, key="inputs-intact",
                       message="%s writes in place into the rate matrix or an argument, or into an array that may share "
                               "their storage (%s; aliases: %s): the caller's rates / populations are changed and later "
                               "calls start from them" % (fn.short, [t for _, t in eff][:3], sorted(al)),
                       loc=fn.loc(eff[0][0]) if eff else fn.loc(), sample={"method": fn.short, "aliases": sorted(al)})
    if nchecked < 4:
        raise AnalysisError("C17-D: only %d methods of the population propagator found" % nchecked)
    run.obligation("C17-D", "PopulationPropagator._propagate_short_exp", ok, key="fresh-float-result",
                   message="the result array must be freshly allocated per call as a floating-point array, "
                           "independent of the dtype of the initial populations (found dtype %s)" % detail, loc=f.loc(),
                   sample={"result_dtype": detail})
