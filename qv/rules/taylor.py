"""Taylor-step recogniser shared by C02 / C16 / C17.

A propagation routine integrates d x/dt = G x by the order-L expansion

    for ll in range(1, L+1):  x1 <- (dt/ll) G(x1) [+ source];  x2 <- x2 + x1
    x1 <- x2

inside a refinement loop inside a time loop, storing x2 once per outer step.
The recogniser finds these loops in the parsed function, interprets ONE
iteration of the body with the index algebra (loop counter, step, iterate and
all operators opaque) and decides:

  range     the counter runs over range(1, L+1) with L the routine's parameter
  linear    every term of the new iterate that contains the running iterate
            contains it exactly once and carries dt^1 * ll^-1 exactly; terms
            without the iterate are listed as sources
  accum     x2_new = x2_old + x1_new
  restart   directly after the loop x1 <- x2 (optionally after one post-step
            map x2 <- f(.., x2))
  nesting   counter loop inside refinement loop inside time loop; the stored
            slot receives x2 once per outer step and the slot index advances
            by one per outer step, starting at 1
"""
import ast

from ..loader import AnalysisError, norm, FuncInfo, walk_no_nested, parents_map, call_name
from .. import ta
from ..ta import Expr, Array, Facts, normal, show_normal
from ..ta_front import Interp, Obj, Unknown, Index

# parameter ranks of the module-level helpers of rdmpropagator ("s" = scalar)
HELPER_RANKS = {
    "_COM": {"HH": 2, "rho1": 2},
    "_TTI": {"rhoY": 2, "RR": 4, "IR": 2, "rho1": 2},
    "_OTI": {"rhoY": 2, "Km": 3, "Kd": 3, "Lm": 3, "Ld": 3, "rho1": 2},
}


def _flows_to_divisor(prog, func, loop):
    v = loop.target.id if isinstance(loop.target, ast.Name) else None
    if v is None:
        return False
    for n in ast.walk(loop):
        if isinstance(n, ast.BinOp) and isinstance(n.op, ast.Div):
            if any(isinstance(x, ast.Name) and x.id == v for x in ast.walk(n.right)):
                return True
        if isinstance(n, ast.Call):
            for t in prog.resolve_call(func, n, may=False):
                params = [a.arg for a in t.node.args.args]
                if t.cls is not None:
                    params = params[1:]
                for k, a in enumerate(n.args):
                    if isinstance(a, ast.Name) and a.id == v and k < len(params):
                        p = params[k]
                        if t.name in HELPER_RANKS and p == "ll":
                            return True
                        for m in ast.walk(t.node):
                            if isinstance(m, ast.BinOp) and isinstance(m.op, ast.Div) and \
                                    any(isinstance(x, ast.Name) and x.id == p for x in ast.walk(m.right)):
                                return True
    return False


def find_taylor_loops(prog, func):
    """Innermost For loops whose counter flows to a divisor."""
    out = []
    pm = parents_map(func.node)

    def cand(n):
        if _flows_to_divisor(prog, func, n):
            return True
        # fallback: innermost range-loop nested in another loop that carries
        # two variables one of which is updated as X = X + Y
        nested = any(isinstance(p, (ast.For, ast.While)) for p in _ancestors(pm, n))
        if not nested or any(isinstance(m, ast.For) for m in ast.walk(n) if m is not n):
            return False
        car = _carried(n)
        acc = [s for s in n.body if isinstance(s, ast.Assign) and isinstance(s.targets[0], ast.Name)
               and isinstance(s.value, ast.BinOp) and isinstance(s.value.op, ast.Add)
               and isinstance(s.value.left, ast.Name) and s.value.left.id == s.targets[0].id]
        return len(car) == 2 and bool(acc)
    for n in walk_no_nested(func.node):
        if isinstance(n, ast.For) and isinstance(n.iter, ast.Call) and call_name(n.iter) == "range":
            if cand(n):
                inner = [m for m in ast.walk(n) if m is not n and isinstance(m, ast.For)
                         and _flows_to_divisor(prog, func, m)]
                if not inner:
                    out.append(n)
    return out


def _ancestors(pm, n):
    p = pm.get(n)
    while p is not None:
        yield p
        p = pm.get(p)


def _carried(loop):
    """Names read before they are written in one pass over the body and also
    written in the body (loop-carried variables), in order of first read."""
    written = set()
    carried = []
    reads_first = []
    inner_targets = set()

    def visit_expr(e):
        for n in ast.walk(e):
            if isinstance(n, ast.Name) and isinstance(n.ctx, ast.Load) and n.id not in written:
                if n.id not in reads_first:
                    reads_first.append(n.id)

    def visit(st):
        if isinstance(st, ast.Assign):
            visit_expr(st.value)
            for t in st.targets:
                if isinstance(t, ast.Name):
                    written.add(t.id)
                else:
                    visit_expr(t)
        elif isinstance(st, ast.AugAssign):
            visit_expr(st.value)
            visit_expr(st.target)
            if isinstance(st.target, ast.Name):
                if st.target.id not in written and st.target.id not in reads_first:
                    reads_first.append(st.target.id)
                written.add(st.target.id)
        elif isinstance(st, ast.Expr):
            visit_expr(st.value)
        elif isinstance(st, ast.For):
            visit_expr(st.iter)
            for n in ast.walk(st.target):
                if isinstance(n, ast.Name):
                    written.add(n.id)
                    inner_targets.add(n.id)
            for s in st.body:
                visit(s)
        elif isinstance(st, ast.If):
            visit_expr(st.test)
            for s in st.body + st.orelse:
                visit(s)
    for st in loop.body:
        visit(st)
    all_written = set()
    for n in ast.walk(loop):
        if isinstance(n, ast.Name) and isinstance(n.ctx, ast.Store):
            all_written.add(n.id)
    if isinstance(loop.target, ast.Name):
        all_written.discard(loop.target.id)
    return [r for r in reads_first if r in all_written and r not in inner_targets]


def _is_L_plus_1(node, params):
    if isinstance(node, ast.BinOp) and isinstance(node.op, ast.Add):
        l, r = node.left, node.right
        for a, b in ((l, r), (r, l)):
            if isinstance(a, ast.Name) and a.id in params and isinstance(b, ast.Constant) and b.value == 1:
                return a.id
    return None


def analyse(run, rid, prog, func, iterate_rank, step_exprs=("self.dt", "dt"), free_ranks=None,
            call_hook=None, branch_oracle=None, expect_sources=(), facts_builder=None,
            identities=None, extra_env=None):
    """Apply the recogniser to every Taylor loop of ``func``.  Returns a list
    of dicts describing each loop (for evidence and for further obligations).
    """
    free_ranks = dict(free_ranks or {})
    loops = find_taylor_loops(prog, func)
    prog.consulted.add(func.relpath)
    pm = parents_map(func.node)
    params = [a.arg for a in func.node.args.args]
    results = []
    for k, loop in enumerate(loops):
        construct = "%s:taylor-loop#%d" % (func.short, k + 1)
        loc = func.loc(loop)
        cnt = loop.target.id

        def ob(ok, key, msg, sample=None):
            run.obligation(rid, construct, ok, key=key, message=msg, loc=loc,
                           sample=sample or {"loop": construct, "clause": key})
        # ---- range
        a = loop.iter.args
        Lname = _is_L_plus_1(a[1], params) if len(a) == 2 else None
        ok = len(a) == 2 and isinstance(a[0], ast.Constant) and a[0].value == 1 and Lname is not None
        ob(ok, "range", "expansion counter must run over range(1, L+1) with L the routine's order "
           "parameter; found %s" % norm(loop.iter))
        # ---- carried variables
        car = _carried(loop)
        ob(len(car) == 2, "carried", "an expansion loop carries exactly two variables (running iterate "
           "and accumulator); found %s" % car)
        if len(car) != 2:
            results.append({"construct": construct, "loop": loop, "failed": True})
            continue
        # ---- interpret one iteration
        env = {}
        selfo = Obj("self", cls=func.cls)
        env["self"] = selfo
        env[cnt] = Expr.factor("ll")
        if Lname:
            env[Lname] = Expr.factor("L")
        arrs = {}
        for nm in car:
            arrs[nm] = Array.opaque("x:" + nm, iterate_rank)
            env[nm] = arrs[nm]
        if extra_env:
            env.update(extra_env(selfo))
        # ranks of free names from helper signatures
        declared = {}

        def declare(expr, rank):
            base = expr
            extra = 0
            while isinstance(base, ast.Subscript):
                sl = base.slice
                elts = sl.elts if isinstance(sl, ast.Tuple) else [sl]
                extra += sum(1 for e in elts if not isinstance(e, ast.Slice))
                base = base.value
            key = norm(base)
            if isinstance(base, ast.Name) and base.id in car:
                return
            if isinstance(base, (ast.Name, ast.Attribute)) and key not in declared:
                declared[key] = rank + extra
        written_in_body = {n.id for n in ast.walk(loop) if isinstance(n, ast.Name)
                           and isinstance(n.ctx, ast.Store)}
        for n in ast.walk(loop):
            if isinstance(n, ast.Call):
                for t in prog.resolve_call(func, n, may=False):
                    hr = HELPER_RANKS.get(t.name)
                    if hr is None or t.cls is not None:
                        continue
                    ps = [x.arg for x in t.node.args.args]
                    for i, aexp in enumerate(n.args):
                        if i < len(ps) and ps[i] in hr:
                            declare(aexp, hr[ps[i]])
                ext = prog.external_name(func, n.func)
                if ext == "numpy.dot" and len(n.args) == 2:
                    for aexp in n.args:
                        if isinstance(aexp, (ast.Name, ast.Attribute)) and norm(aexp) not in car:
                            declare(aexp, 2)
        for key, rank in free_ranks.items():
            declared[key] = rank
        attr_arrays = {}
        for key, rank in declared.items():
            if key in written_in_body or key in env:
                continue
            arr = Array.opaque("A:" + key, rank)
            if "." in key:
                attr_arrays[key] = arr
            else:
                env[key] = arr
        step_names = set()

        def provider(obj, attr):
            full = "%s.%s" % (obj.name, attr)
            if full in attr_arrays:
                return attr_arrays[full]
            if full in step_exprs:
                step_names.add(full)
                return Expr.factor("dt")
            for kk in attr_arrays:
                if kk.startswith(full + "."):
                    return Obj(full, provider=provider)
            return None
        selfo.provider = provider
        for s in step_exprs:
            if "." not in s and s not in env:
                env[s] = Expr.factor("dt")
        it = Interp(prog, lenient=False, branch_oracle=branch_oracle, call_hook=call_hook,
                    inline_depth=4)
        it.stack.append(func)
        try:
            it.exec_body(loop.body, env)
        finally:
            it.stack.pop()
        new = {nm: env.get(nm) for nm in car}
        for nm, v in new.items():
            if not isinstance(v, Array):
                raise AnalysisError("%s: carried variable %s not algebraic after one iteration (%r)"
                                    % (construct, nm, v))
        idx = ["i%d" % j for j in range(iterate_rank)]
        # ---- which is the accumulator
        x1n = x2n = None
        for cand2 in car:
            cand1 = [c for c in car if c != cand2][0]
            d = new[cand2].at(*idx) - Expr.factor("x:" + cand2, tuple(idx)) - new[cand1].at(*idx)
            if not normal(d):
                x1n, x2n = cand1, cand2
        ob(x2n is not None, "accum",
           "no carried variable is updated as accumulator_new = accumulator_old + iterate_new "
           "(carried: %s)" % car)
        if x2n is None:
            results.append({"construct": construct, "loop": loop, "failed": True})
            continue
        y = new[x1n].at(*idx)
        nf = normal(y)
        xname = "x:" + x1n
        bad = []
        sources = []
        nlin = 0
        for (key, nd), c in nf.items():
            fs, ds = key
            nx = sum(1 for f in fs if f[0] == xname)
            if any(f[0] == "x:" + x2n for f in fs):
                bad.append("term uses the accumulator: %s" % (fs,))
                continue
            if nx == 0:
                sources.append(show_normal({(key, nd): c})[0])
                continue
            pw = {f[0]: f[3] for f in fs if not f[1]}
            if nx != 1 or pw.get("dt", 0) != 1 or pw.get("ll", 0) != -1:
                bad.append(show_normal({(key, nd): c})[0])
            else:
                nlin += 1
        ob(not bad and nlin > 0, "linear",
           "every term of the new iterate that contains the running iterate must contain it once "
           "and carry the factor dt/ll exactly once; offending terms: %s" % bad[:3],
           sample={"loop": construct, "linear_terms": nlin, "sources": sources[:3],
                   "example": show_normal(nf, 2)})
        unexpected = [s for s in sources if not any(e in s for e in expect_sources)]
        ob(not unexpected, "sources",
           "terms of the new iterate that do not contain the running iterate (sources) must be among "
           "the known inhomogeneous terms %s; found %s" % (list(expect_sources), unexpected[:3]))
        # ---- step expression
        used_steps = set(step_names)
        for n in ast.walk(loop):
            if isinstance(n, ast.Name) and n.id in step_exprs and isinstance(n.ctx, ast.Load):
                used_steps.add(n.id)
        # ---- restart
        parent = pm.get(loop)
        body = None
        for fld in ("body", "orelse"):
            b = getattr(parent, fld, None)
            if isinstance(b, list) and loop in b:
                body = b
        after = body[body.index(loop) + 1:] if body else []
        post = None
        j = 0
        def _post_map(st):
            return isinstance(st, ast.Assign) and norm(st.targets[0]) == x2n and isinstance(st.value, ast.Call) and \
                any(isinstance(a, ast.Name) and a.id == x2n for a in st.value.args)
        if after and _post_map(after[0]):
            post = norm(after[0].value.func)
            j = 1
        elif after and isinstance(after[0], ast.If) and not after[0].orelse and len(after[0].body) == 1 \
                and _post_map(after[0].body[0]) \
                and not any(isinstance(x, ast.Name) and x.id in (x1n, x2n) for x in ast.walk(after[0].test)):
            # the post-step map is applied only when the object has the component it belongs to
            post = "if %s: %s" % (norm(after[0].test), norm(after[0].body[0].value.func))
            j = 1
        ok = len(after) > j and isinstance(after[j], ast.Assign) and norm(after[j].targets[0]) == x1n \
            and norm(after[j].value) == x2n
        # nothing may change the accumulator or the iterate between the restart and the next expansion:
        # the next sub-step must start from the value that is stored
        if ok:
            for st in after[j + 1:]:
                for x in ast.walk(st):
                    if isinstance(x, ast.Name) and isinstance(x.ctx, ast.Store) and x.id in (x1n, x2n):
                        ok = False
        ob(ok, "restart", "directly after the expansion loop the iterate must be restarted from the "
                          "accumulator (%s = %s), optionally after one post-step map" % (x1n, x2n),
           sample={"loop": construct, "post_step_map": post})
        # ---- nesting
        chain = []
        p = parent
        while p is not None and p is not func.node:
            if isinstance(p, (ast.For, ast.While)):
                chain.append(p)
            p = pm.get(p)
        time_loop = chain[-1] if chain else None
        ref_loop = chain[0] if len(chain) >= 2 else None
        ok_nest = time_loop is not None and len(chain) <= 2
        tl_ok = False
        if time_loop is not None and isinstance(time_loop, ast.For):
            t = norm(time_loop.iter)
            tl_ok = t in ("range(1, self.Nt)",) or (t.endswith(".data[1:self.Nt]"))
        rl_ok = True
        if ref_loop is not None:
            rl_ok = isinstance(ref_loop, ast.For) and norm(ref_loop.iter) in ("range(0, self.Nref)",
                                                                             "range(self.Nref)")
        ob(ok_nest and tl_ok and rl_ok, "nesting",
           "expansion loop must sit inside (an optional refinement loop over range(self.Nref) inside) "
           "the time loop over the Nt-1 stored steps; found loops: %s" % [norm(c.iter) if isinstance(c, ast.For) else "while" for c in chain])
        # ---- store once per outer step, slot index advances by one
        st_ok = False
        adv_ok = False
        init_ok = False
        slot = None
        if time_loop is not None:
            tb = time_loop.body
            stores = [s for s in tb if isinstance(s, ast.Assign) and isinstance(s.targets[0], ast.Subscript)
                      and any(isinstance(n, ast.Name) and n.id == x2n for n in ast.walk(s.value))]
            # stores nested in if/else at the top level of the time loop count as one per path
            for s in tb:
                if isinstance(s, ast.If):
                    br = [[x for x in blk if isinstance(x, ast.Assign) and isinstance(x.targets[0], ast.Subscript)
                           and any(isinstance(n, ast.Name) and n.id == x2n for n in ast.walk(x.value))]
                          for blk in (s.body, s.orelse)]
                    if all(len(b) == 1 for b in br):
                        stores.append(br[0][0])
            if stores:
                sub = stores[0].targets[0].slice
                first = sub.elts[0] if isinstance(sub, ast.Tuple) else sub
                if isinstance(first, ast.Name):
                    slot = first.id
                    st_ok = tb.index(stores[0]) > tb.index(ref_loop if ref_loop is not None else loop) \
                        if (stores[0] in tb and (ref_loop or loop) in tb) else True
                    advs = [s for s in tb if isinstance(s, ast.AugAssign) and norm(s.target) == slot]
                    adv_ok = len(advs) == 1 and isinstance(advs[0].op, ast.Add) and \
                        isinstance(advs[0].value, ast.Constant) and advs[0].value.value == 1
                    anyadv = [s for s in ast.walk(time_loop) if isinstance(s, ast.AugAssign)
                              and norm(s.target) == slot]
                    adv_ok = adv_ok and len(anyadv) == 1
                    # initialisation: slot = 1 before the time loop
                    # nearest preceding assignment of the slot counter, walking
                    # outwards through the enclosing statement lists
                    node = time_loop
                    found = None
                    while node is not None and found is None:
                        par = pm.get(node)
                        for fld in ("body", "orelse", "finalbody"):
                            b = getattr(par, fld, None)
                            if isinstance(b, list) and node in b:
                                for s in reversed(b[:b.index(node)]):
                                    if isinstance(s, ast.Assign) and norm(s.targets[0]) == slot:
                                        found = s
                                        break
                                    if any(isinstance(n, (ast.Assign, ast.AugAssign)) and
                                           norm(n.targets[0] if isinstance(n, ast.Assign) else n.target) == slot
                                           for n in ast.walk(s)):
                                        found = False
                                        break
                        if par is func.node:
                            break
                        node = par
                    init_ok = bool(found) and isinstance(found.value, ast.Constant) \
                        and found.value.value == 1
        ob(st_ok and adv_ok and init_ok, "store",
           "the accumulator must be stored once per outer step into the slot indexed by a counter "
           "that starts at 1 and advances by exactly one per outer step (store=%s advance=%s init=%s)"
           % (st_ok, adv_ok, init_ok), sample={"loop": construct, "slot_counter": slot})
        results.append({"construct": construct, "loop": loop, "x1": x1n, "x2": x2n, "y": y,
                        "idx": idx, "interp": it, "sources": sources, "steps": sorted(used_steps),
                        "post": post, "env": env, "arrs": arrs, "self": selfo})
    return results
