"""Calculators compute in internal units (shared by C02, C05, C06, C07, C16).

A calculator combines energies with times in femtoseconds and with kB in internal units.  The numbers
it gets from units-converting accessors (the units-managed data of a Hamiltonian and what is derived
from it, converting getters such as get_reorganization_energy, evaluation of a function of frequency
at a point) are in the units current for *its caller* unless the read happens under
``with energy_units("int")``.  Rule: every such read of a calculator class is lexically inside an
internal-units block, or lies in a private helper every call site of which (within the class and
its bases) is protected in the same sense.  This is a necessary condition for the calculator's
result not to depend on the units context it is called from; what the calculator computes with the
numbers is decided by the other rules of the property.

The accessor sets are derived from the tree on every run (qv/unitflow.py): property factories of
utils.types whose getter returns convert_2_current_u(...), the class attributes made with them, and
the methods every definition of which returns a value computed from a converted number.
"""
from ..loader import AnalysisError
from .. import unitflow


def check_classes(run, prog, rid, classes, min_sites, consequence):
    """classes: qualified names; min_sites: number of converting reads confirmed by hand (floor)"""
    total = 0
    for q in classes:
        cls = prog.cls(q)
        cr = unitflow.CalculatorReads(prog, cls)
        seen = {}
        for fn, node, desc, prot in cr.sites:
            prog.consulted.add(fn.relpath)
            k = (fn.short, desc)
            seen[k] = seen.get(k, 0) + 1
            key = "int-units:%s%s" % (desc, "" if seen[k] == 1 else "#%d" % seen[k])
            total += 1
            how = {"block": "inside an energy_units('int') block",
                   "callers": "private helper, every call site protected"}.get(prot)
            run.obligation(rid, fn.short, prot is not None, key=key,
                           message="%s reads %s outside energy_units('int') and is reachable from a call made in the "
                                   "caller's units: inside an energy units context the number is in the user's units "
                                   "while %s" % (fn.short, desc, consequence),
                           loc=fn.loc(node), sample={"class": cls.name, "read": desc, "in": fn.short, "protected": how})
    if total < min_sites:
        raise AnalysisError("%s: %d converting reads found in %s, %d confirmed by hand"
                            % (rid, total, [c.split(".")[-1] for c in classes], min_sites))
    return total
