"""C04 - basis-change contexts are transparent and self-restoring.

Decided statically: the enter/exit protocol of eigenbasis_of (B1), that
contexts can only be entered through ``with`` (B2), that managed classes tag
themselves at birth (B3), that every transform() obeys one covariant,
invertible law on every managed storage (B4, index algebra with the single
fact S1.S = 1), and that the property factories transform before touching
storage (B5).
"""
import ast

from ..loader import (AnalysisError, norm, calls_in, call_name, walk_no_nested, ClassInfo,
                      FuncInfo, parents_map, enclosing_all, dotted)
from ..ta import Expr, Array, Facts, normal, show_normal, a_dot
from ..ta_front import Interp, Obj, Unknown

MGR = "quantarhei.core.managers."
LS = "quantarhei.qm.liouvillespace."
HS = "quantarhei.qm.hilbertspace."

# classes whose __init__ does not tag the object, confirmed by reading
B3_EXCEPTIONS = {
    "DensityMatrixEvolution": "first .data access happens on an all-zero array: lazy adoption of "
                              "the current basis transforms zeros (harmless)",
    "ReducedDensityMatrixEvolution": "inherits DensityMatrixEvolution.__init__ (same reason)",
    "StateVectorEvolution": "first .data access happens on an all-zero array (same reason)",
    "BasisManaged": "abstract base",
}


def check(run, prog, tier):
    run.explanation = (
        "Protocol rules on the AST/CFG of eigenbasis_of.__enter__/__exit__ and Manager, a "
        "package-wide who-may-call scan, a birth-tagging rule over all BasisManaged classes, and "
        "index-algebra (TA) proofs that every transform() method maps operators as S^-1.A.S and "
        "tensors covariantly (R'rho' = (R rho)') and is undone by the inverse pair, using only "
        "S1.S = 1. Decides the structural part of transparency and restoration; not the numerical "
        "round-trip error or properties of numpy.linalg.eigh.")
    run.trusted_base = ["'with' guarantees __exit__ (Python semantics)",
                        "numpy.linalg.inv(S) is the inverse of S",
                        "qv/ta_front.py model of numpy.dot and slice assignment"]
    run.rule("C04-B1", "stack discipline of eigenbasis_of.__enter__/__exit__", minimum=12)
    run.rule("C04-B2", "contexts are only entered with 'with'; stack only touched by the manager",
             minimum=20)
    run.rule("C04-B3", "every BasisManaged class tags itself at birth", minimum=25)
    run.rule("C04-B4", "one covariant, invertible transformation law for all transform() methods (TA)",
             minimum=20)
    run.rule("C04-B5", "managed properties transform before touching storage", minimum=7)
    rule_B1(run, prog)
    rule_B2(run, prog, tier)
    rule_B3(run, prog)
    rule_B4(run, prog)
    rule_B5(run, prog)
    run.rule("C04-B6", "a basis-managed property stays one in every subclass (no class body rebinds its name to a plain value)",
             minimum=20)
    rule_B6(run, prog)
    run.rule("C04-B8", "a transform() that writes the transformed values back into existing storage first makes the storage able "
                       "to hold them (whole numbers, real storage under a complex transformation matrix)", minimum=10)
    rule_B8(run, prog)
    run.rule("C04-B9", "the system-bath operators (plain arrays given in the site basis) are combined with basis-managed data only "
                       "where the basis in force is established", minimum=6)
    rule_B9(run, prog)
    run.rule("C04-B14", "what is assigned to a basis-managed attribute is computed from managed reads (no raw storage of managed "
                        "attributes in the same method)", minimum=15)
    rule_B14(run, prog)
    run.rule("C04-B13", "the stack of basis ids and the stack of transformation matrices are pushed and popped together", minimum=3)
    rule_B13(run, prog)
    run.rule("C04-B15", "entering a basis context either succeeds or leaves the manager as it was: everything __enter__ asks of the "
                        "operator it was given (its basis, its diagonalisation) comes before the first change of the manager's "
                        "bookkeeping - `with` does not call __exit__ when __enter__ raises", minimum=2)
    rule_B15(run, prog)
    run.rule("C04-B16", "a question put to a basis-managed object inside a context is answered for the basis of the context: methods "
                        "that return a value and change nothing read the managed property, not the raw storage (which may still "
                        "be in the basis the object was last read in)", minimum=2)
    rule_B16(run, prog)
    run.rule("C04-B17", "every basis-managed object is transformed on its own: a managed object that a method builds from the data of "
                        "`self` (data=...) gets an array of its own - not a slice / view of self.data or self._data, directly or "
                        "through an accessor of the same class that returns one (the setter keeps what it is given; two objects on "
                        "one storage are transformed twice in a context and written through outside)", minimum=1)
    rule_B17(run, prog)
    run.rule("C04-B12", "arithmetic between basis-managed objects reads the other operand through its managed property", minimum=2)
    rule_B12(run, prog)
    run.rule("C04-B11", "a managed object created inside a method from the data of self owns its array (objects created inside a "
                        "context come back in their original representation)", minimum=3)
    from . import handout
    handout.check_created_from_own_data(run, "C04-B11", prog)
    run.rule("C04-B10", "basis-managed classes keep nothing computed from their managed data across a change of basis (stored "
                        "results are reset by transform())", minimum=6)
    from . import memorule
    LSQ = "quantarhei.qm.liouvillespace."
    memorule.check(run, prog, "C04-B10", [LSQ + "redfieldtensor.RedfieldRelaxationTensor", LSQ + "tdredfieldtensor.TDRedfieldRelaxationTensor",
                                          LSQ + "lindbladform.LindbladForm", LSQ + "relaxationtensor.RelaxationTensor",
                                          LSQ + "superoperator.SuperOperator", "quantarhei.qm.hilbertspace.operators.Operator",
                                          "quantarhei.qm.hilbertspace.hamiltonian.Hamiltonian", "quantarhei.qm.hilbertspace.dmoment.TransitionDipoleMoment"],
                   "the object then presents parts of itself in different bases inside a context")
    run.rule("C04-B7", "a state handed out by at() of an evolution owns its data (it is basis-managed on its own)", minimum=2)
    from . import handout
    for q, ctor in (("quantarhei.qm.propagators.dmevolution.DensityMatrixEvolution", "DensityMatrix"),
                    ("quantarhei.qm.propagators.dmevolution.ReducedDensityMatrixEvolution", "ReducedDensityMatrix")):
        handout.check_owned(run, "C04-B7", prog, prog.cls(q), ctor, "tr(A rho) then differs inside and outside the context")


# ----------------------------------------------------------------------
def _top_level(func):
    return [s for s in func.node.body
            if not (isinstance(s, ast.Expr) and isinstance(s.value, ast.Constant))]


def _is_toplevel_stmt_containing(func, pred):
    """statements of the function body (not nested in if/for/try) containing
    a node satisfying pred"""
    out = []
    for st in _top_level(func):
        if isinstance(st, (ast.If, ast.For, ast.While, ast.Try, ast.With)):
            continue
        if any(pred(n) for n in ast.walk(st)):
            out.append(st)
    return out


def _attr_call(n, attr_chain_suffix):
    return isinstance(n, ast.Call) and (dotted(n.func) or "").endswith(attr_chain_suffix)


B16_ACCEPTED = {
    "SelfAdjointOperator.get_diagonalization_matrix":
        "called by eigenbasis_of.__enter__ right after the operator was brought to the current basis (C04-B15 orders the two)",
    "TransitionDipoleMoment.check_selfadjoint":
        "self-adjointness does not depend on the (unitary) representation the storage is in",
}


def rule_B16(run, prog):
    """'... every observable read inside the context refers to the basis of the context': the change of basis of an object
    is carried out when its managed property is read.  A method that only answers a question (no store to self, returns a
    value) and looks at `self._data` before any read of `self.data` answers for whatever basis the storage was left in."""
    from .. import memo
    rid = "C04-B16"
    n = 0
    for cls in prog.all_classes():
        if ".tests." in cls.module.name or ".wizard." in cls.module.name or not prog.is_subclass(cls, "BasisManaged"):
            continue
        mb = memo.basis_managed_attributes(prog, cls)
        if not mb:
            continue
        for nme, f in cls.methods.items():
            if not isinstance(f.node, ast.FunctionDef) or nme.startswith("_") or nme == "transform":
                continue
            if memo.attrs_written(f.node):
                continue                       # changes the object: not a question
            if not any(isinstance(x, ast.Return) and x.value is not None for x in walk_no_nested(f.node)):
                continue
            raw = [x for x in walk_no_nested(f.node) if isinstance(x, ast.Attribute) and norm(x.value) == "self"
                   and x.attr.startswith("_") and x.attr[1:] in mb and isinstance(x.ctx, ast.Load)]
            if not raw:
                continue
            n += 1
            prog.consulted.add(f.relpath)
            managed_first = any(isinstance(x, ast.Attribute) and norm(x.value) == "self" and x.attr in mb
                                and x.lineno <= raw[0].lineno for x in walk_no_nested(f.node))
            ok = managed_first or f.short in B16_ACCEPTED
            run.obligation(rid, f.short, ok, key="managed-read",
                           message="%s answers from `self.%s` without reading the managed property first: inside a basis context "
                                   "the storage may still be in the basis the object was last read in, and the answer is the one for "
                                   "that basis" % (f.short, raw[0].attr), loc=f.loc(raw[0]),
                           sample={"accepted": B16_ACCEPTED.get(f.short)})
    if n < 2:
        raise AnalysisError("C04-B16: only %d value-returning methods that read raw managed storage found" % n)


def rule_B15(run, prog):
    """'Leaving the block - normally or by an exception - restores every object ...': an exception raised *inside __enter__*
    (an operator without get_diagonalization_matrix, a failing decomposition) is not followed by __exit__.  Statements of
    __enter__ in order: a 'fallible' statement calls a method of self.op or manager.transform_to_current_basis; an 'effect'
    assigns an attribute of self.manager, calls a store_*/set_new_basis/push method of the manager or appends to a backup
    list of the context object.  No fallible statement after the first effect."""
    rid = "C04-B15"
    f = prog.func("quantarhei.core.managers.eigenbasis_of.__enter__")
    prog.consulted.add(f.relpath)
    first_effect = None
    n = 0
    flat = []

    def flatten(stmts):
        for st in stmts:
            if isinstance(st, (ast.If, ast.With, ast.For, ast.While, ast.Try)):
                # the test of an `if` may itself call the operator
                if isinstance(st, (ast.If, ast.While)):
                    flat.append(ast.Expr(value=st.test, lineno=st.lineno, col_offset=st.col_offset))
                for fld in ("body", "orelse", "finalbody"):
                    flatten(getattr(st, fld, []) or [])
            else:
                flat.append(st)
    flatten(f.node.body)
    for st in flat:
        eff = fal = None
        for x in ast.walk(st):
            if isinstance(x, ast.Assign) and any(isinstance(t_, ast.Attribute) and norm(t_.value) == "self.manager" for t_ in x.targets):
                eff = x
            if isinstance(x, ast.Call) and isinstance(x.func, ast.Attribute):
                recv = norm(x.func.value)
                if recv == "self.manager" and (x.func.attr.startswith("store_") or x.func.attr in ("set_new_basis",)):
                    eff = x
                if recv.startswith("self._") and x.func.attr in ("append", "insert"):
                    eff = x
                if recv == "self.op" or (recv == "self.manager" and x.func.attr == "transform_to_current_basis"):
                    fal = x
        if fal is not None:
            n += 1
            run.obligation(rid, f.short, first_effect is None, key="fallible:" + norm(fal)[:50],
                           message="__enter__ calls `%s` after it has changed the bookkeeping (`%s`): when the call raises - an "
                                   "operator that cannot be diagonalised - no __exit__ follows, the manager stays 'inside a basis "
                                   "context' with this operator as the one that defines the basis, and functions that refuse to run "
                                   "inside a context refuse from then on" % (norm(fal)[:60], norm(first_effect)[:60] if first_effect is not None else ""),
                           loc=f.loc(fal))
        if eff is not None and first_effect is None:
            first_effect = eff
    if n < 2:
        raise AnalysisError("C04-B15: only %d calls on the operator found in eigenbasis_of.__enter__" % n)


def rule_B1(run, prog):
    """Protocol of the context manager, with metavariables for local names ($X): the rule
    follows the values (which stack entry is popped, which matrix is inverted, which basis id
    objects are re-tagged with), not the spelling of the local variables."""
    from .. import pat
    rid = "C04-B1"
    ent = prog.func(MGR + "eigenbasis_of.__enter__")
    ext = prog.func(MGR + "eigenbasis_of.__exit__")
    snb = prog.func(MGR + "Manager.set_new_basis")

    def ob(construct, ok, key, msg, f, sample=None):
        run.obligation(rid, construct, ok, key=key, message=msg, loc=f.loc(),
                       sample=sample or {"construct": construct, "clause": key})

    # ---- __enter__
    etl = _top_level(ent)
    etx = [norm(s) for s in etl]
    calls = [n for n in walk_no_nested(ent.node) if _attr_call(n, "manager.set_new_basis")]
    env, pos = pat.seq(etx, ["$SS = self.op.get_diagonalization_matrix()", "self.manager.set_new_basis($SS)"])
    ob("eigenbasis_of.__enter__", len(calls) == 1 and env is not None, "one-push",
       "__enter__ must push, exactly once and unconditionally, the diagonalisation matrix of its operator "
       "(manager.set_new_basis(op.get_diagonalization_matrix())): %s" % (pos if env is None else "ok"), ent)
    ob("eigenbasis_of.__enter__", not [n for n in walk_no_nested(ent.node) if isinstance(n, (ast.Return, ast.Raise))],
       "no-early-exit", "__enter__ must not return/raise before the push", ent)
    ob("eigenbasis_of.__enter__", any(_attr_call(n, "manager.transform_to_current_basis")
                                      for n in walk_no_nested(ent.node)), "op-current",
       "__enter__ must bring the operator to the current basis before diagonalising", ent)

    # ---- the matrix pushed: eigenvectors from eigh of the operator's current data, on every path
    # (eigh returns ascending eigenvalues; any other source - identity for an "already diagonal"
    # operator, eig, a cached matrix - loses the ascending order or the current representation)
    providers = []
    for m_ in prog.modules.values():
        for c_ in m_.classes.values():
            if "get_diagonalization_matrix" in c_.methods:
                providers.append(c_.methods["get_diagonalization_matrix"])
    if not providers:
        raise AnalysisError("no class defines get_diagonalization_matrix")
    for g in providers:
        body = [s_ for s_ in g.node.body if not (isinstance(s_, ast.Expr) and isinstance(s_.value, ast.Constant))]
        gtx = [norm(s_) for s_ in body]
        rets = [n for n in walk_no_nested(g.node) if isinstance(n, ast.Return)]
        envd = None
        for src in ("self._data", "self.data"):
            envd, posd = pat.seq(gtx, ["$DD, $SS = numpy.linalg.eigh(%s)" % src, "return $SS"])
            if envd is not None:
                break
        good = envd is not None and len(rets) == 1 and len(body) == 2
        if not good and len(body) == 1 and len(rets) == 1:
            good = gtx[0] in ("return numpy.linalg.eigh(self._data)[1]", "return numpy.linalg.eigh(self.data)[1]")
        ob(g.short, good, "diagonaliser-is-eigh",
           "the diagonalisation matrix must be, on every path, the eigenvector matrix returned by "
           "numpy.linalg.eigh of the operator's data (ascending eigenvalues, current representation); found %d "
           "return(s) in %d statement(s): %s" % (len(rets), len(body), gtx[:3]), g)

    # ---- set_new_basis: three pushes under a fresh id = current + 1
    stx = [norm(s) for s in _top_level(snb)]
    env, pos = pat.seq(stx, ["$NB = self.get_current_basis() + 1", "self.basis_stack.append($NB)"])
    ob("Manager.set_new_basis", env is not None, "fresh-id",
       "new basis id must be current id + 1 and pushed on the basis stack", snb)
    env = env or {}
    prm = [a.arg for a in snb.node.args.args if a.arg != "self"]
    e2 = dict(env)
    if prm:
        e2["P"] = prm[0]
    ob("Manager.set_new_basis", pat.find(stx, "self.basis_transformations.append($P)", e2)[0] is not None,
       "push-transformation", "the transformation passed in must be pushed on basis_transformations", snb)
    ob("Manager.set_new_basis", pat.find(stx, "self.basis_registered[$NB] = []", e2)[0] is not None,
       "push-registry", "an empty registry must be created for the new basis id", snb)

    # ---- __exit__
    tl = _top_level(ext)
    tx = [norm(s) for s in tl]
    pops = [n for n in walk_no_nested(ext.node) if _attr_call(n, "basis_stack.pop")]
    popt = [n for n in walk_no_nested(ext.node) if _attr_call(n, "basis_transformations.pop")]
    env = {}
    k1, env = pat.find(tx, "$BB = self.manager.basis_stack.pop()", env)
    ob("eigenbasis_of.__exit__", len(pops) == 1 and k1 is not None, "pop-stack",
       "__exit__ must pop basis_stack exactly once, unconditionally", ext)
    k2, env = pat.find(tx, "$SS = self.manager.basis_transformations.pop()", env)
    ob("eigenbasis_of.__exit__", len(popt) == 1 and k2 is not None, "pop-transformations",
       "__exit__ must pop basis_transformations exactly once, unconditionally", ext)
    # Nothing may cut the restoration short.  A transform() of a registered object can raise (an object created inside
    # the context that holds no data yet): the only try allowed wraps exactly that call, its handler only records the
    # exception, and the only raise re-raises the recorded exception as the last statement of __exit__ - after the
    # other objects, the registry, the basis operator and the flag are back.
    tries = [n for n in walk_no_nested(ext.node) if isinstance(n, ast.Try)]
    raises = [n for n in walk_no_nested(ext.node) if isinstance(n, ast.Raise)]
    rets = [n for n in walk_no_nested(ext.node) if isinstance(n, ast.Return)]
    recorded = None
    try_ok = True
    for tr in tries:
        body_ok = len(tr.body) == 1 and isinstance(tr.body[0], ast.Expr) and isinstance(tr.body[0].value, ast.Call) \
            and isinstance(tr.body[0].value.func, ast.Attribute) and tr.body[0].value.func.attr == "transform"
        h_ok = len(tr.handlers) == 1 and tr.handlers[0].name is not None and not tr.orelse and not tr.finalbody
        if h_ok:
            hb = tr.handlers[0].body
            names = [norm(t_) for x in hb for n in ast.walk(x) if isinstance(n, ast.Assign) for t_ in n.targets
                     if norm(n.value) == tr.handlers[0].name]
            esc = [n for x in hb for n in ast.walk(x) if isinstance(n, (ast.Raise, ast.Return, ast.Break, ast.Continue))]
            h_ok = len(set(names)) == 1 and not esc
            if h_ok:
                recorded = names[0]
        try_ok = try_ok and body_ok and h_ok
    last = tl[-1] if tl else None
    reraise_ok = (not tries and not raises) or (
        recorded is not None and len(raises) == 1 and isinstance(last, ast.If) and norm(last.test) == "%s is not None" % recorded
        and [norm(x) for x in last.body] == ["raise %s" % recorded] and not last.orelse)
    ob("eigenbasis_of.__exit__", not rets and try_ok and reraise_ok,
       "no-early-exit", "__exit__ must not return a value (would swallow exceptions) or leave before the restoration is "
                        "complete: a try may only wrap the transform() of one registered object and record its exception, "
                        "which is re-raised by the last statement of __exit__", ext)
    # the new top of the stack (after the pop)
    knb = None
    for form in (["$BSS = len(self.manager.basis_stack)", "$NB = self.manager.basis_stack[$BSS - 1]"],
                 ["$NB = self.manager.basis_stack[len(self.manager.basis_stack) - 1]"],
                 ["$NB = self.manager.basis_stack[-1]"], ["$NB = self.manager.get_current_basis()"]):
        e, pos = pat.seq(tx, form, env)
        if e is not None and k1 is not None and pos[0] > k1:
            env, knb = e, pos[-1]
            break
    ob("eigenbasis_of.__exit__", knb is not None, "new-top",
       "the basis objects are re-tagged with must be the top of the stack after the pop", ext)
    ks1 = None
    # the inverse: numerical inversion, or the conjugate transpose (the pushed matrix is the unitary
    # eigenvector matrix of a self-adjoint operator)
    for form in ("$S1 = numpy.linalg.inv($SS)", "$S1 = scipy.linalg.inv($SS)",
                 "$S1 = numpy.conj(numpy.transpose($SS))", "$S1 = numpy.transpose(numpy.conj($SS))",
                 "$S1 = $SS.conj().T", "$S1 = $SS.T.conj()"):
        ks1, e_ = pat.find(tx, form, env)
        if ks1 is not None:
            env = e_
            break
    ob("eigenbasis_of.__exit__", ks1 is not None and k2 is not None and ks1 > k2, "inverse",
       "__exit__ must transform back with the inverse of the popped transformation", ext)
    kdel, env = pat.find(tx, "del self.manager.basis_registered[$BB]", env)
    ob("eigenbasis_of.__exit__", kdel is not None, "registry-deleted",
       "__exit__ must delete the registry of the basis it leaves, unconditionally", ext)
    # the operator that defines the current basis is part of the bookkeeping that must be "back in its previous state":
    # __enter__ saves what the manager held (one slot per entry: a context object can be entered again) before it
    # stores its own operator, __exit__ hands the saved one back; creating a context object changes nothing
    init_ = prog.func(MGR + "eigenbasis_of.__init__")
    touches_early = [norm(n_) for n_ in ast.walk(init_.node) if isinstance(n_, ast.Call)
                     and call_name(n_) in ("store_current_basis_operator", "remove_current_basis_operator")]
    ob("eigenbasis_of.__init__", not touches_early, "basis-op-at-entry",
       "creating the context object already changes the manager's current basis operator (%s): with context objects "
       "created ahead of entry the wrong operator is recorded" % touches_early, init_)
    saved = None
    for n_ in walk_no_nested(ent.node):
        if isinstance(n_, ast.Call) and isinstance(n_.func, ast.Attribute) and n_.func.attr == "append" and n_.args \
                and norm(n_.args[0]) == "self.manager.current_basis_operator":
            saved = norm(n_.func.value)
    stores = [n_ for n_ in walk_no_nested(ent.node) if isinstance(n_, ast.Call) and call_name(n_) == "store_current_basis_operator"
              and [norm(a_) for a_ in n_.args] == ["self.op"]]
    ob("eigenbasis_of.__enter__", saved is not None and len(stores) == 1, "basis-op-saved",
       "__enter__ must save the manager's current basis operator (per entry) and then store its own", ent)
    restored = saved is not None and any(isinstance(n_, ast.Call) and call_name(n_) == "store_current_basis_operator"
                                         and [norm(a_) for a_ in n_.args] == ["%s.pop()" % saved] for s_ in tl for n_ in ast.walk(s_))
    wiped = any(isinstance(n_, ast.Call) and call_name(n_) == "remove_current_basis_operator" for n_ in ast.walk(ext.node))
    ob("eigenbasis_of.__exit__", restored and not wiped, "basis-op-restored",
       "__exit__ must hand back the basis operator that was current before the context was entered (unconditionally, at "
       "the top level of __exit__); clearing it leaves the enclosing context without its operator", ext)
    # restore loop
    loops = [s for s in tl if isinstance(s, ast.For)]
    ok_loop = False
    detail = "no loop over the registered objects"
    kloop = None
    for lp in loops:
        it = norm(lp.iter)
        e = dict(env)
        reg = pat.match("self.manager.basis_registered[$BB]", it, e)
        if reg is None and isinstance(lp.iter, ast.Name):
            kk, e2 = pat.find(tx, "%s = self.manager.basis_registered[$BB]" % lp.iter.id, e)
            reg = e2 if kk is not None else None
        if reg is None or not isinstance(lp.target, ast.Name):
            continue
        e = dict(reg)
        e["OP"] = lp.target.id
        lb = [norm(s_) for s_ in lp.body]
        c1 = pat.find(lb, "$OP.set_current_basis($NB)", e)[0] is not None
        def _tr_stmt(b_):
            # the transform statement itself, or the try that wraps exactly it (handler checked above)
            if isinstance(b_, ast.Try) and len(b_.body) == 1:
                b_ = b_.body[0]
            return norm(b_)
        c2 = any(isinstance(s_, ast.If) and pat.match("not $OP.is_basis_protected", norm(s_.test), e) is not None
                 and len(s_.body) == 1 and pat.match("$OP.transform($S1, inv=$SS)", _tr_stmt(s_.body[0]), e) is not None
                 and not s_.orelse for s_ in lp.body)
        c3 = any(isinstance(s_, ast.If) and pat.match("$NB != 0", norm(s_.test), e) is not None
                 and any(isinstance(n, ast.Call) and pat.match("self.manager.register_with_basis($NB, $OP)", norm(n), e)
                         is not None for n in ast.walk(s_)) for s_ in lp.body)
        esc = [x for x in ast.walk(lp) if isinstance(x, (ast.Break, ast.Continue))]
        ok_loop = c1 and c2 and c3 and not esc
        detail = "retag=%s transform-back=%s reregister=%s no-escape=%s" % (c1, c2, c3, not esc)
        kloop = tl.index(lp)
        break
    ob("eigenbasis_of.__exit__", ok_loop, "restore-loop",
       "__exit__ must, for every registered object: transform it back with (S1, inv=SS) unless "
       "protected, re-tag it with the new top basis id unconditionally, and re-register it one "
       "level up when that level is not 0 (%s)" % detail, ext)
    ob("eigenbasis_of.__exit__", bool(tries) and try_ok and recorded is not None, "failing-transform-contained",
       "a transform() that raises for one registered object (one created inside the context without data) leaves __exit__ "
       "at once: the objects after it stay in the basis that is left, the registry and the basis operator are not "
       "restored and _in_eigenbasis_of_context stays set", ext)
    flag = [s_ for s_ in tl if isinstance(s_, ast.If) and norm(s_.test) == "len(self.manager.basis_stack) == 1"
            and [norm(x) for x in s_.body] == ["self.manager._in_eigenbasis_of_context = False"] and not s_.orelse]
    ob("eigenbasis_of.__exit__", len(flag) == 1, "flag-cleared",
       "_in_eigenbasis_of_context must be cleared iff the stack is back to depth 1", ext)
    order = [k1, ks1, kloop, kdel]
    ob("eigenbasis_of.__exit__", all(o is not None for o in order) and order == sorted(order), "order",
       "__exit__ must pop, invert, restore objects and only then delete the registry", ext)


# ----------------------------------------------------------------------
ALLOWED_STACK_TOUCHERS = {"Manager", "eigenbasis_of"}


def rule_B2(run, prog, tier):
    rid = "C04-B2"
    eb = prog.cls(MGR + "eigenbasis_of")
    n_with = 0
    for f in prog.all_functions():
        pm = None
        for call in calls_in(f.node):
            nm = call_name(call)
            cls_name = f.cls.name if f.cls is not None else None
            if nm in ("__enter__", "__exit__"):
                # explicit protocol calls are only allowed via super() inside a context manager
                okc = isinstance(call.func, ast.Attribute) and isinstance(call.func.value, ast.Call) \
                    and call_name(call.func.value) == "super"
                run.obligation(rid, f.qualname, okc, key="explicit-%s" % nm,
                               message="explicit call of %s outside a 'with' statement" % nm,
                               loc=f.loc(call))
            if nm in ("set_new_basis",) or (isinstance(call.func, ast.Attribute) and
                                            (dotted(call.func) or "").split(".")[-2:-1] in
                                            (["basis_stack"], ["basis_transformations"]) and
                                            nm in ("pop", "append", "insert", "clear", "remove")):
                run.obligation(rid, f.qualname, cls_name in ALLOWED_STACK_TOUCHERS, key="stack-" + nm,
                               message="basis stack manipulated outside Manager/eigenbasis_of",
                               loc=f.loc(call), sample={"site": f.qualname, "call": norm(call.func)})
            if isinstance(call.func, ast.Name):
                r = prog.resolve_name(f.module, call.func.id, f)
            elif isinstance(call.func, ast.Attribute):
                r = prog.resolve_expr(f.module, call.func, f)
            else:
                r = None
            if r is eb:
                if pm is None:
                    pm = parents_map(f.node)
                par = pm.get(call)
                as_with = isinstance(par, ast.withitem) and par.context_expr is call
                as_factory = isinstance(par, ast.Return) and f.qualname.endswith("PureDephasing._eigenbasis")
                n_with += 1
                run.obligation(rid, f.qualname, as_with or as_factory, key="with:" + norm(call)[:50],
                               message="eigenbasis_of(...) constructed outside a 'with' item "
                                       "(exit is then not guaranteed)", loc=f.loc(call),
                               sample={"site": f.qualname, "use": "with-item" if as_with else "factory for with"})
        # stores to the registry / stacks
        for n in walk_no_nested(f.node):
            tgt = None
            if isinstance(n, ast.Assign):
                tgt = n.targets
            elif isinstance(n, ast.AugAssign):
                tgt = [n.target]
            elif isinstance(n, ast.Delete):
                tgt = n.targets
            for t in tgt or []:
                d = norm(t)
                if any(k in d for k in ("basis_registered", "basis_stack", "basis_transformations")):
                    cls_name = f.cls.name if f.cls is not None else None
                    run.obligation(rid, f.qualname, cls_name in ALLOWED_STACK_TOUCHERS, key="store:" + d[:50],
                                   message="basis bookkeeping written outside Manager/eigenbasis_of",
                                   loc=f.loc(n))
    # module-level code (scripts, examples inside the package) may also construct contexts
    for m in prog.modules.values():
        for n in ast.walk(m.tree):
            if isinstance(n, ast.With):
                pass
    if n_with < 10:
        raise AnalysisError("only %d eigenbasis_of uses resolved; resolver broken?" % n_with)


# ----------------------------------------------------------------------
def _init_closure_tags(prog, c, depth=4):
    seen = set()

    def visit(f, d):
        if f is None or f.qualname in seen or d < 0:
            return False
        seen.add(f.qualname)
        for call in calls_in(f.node):
            if call_name(call) == "set_current_basis" and call.args:
                return True
        for call in calls_in(f.node):
            fn = call.func
            if isinstance(fn, ast.Attribute):
                t = None
                if isinstance(fn.value, ast.Name) and fn.value.id == "self":
                    t = prog.find_method(c, fn.attr)
                elif isinstance(fn.value, ast.Call) and call_name(fn.value) == "super":
                    t = prog.find_method(c, fn.attr, after=f.cls)
                else:
                    r = prog.resolve_expr(f.module, fn, f)
                    if isinstance(r, FuncInfo):
                        t = r
                if t is not None and visit(t, d - 1):
                    return True
        return False
    init = prog.find_method(c, "__init__")
    return init, visit(init, depth)


def rule_B3(run, prog):
    rid = "C04-B3"
    for c in sorted(prog.subclasses_of("BasisManaged"), key=lambda c: c.qualname):
        if c.module.name.endswith("_test"):
            continue
        init, ok = _init_closure_tags(prog, c)
        if c.name in B3_EXCEPTIONS:
            run.obligation(rid, c.qualname, not ok, key="exception-still-needed",
                           message="class is listed as a confirmed exception of the birth-tagging "
                                   "rule but now tags itself: remove it from the table", loc=c.module.relpath,
                           sample={"class": c.name, "exception": B3_EXCEPTIONS[c.name]})
            continue
        run.obligation(rid, c.qualname, ok, key="tag-at-birth",
                       message="BasisManaged class %s does not tag itself with the manager's current "
                               "basis in its constructor (call closure of __init__, depth 4): an "
                               "object created inside a context is treated as if it were in basis 0"
                               % c.name,
                       loc="%s:%d" % (c.module.relpath, c.node.lineno),
                       sample={"class": c.name, "init": init.qualname if init else None})


    # objects that come into being as copies: copy.copy() of a basis-managed object inherits the basis label of the
    # original but is unknown to the manager.  Where the library makes such a copy and then uses it as an operator
    # (assigns its managed data), it must register it, otherwise it is not transformed back when the context closes
    ncopies = 0
    for f in prog.all_functions():
        if ".tests." in f.qualname or ".wizard." in f.qualname or not f.module.name.startswith("quantarhei.qm"):
            continue
        copies = {}
        for n in walk_no_nested(f.node):
            if isinstance(n, ast.Assign) and len(n.targets) == 1 and isinstance(n.targets[0], ast.Name) \
                    and isinstance(n.value, ast.Call) and norm(n.value.func) in ("copy.copy", "copy.deepcopy"):
                copies[n.targets[0].id] = n
        for var, node in copies.items():
            uses_data = any(isinstance(n, ast.Assign) and any(isinstance(t_, ast.Attribute) and t_.attr == "data"
                            and isinstance(t_.value, ast.Name) and t_.value.id == var for t_ in n.targets)
                            for n in walk_no_nested(f.node))
            if not uses_data:
                continue
            ncopies += 1
            prog.consulted.add(f.relpath)
            reg = any(isinstance(n, ast.Call) and call_name(n) == "register_with_basis" and len(n.args) == 2
                      and isinstance(n.args[1], ast.Name) and n.args[1].id == var for n in walk_no_nested(f.node))
            run.obligation(rid, f.short, reg, key="copy-registered:" + var,
                           message="%s makes %s = %s and gives it new managed data but does not register it with the "
                                   "basis it is labelled with: created inside a context, the copy is not transformed "
                                   "back on exit (reading it afterwards fails or uses an unrelated basis)"
                                   % (f.short, var, norm(node.value)), loc=f.loc(node), sample={"function": f.short})
    if ncopies < 3:
        raise AnalysisError("C04-B3: only %d operator copies found in quantarhei.qm (3 confirmed: the apply methods)" % ncopies)
    # the public copy methods every basis-managed class inherits from Saveable: the object handed out is "an object
    # created inside" the context and must be back in its original representation afterwards
    sv = prog.cls("quantarhei.core.saveable.Saveable")
    for nme in ("copy", "deepcopy"):
        f = sv.methods[nme]
        prog.consulted.add(f.relpath)
        made = [n for n in walk_no_nested(f.node) if isinstance(n, ast.Call) and norm(n.func) in ("copy.copy", "copy.deepcopy")]
        if not made:
            raise AnalysisError("Saveable.%s no longer copies with the copy module" % nme)
        names = {n.targets[0].id for n in walk_no_nested(f.node) if isinstance(n, ast.Assign) and len(n.targets) == 1
                 and isinstance(n.targets[0], ast.Name) and n.value in made}
        reg = any(isinstance(n, ast.Call) and call_name(n) == "register_with_basis" and len(n.args) == 2
                  and isinstance(n.args[1], ast.Name) and n.args[1].id in names for n in walk_no_nested(f.node))
        rets = [n for n in walk_no_nested(f.node) if isinstance(n, ast.Return)]
        ok = reg and all(isinstance(r_.value, ast.Name) and r_.value.id in names for r_ in rets)
        run.obligation(rid, "Saveable.%s" % nme, ok, key="public-copy-registered",
                       message="Saveable.%s() hands out %s of a basis-managed object without registering it with the basis it is "
                               "labelled with: made inside a context, the copy stays in that basis when the context is left and "
                               "reading its data afterwards raises 'Basis of the object is not on stack' (or silently uses an "
                               "unrelated basis in a later context)" % (nme, norm(made[0])), loc=f.loc(made[0]),
                       sample={"method": nme})


# ----------------------------------------------------------------------
def _oracle(extra):
    def oracle(it, test, env):
        t = norm(test)
        if "warn_about_basis_change" in t:
            return False
        if t in extra:
            return extra[t]
        return None
    return oracle


def _run_transform(prog, cls_qual, attrs, extra_oracle, with_inv):
    """Interpret <cls>.transform(S, inv) on a symbolic object; returns the
    object after the call."""
    cls = prog.cls(cls_qual)
    f = prog.find_method(cls, "transform")
    prog.consulted.add(f.relpath)
    S = Array.opaque("S", 2)
    S1 = Array.opaque("S1", 2)

    def hook(it, func, call, name, args, kwargs):
        if name == "numpy.linalg.inv" or name == "scipy.linalg.inv":
            if len(args) == 1 and args[0] is S:
                return S1
            if len(args) == 1 and args[0] is S1:
                return S
            raise AnalysisError("inverse of something other than the transformation matrix in %s"
                                % func.qualname)
        if name.endswith("BasisManaged._storage_for_transform"):
            # same values in an element type that can hold the result (its body is the obligation 'result-type' of
            # C04-B8); for the index algebra the array is unchanged
            return args[0]
        return NotImplemented
    selfo = Obj("self", cls=cls, attrs=dict(attrs), alias={"data": "_data"})
    it = Interp(prog, lenient=False, branch_oracle=_oracle(extra_oracle), call_hook=hook)
    if with_inv:
        it.call_function(f, [S], {"inv": S1}, self_obj=selfo)
    else:
        it.call_function(f, [S], {}, self_obj=selfo)
    return selfo, f


INV = Facts(inverse=[("S1", "S")])


def _op_law(run, construct, new, old_name, rank_t, f, key, comp_last=False, vector=False):
    """new[t.., i, j] == sum S1[i,x] old[t.., x, y] S[y,j]"""
    t = ["t%d" % k for k in range(rank_t)]
    if not isinstance(new, Array):
        raise AnalysisError("%s: storage %s not algebraic after transform" % (construct, old_name))
    if vector:
        old = Expr.factor(old_name, tuple(t + ["x"]))
        exp = (Expr.factor("S1", ("i", "x")) * old).sum_over("x")
        got = new.at(*(t + ["i"]))
    elif comp_last:
        old = Expr.factor(old_name, ("x", "y", "k"))
        exp = (Expr.factor("S1", ("i", "x")) * old * Expr.factor("S", ("y", "j"))).sum_over("x").sum_over("y")
        got = new.at("i", "j", "k")
    else:
        old = Expr.factor(old_name, tuple(t + ["x", "y"]))
        exp = (Expr.factor("S1", ("i", "x")) * old * Expr.factor("S", ("y", "j"))).sum_over("x").sum_over("y")
        got = new.at(*(t + ["i", "j"]))
    nf = normal(got - exp, INV)
    run.obligation("C04-B4", construct, not nf, key=key,
                   message="storage %s is not transformed as S^-1 . A . S; difference: %s"
                   % (old_name, "; ".join(show_normal(nf, 4))), loc=f.loc(),
                   sample={"construct": construct, "storage": old_name, "law": "A' = S1.A.S",
                           "got": show_normal(normal(got, INV), 3)})


def _tensor_law(run, construct, new, rank_t, f, key):
    """action covariance: sum_cd R'[a,b,c,d] rho'[c,d] == (S1 (R rho) S)[a,b] with
    rho' = S1 rho S, using only S1.S = 1; plus round trip."""
    t = ["t%d" % k for k in range(rank_t)]
    if not isinstance(new, Array) or new.rank != 4 + rank_t:
        raise AnalysisError("%s: tensor storage not algebraic after transform" % construct)
    rho = Array.opaque("rho", 2)
    S = Array.opaque("S", 2)
    S1 = Array.opaque("S1", 2)
    rhop = a_dot(S1, a_dot(rho, S))
    lhs = (new.at(*(t + ["a", "b", "c", "d"])) * rhop.at("c", "d")).sum_over("c").sum_over("d")
    Rrho = Array.from_fn(2, lambda i, j: (Expr.factor("R", tuple(t + [i, j, "c", "d"])) *
                                          rho.at("c", "d")).sum_over("c").sum_over("d"))
    rhs = a_dot(S1, a_dot(Rrho, S)).at("a", "b")
    nf = normal(lhs - rhs, INV)
    run.obligation("C04-B4", construct, not nf, key=key,
                   message="tensor transform is not covariant: the action of the transformed tensor "
                           "on the transformed state differs from the transformed action "
                           "(holds only for real orthogonal S if the right index pair uses S^-1.M.S); "
                           "difference: %s" % "; ".join(show_normal(nf, 3)), loc=f.loc(),
                   sample={"construct": construct, "law": "R' rho' = (R rho)'  with S1.S=1 only",
                           "R'": show_normal(normal(new.at(*(t + ["a", "b", "c", "d"])), INV), 2)})


def rule_B4(run, prog):
    for with_inv in (False, True):
        tag = "inv" if with_inv else "noinv"
        # operators
        for qual, extra in ((HS + "operators.Operator", {}),):
            so, f = _run_transform(prog, qual, {"_data": Array.opaque("A", 2)}, extra, with_inv)
            _op_law(run, "Operator.transform", so.get("_data"), "A", 0, f, "law-" + tag)
        for flag in (True, False):
            so, f = _run_transform(prog, HS + "hamiltonian.Hamiltonian",
                                   {"_data": Array.opaque("A", 2), "JR": Array.opaque("J", 2)},
                                   {"self._has_remainder_coupling": flag}, with_inv)
            _op_law(run, "Hamiltonian.transform", so.get("_data"), "A", 0, f, "law-data-%s-%s" % (tag, flag))
            if flag:
                _op_law(run, "Hamiltonian.transform", so.get("JR"), "J", 0, f, "law-JR-" + tag)
        so, f = _run_transform(prog, "quantarhei.qm.propagators.dmevolution.DensityMatrixEvolution",
                               {"_data": Array.opaque("A", 3)}, {}, with_inv)
        _op_law(run, "DensityMatrixEvolution.transform", so.get("_data"), "A", 1, f, "law-" + tag)
        so, f = _run_transform(prog, HS + "dmoment.TransitionDipoleMoment",
                               {"_data": Array.opaque("A", 3)}, {}, with_inv)
        new = so.get("_data")
        # the loop runs over the three Cartesian components range(3)
        _op_law(run, "TransitionDipoleMoment.transform", new, "A", 0, f, "law-" + tag, comp_last=True)
        so, f = _run_transform(prog, HS + "statevector.StateVector", {"_data": Array.opaque("A", 1)},
                               {}, with_inv)
        _op_law(run, "StateVector.transform", so.get("_data"), "A", 0, f, "law-" + tag, vector=True)
        so, f = _run_transform(prog, "quantarhei.qm.propagators.statevectorevolution.StateVectorEvolution",
                               {"_data": Array.opaque("A", 2)}, {}, with_inv)
        _op_law(run, "StateVectorEvolution.transform", so.get("_data"), "A", 1, f, "law-" + tag, vector=True)
        # tensors
        for qual, short in ((LS + "superoperator.SuperOperator", "SuperOperator"),
                            (LS + "relaxationtensor.RelaxationTensor", "RelaxationTensor")):
            for rt in (0, 1):
                so, f = _run_transform(prog, qual, {"_data": Array.opaque("R", 4 + rt)}, {}, with_inv)
                _tensor_law(run, "%s.transform[rank %d]" % (short, 4 + rt), so.get("_data"), rt, f,
                            "covariance-" + tag)
        so, f = _run_transform(prog, LS + "tdredfieldtensor.TDRedfieldRelaxationTensor",
                               {"_data": Array.opaque("R", 5)}, {"not self._data_initialized": False},
                               with_inv)
        _tensor_law(run, "TDRedfieldRelaxationTensor.transform[tensor]", so.get("_data"), 1, f,
                    "covariance-" + tag)
        so, f = _run_transform(prog, LS + "tdredfieldtensor.TDRedfieldRelaxationTensor",
                               {"_Km": Array.opaque("K", 3), "_Lm": Array.opaque("L", 4),
                                "_Ld": Array.opaque("D", 4)},
                               {"not self._data_initialized": True}, with_inv)
        # transform() works on the storage of the managed operators (reading them through the properties would ask
        # for this very transformation)
        _op_law(run, "TDRedfieldRelaxationTensor.transform[operators]", so.get("_Km"), "K", 1, f, "Km-" + tag)
        _op_law(run, "TDRedfieldRelaxationTensor.transform[operators]", so.get("_Lm"), "L", 2, f, "Lm-" + tag)
        _op_law(run, "TDRedfieldRelaxationTensor.transform[operators]", so.get("_Ld"), "D", 2, f, "Ld-" + tag)
        so, f = _run_transform(prog, LS + "redfieldtensor.RedfieldRelaxationTensor",
                               {"_Km": Array.opaque("K", 3), "_Lm": Array.opaque("L", 3),
                                "_Ld": Array.opaque("D", 3)}, {"self.as_operators": True}, with_inv)
        for st, nm in (("_Km", "K"), ("_Lm", "L"), ("_Ld", "D")):
            _op_law(run, "RedfieldRelaxationTensor.transform[operators]", so.get(st), nm, 1, f,
                    "%s-%s" % (st, tag))
        so, f = _run_transform(prog, LS + "redfieldtensor.RedfieldRelaxationTensor",
                               {"_data": Array.opaque("R", 4)}, {"self.as_operators": False}, with_inv)
        _tensor_law(run, "RedfieldRelaxationTensor.transform[tensor]", so.get("_data"), 0, f,
                    "covariance-" + tag)
    # the storages Km/Lm/Ld of the Redfield class are array properties over _Km/_Lm/_Ld
    red = prog.cls(LS + "redfieldtensor.RedfieldRelaxationTensor")
    for nm in ("Km", "Lm", "Ld"):
        a = prog.find_class_attr(red, nm)
        ok = a is not None and isinstance(a[1], ast.Call) and norm(a[1].args[0]) == repr(nm)
        run.obligation("C04-B4", "RedfieldRelaxationTensor.%s" % nm, ok, key="storage-alias",
                       message="operator storage %s is no longer a managed property over _%s; "
                               "transform() would miss it" % (nm, nm), loc=red.module.relpath,
                       sample={"property": nm, "declaration": norm(a[1]) if a else None})
    # every transform() method of a BasisManaged class is covered above
    covered = {"Operator", "Hamiltonian", "DensityMatrixEvolution", "TransitionDipoleMoment",
               "StateVector", "StateVectorEvolution", "SuperOperator", "RelaxationTensor",
               "TDRedfieldRelaxationTensor", "RedfieldRelaxationTensor"}
    for c in prog.subclasses_of("BasisManaged"):
        if "transform" in c.methods and not c.module.name.endswith("_test"):
            run.obligation("C04-B4", c.qualname, c.name in covered, key="transform-covered",
                           message="class %s defines its own transform() that has no law obligation "
                                   "in this check" % c.name,
                           loc="%s:%d" % (c.module.relpath, c.methods["transform"].node.lineno),
                           sample={"class": c.name})
    run.assume("S1 = numpy.linalg.inv(S); the only algebraic fact used is sum_x S1[i,x] S[x,j] = delta_ij "
               "(and S.S1 = 1): no orthogonality or unitarity")


# ----------------------------------------------------------------------
def rule_B5(run, prog):
    rid = "C04-B5"
    m = prog.module("quantarhei.utils.types")
    for fac in ("basis_managed_array_property", "managed_array_property"):
        f = m.functions.get(fac)
        if f is None:
            raise AnalysisError("factory %s vanished" % fac)
        inner = [n for n in f.node.body if isinstance(n, ast.FunctionDef)]
        if len(inner) != 2:
            raise AnalysisError("factory %s: expected getter and setter" % fac)
        for fn in inner:
            kind = "setter" if len(fn.args.args) == 2 else "getter"
            stmts = fn.body
            # locate the transform call and the storage access
            tpos = spos = None
            guarded = False
            for k, st in enumerate(stmts):
                if isinstance(st, ast.If) and any(_attr_call(n, "manager.transform_to_current_basis")
                                                  for n in ast.walk(st)):
                    # condition must compare manager basis with object basis
                    names = {n.id for n in ast.walk(st.test) if isinstance(n, ast.Name)}
                    guarded = names == {"cb", "ob"} and isinstance(st.test, ast.Compare) and \
                        isinstance(st.test.ops[0], (ast.Eq, ast.NotEq))
                    # the call must be in the branch taken when cb != ob
                    branch = st.orelse if isinstance(st.test.ops[0], ast.Eq) else st.body
                    in_branch = any(_attr_call(n, "manager.transform_to_current_basis")
                                    for s in branch for n in ast.walk(s))
                    guarded = guarded and in_branch
                    if tpos is None:
                        tpos = k
                if spos is None and any(isinstance(n, ast.Call) and call_name(n) in ("getattr", "setattr")
                                        for n in ast.walk(st)):
                    spos = k
            defs = {norm(s) for s in stmts}
            ok_defs = "cb = self.manager.get_current_basis()" in defs and "ob = self.get_current_basis()" in defs
            ok = tpos is not None and spos is not None and tpos < spos and guarded and ok_defs
            run.obligation(rid, "utils.types.%s.%s" % (fac, kind), ok, key="transform-before-access",
                           message="%s of %s must compare the manager's basis with the object's and call "
                                   "manager.transform_to_current_basis(self) before touching storage"
                                   % (kind, fac), loc="%s:%d" % (m.relpath, fn.lineno),
                           sample={"factory": fac, "accessor": kind})
    # transform_to_current_basis
    f = prog.func(MGR + "Manager.transform_to_current_basis")
    tl = _top_level(f)
    first = tl[0] if tl else None
    ok = isinstance(first, ast.If) and norm(first.test) == "operator.is_basis_protected" and \
        len(first.body) == 1 and isinstance(first.body[0], ast.Return)
    run.obligation(rid, "Manager.transform_to_current_basis", ok, key="protected-early-return",
                   message="protected objects must be left untouched (early return first)", loc=f.loc())
    blk = [s for s in tl if isinstance(s, ast.If) and norm(s.test) == "ob != cb"]
    ok = False
    if len(blk) == 1:
        texts = [norm(s) for s in blk[0].body]
        need = ["operator.transform(SS)", "operator.set_current_basis(cb)",
                "self.register_with_basis(cb, operator)"]
        ok = all(n in texts for n in need) and \
            texts.index("operator.transform(SS)") < texts.index("operator.set_current_basis(cb)")
    run.obligation(rid, "Manager.transform_to_current_basis", ok, key="transform-retag-register",
                   message="lazy transformation must transform, re-tag with the current basis and "
                           "register the object with it", loc=f.loc())
    rule_B5_composition(run, prog, rid)


_OWNING = ("copy", "array", "zeros", "zeros_like", "real", "imag", "dot", "einsum", "tensordot", "diag", "conj", "abs", "sqrt", "outer")


def rule_B17(run, prog):
    rid = "C04-B17"
    n = 0

    def is_view_of_self(e, cls, depth=2):
        """expression that shares storage with self.data / self._data"""
        if isinstance(e, ast.Attribute) and e.attr in ("T", "real", "imag"):
            return is_view_of_self(e.value, cls, depth)
        if isinstance(e, ast.Subscript):
            return is_view_of_self(e.value, cls, depth)
        if isinstance(e, ast.Attribute) and norm(e) in ("self.data", "self._data"):
            return True
        if isinstance(e, ast.Call) and isinstance(e.func, ast.Attribute) and norm(e.func.value) == "self" and depth > 0:
            m_ = prog.find_method(cls, e.func.attr) if hasattr(prog, "find_method") else cls.methods.get(e.func.attr)
            if m_ is not None and isinstance(m_.node, ast.FunctionDef):
                rets = [r for r in walk_no_nested(m_.node) if isinstance(r, ast.Return) and r.value is not None]
                return bool(rets) and any(is_view_of_self(r.value, cls, depth - 1) for r in rets)
        if isinstance(e, ast.Call) and (call_name(e) or "").split(".")[-1] in ("asarray", "transpose", "swapaxes", "reshape", "squeeze", "ravel") \
                and e.args:
            return is_view_of_self(e.args[0], cls, depth)
        return False

    for cls in list(prog.all_classes()):
        if not cls.module.name.startswith("quantarhei.qm.hilbertspace.") or ".tests." in cls.module.name:
            continue
        for name, f in sorted(cls.methods.items()):
            if not isinstance(f.node, ast.FunctionDef):
                continue
            for c in walk_no_nested(f.node):
                if not (isinstance(c, ast.Call) and isinstance(c.func, ast.Name) and c.func.id[:1].isupper()):
                    continue
                dk = [k.value for k in c.keywords if k.arg == "data"]
                if not dk:
                    continue
                if not any(isinstance(y, ast.Name) and y.id == "self" for y in ast.walk(dk[0])):
                    continue
                n += 1
                prog.consulted.add(f.relpath)
                view = is_view_of_self(dk[0], cls)
                run.obligation(rid, f.short, not view, key="own-array:" + c.func.id,
                               message="%s builds %s(data=%s) on the storage of self: the new object and self are transformed each on "
                                       "its own label but share the numbers - inside a context of a non-diagonal operator one of them is "
                                       "transformed twice, and a write into one changes the other" % (f.short, c.func.id, norm(dk[0])[:50]),
                               loc=f.loc(c), sample={"method": f.short, "constructed": c.func.id, "data": norm(dk[0])[:60]})
    if n < 1:
        raise AnalysisError("C04-B17: no method of quantarhei.qm.hilbertspace builds a managed object from data of self")


def rule_B5_composition(run, prog, rid="C04-B5"):
    """Stacked transformations are composed outer-first (also used by C14-O: a state requested inside nested
    contexts reaches the current basis through this product)."""
    f = prog.func(MGR + "Manager.transform_to_current_basis")
    # composition of stacked transformations: the earlier (outer) transformation multiplies from the left.
    # Decided by role, not by the names of the locals: inside the loop over the stack, the accumulated matrix A
    # (the argument of operator.transform) is updated as A = dot(Z, A) / Z @ A, where Z is (defined as) an element
    # of self.basis_transformations whose index goes down as the loop variable goes up (top of the stack first).
    def _is_stack_elem(e, loopvar):
        if not (isinstance(e, ast.Subscript) and norm(e.value) == "self.basis_transformations"):
            return False
        ix = e.slice
        return isinstance(ix, ast.BinOp) and isinstance(ix.op, ast.Sub) and \
            loopvar in {n.id for n in ast.walk(ix.right) if isinstance(n, ast.Name)} and \
            loopvar not in {n.id for n in ast.walk(ix.left) if isinstance(n, ast.Name)}

    acc = {norm(c.args[0]) for c in ast.walk(f.node) if isinstance(c, ast.Call) and isinstance(c.func, ast.Attribute)
           and c.func.attr == "transform" and len(c.args) == 1 and isinstance(c.args[0], ast.Name)}
    ok = False
    bad = False
    loops = [n for n in ast.walk(f.node) if isinstance(n, ast.For) and isinstance(n.target, ast.Name)]
    for lp in loops:
        lv = lp.target.id
        zdefs = {}
        for n in ast.walk(lp):
            if isinstance(n, ast.Assign) and len(n.targets) == 1 and isinstance(n.targets[0], ast.Name):
                zdefs.setdefault(n.targets[0].id, []).append(n.value)

        def is_z(e):
            if _is_stack_elem(e, lv):
                return True
            return isinstance(e, ast.Name) and len(zdefs.get(e.id, [])) == 1 and _is_stack_elem(zdefs[e.id][0], lv)

        for n in ast.walk(lp):
            if not (isinstance(n, ast.Assign) and len(n.targets) == 1 and isinstance(n.targets[0], ast.Name)
                    and n.targets[0].id in acc):
                continue
            a_name = n.targets[0].id
            v = n.value
            pair = None
            if isinstance(v, ast.Call) and call_name(v) in ("dot", "matmul") and len(v.args) == 2 and not v.keywords:
                pair = v.args
            elif isinstance(v, ast.BinOp) and isinstance(v.op, ast.MatMult):
                pair = [v.left, v.right]
            if pair is None:
                bad = True
                continue
            if is_z(pair[0]) and isinstance(pair[1], ast.Name) and pair[1].id == a_name:
                ok = True
            else:
                bad = True
    ok = ok and not bad
    run.obligation(rid, "Manager.transform_to_current_basis", ok, key="composition-order",
                   message="stacked transformations must be composed outer-first: SS = ZZ.SS with ZZ "
                           "walking down the stack from the top", loc=f.loc())


MANAGED_FACTORIES = ("BasisManagedRealArray", "BasisManagedComplexArray", "basis_managed_array_property",
                     "ManagedRealArray", "ManagedComplexArray", "managed_array_property")


def rule_B14(run, prog, rid="C04-B14", floor=15):
    """Basis management is lazy: an object is brought to the current basis when one of its managed properties is read or
    assigned.  A method that assigns a managed property (`self.data = RR`) therefore labels what it stores with the
    current basis; what it stores must have been computed from values in that basis, i.e. from managed reads.  A raw
    read of the storage behind a managed attribute (`self._Km`) in the same method takes the numbers of whatever basis
    the object was last used in: if the method is the first access to the object inside a context, a site-basis result is
    stored as eigenbasis data (and transformed once more when the context is left).  In every method but the
    constructors of the classes with basis-managed attributes, a store to a managed attribute is not combined with a raw
    read of managed storage."""
    from .c01 import _managed_attrs
    bm = prog.cls("quantarhei.core.managers.BasisManaged")
    n = 0
    for cls in prog.all_classes():
        if ".tests." in cls.qualname or bm not in [x for x in prog.mro(cls) if x is not None]:
            continue
        man = _managed_attrs(prog, cls)
        if not man:
            continue
        for nme, f in cls.methods.items():
            if nme in ("__init__", "transform", "__setstate__"):
                continue
            wr = [x for x in walk_no_nested(f.node) if isinstance(x, ast.Attribute) and norm(x.value) == "self" and x.attr in man
                  and isinstance(x.ctx, ast.Store)]
            if not wr:
                continue
            n += 1
            prog.consulted.add(f.relpath)
            raw = [x for x in walk_no_nested(f.node) if isinstance(x, ast.Attribute) and norm(x.value) == "self" and x.attr.startswith("_")
                   and x.attr[1:] in man and isinstance(x.ctx, ast.Load)]
            run.obligation(rid, f.short, not raw, key="managed-store-from-managed-reads",
                           message="%s assigns the managed attribute self.%s and reads the raw storage self.%s on the way: the raw array "
                                   "is the object's representation in the basis it was last used in, the assignment labels the result "
                                   "with the current one - called as the first access to the object inside a basis context, it stores a "
                                   "site-basis result as data of the context's basis" % (f.short, wr[0].attr, raw[0].attr if raw else ""),
                           loc=f.loc(raw[0]) if raw else f.loc(f.node), sample={"stores": sorted({x.attr for x in wr})})
    if n < floor:
        raise AnalysisError("%s: only %d methods assign a basis-managed attribute (%d confirmed)" % (rid, n, floor))


def rule_B13(run, prog):
    """'After the context is left ... the basis bookkeeping is back in its previous state': the Manager keeps the stack of
    basis ids and, at the same positions, the stack of transformation matrices (the matrix at position k takes basis k-1
    to basis k).  Entering a context pushes on both, leaving it pops from both; get_basis_transformation walks the two
    together.  The two lists stay a stack of pairs only if every method that changes one changes the other in the same
    way in the same block (the lockstep rule of C10-I, here over `self.<list>` in the Manager and
    `self.manager.<list>` in the context managers)."""
    from .c10 import list_ops, lockstep_mismatch
    rid = "C04-B13"
    attrs = ["basis_stack", "basis_transformations"]
    n = 0
    for f in prog.all_functions():
        if not f.qualname.startswith("quantarhei.core.managers."):
            continue
        ops = list_ops(f.node.body, attrs, recv=("self", "self.manager", "manager", "m"))

        def flat(o):
            return [x for x in o if x[0] != "block"] + [y for x in o if x[0] == "block" for y in flat(x[1])]
        if not flat(ops):
            continue
        n += 1
        prog.consulted.add(f.relpath)
        mm = lockstep_mismatch(ops, attrs)
        run.obligation(rid, f.short, mm is None, key="basis-stacks-in-step",
                       message="%s changes the stack of basis ids and the stack of transformations out of step (%s): after it a basis "
                               "id is paired with the transformation of another context, and objects are transformed back with the "
                               "wrong matrix" % (f.short, "; ".join("%s: %s" % (a, ", ".join("%s(%s)" % o for o in q) or "nothing")
                                                                    for a, q in mm[1].items()) if mm else ""),
                       loc=f.loc(mm[0]) if mm else f.loc(f.node))
    if n < 3:
        raise AnalysisError("C04-B13: only %d functions change the basis stacks (constructor, set_new_basis, __exit__ confirmed)" % n)


def rule_B12(run, prog):
    """'Every basis-managed object is presented in that same basis': the raw storage `_data` of an object is its
    representation in whatever basis it was last used; only the managed property `data` brings it to the current basis.
    An arithmetic method that combines the raw storage of two objects (`self._data += other._data`) adds the numbers of
    two possibly different bases: inside a context where one tensor has been read and the other not, the sum is neither.
    In the arithmetic methods (__add__, __iadd__, __sub__, __isub__, __mul__, __rmul__ ...) of classes with basis-managed
    data the raw storage of the *other* operand is never read."""
    from .. import memo
    rid = "C04-B12"
    bm = prog.cls("quantarhei.core.managers.BasisManaged")
    n = 0
    for cls in prog.all_classes():
        if ".tests." in cls.qualname or bm not in [x for x in prog.mro(cls) if x is not None]:
            continue
        for nme, f in cls.methods.items():
            if not (nme.startswith("__") and nme.endswith("__") and nme.strip("_") in (
                    "add", "iadd", "radd", "sub", "isub", "rsub", "mul", "imul", "rmul", "matmul", "truediv")):
                continue
            params = [a.arg for a in f.node.args.args[1:]]
            if not params:
                continue
            n += 1
            prog.consulted.add(f.relpath)
            raw = [x for x in walk_no_nested(f.node) if isinstance(x, ast.Attribute) and x.attr.startswith("_") and not x.attr.startswith("__")
                   and isinstance(x.value, ast.Name) and x.value.id in params and x.attr in ("_data",)]
            run.obligation(rid, f.short, not raw, key="other-operand-through-the-managed-property",
                           message="%s reads the raw storage of its other operand (`%s`): that array is the operand's representation in "
                                   "the basis it was last used in, not in the current one - the result mixes two bases whenever only "
                                   "one of the operands has been read inside the present context" % (f.short, norm(raw[0]) if raw else ""),
                           loc=f.loc(raw[0]) if raw else f.loc(f.node))
    if n < 2:
        raise AnalysisError("C04-B12: only %d arithmetic methods of basis-managed classes found" % n)


def rule_B6(run, prog):
    """'Every basis-managed object is presented in that same basis': an attribute is brought into the current basis by
    the getter of its managed property.  A subclass whose body binds the same name to anything else (`Km = None`)
    replaces the property for all its instances: the attribute is then a plain one, is never transformed on access,
    and the object mixes bases with everything it is combined with inside a context."""
    rid = "C04-B6"

    def managed(c):
        return {nme for nme, val in c.attrs.items() if isinstance(val, ast.Call) and norm(val.func).split(".")[-1] in MANAGED_FACTORIES}
    n = 0
    for c in prog.all_classes():
        inherited = {}
        for b in prog.mro(c)[1:]:
            if b is None:
                continue
            for nme in managed(b):
                inherited.setdefault(nme, b)
        if not inherited:
            continue
        n += 1
        prog.consulted.add(c.module.relpath)
        own = managed(c)
        shadow = sorted(nme for nme in c.attrs if nme in inherited and nme not in own)
        # instance-level replacement through __dict__ / object.__setattr__ would do the same
        run.obligation(rid, c.name, not shadow, key="managed-not-shadowed",
                       message="class %s rebinds %s in its body; %s defines %s as basis-managed propert%s: for %s objects the "
                               "attribute is a plain one that is never brought into the basis of a context" % (
                                   c.name, shadow, inherited[shadow[0]].name if shadow else "", shadow, "y" if len(shadow) == 1 else "ies", c.name),
                       loc="%s:%d" % (c.module.relpath, (c.attrs[shadow[0]].lineno if shadow else c.node.lineno)),
                       sample={"class": c.name, "inherited_managed": sorted(inherited)})
    if n < 20:
        raise AnalysisError("only %d classes inherit a basis-managed property (20 confirmed)" % n)


def rule_B8(run, prog):
    """'Every basis-managed object is presented in that basis ... and is back in its original representation afterwards':
    the transformed values are S^-1.A.S with the eigenvector matrix S of the context's operator, real numbers in general
    and complex ones for a complex Hermitian operator.  A transform() that assigns them to elements of the existing
    storage (self._X[...] = ...) keeps the element type the storage happened to have: whole numbers truncate, real
    storage drops the imaginary parts, and the transformation back cannot recover them.  Every such in-place store is
    therefore dominated by a statement that rebinds the storage to one of a sufficient type, computed from the
    transformation matrix (self._X = self._storage_for_transform(self._X, SS), or an astype(result_type(.., SS ..))).
    A transform() that rebinds the storage to the product itself has nothing to show."""
    from ..loader import parents_map
    rid = "C04-B8"
    n = 0
    for c in prog.subclasses_of("BasisManaged"):
        f = c.methods.get("transform")
        if f is None or c.module.name.endswith("_test"):
            continue
        prog.consulted.add(f.relpath)
        ss = f.node.args.args[1].arg
        pm = parents_map(f.node)
        first = {}
        for st in walk_no_nested(f.node):
            if isinstance(st, ast.Assign):
                for t_ in st.targets:
                    b = t_
                    while isinstance(b, ast.Subscript):
                        b = b.value
                    if b is not t_ and norm(b).startswith("self."):
                        first.setdefault(norm(b), []).append(st)

        def promotes(st, target):
            if not (isinstance(st, ast.Assign) and [norm(t_) for t_ in st.targets] == [target] and isinstance(st.value, ast.Call)):
                return False
            v = st.value
            if isinstance(v.func, ast.Attribute) and v.func.attr == "_storage_for_transform":
                return [norm(a) for a in v.args] == [target, ss]
            if isinstance(v.func, ast.Attribute) and v.func.attr == "astype" and norm(v.func.value) == target:
                return any(isinstance(x, ast.Call) and norm(x.func).endswith("result_type") and any(ss in norm(a) for a in x.args)
                           for x in ast.walk(v))
            return False
        for target, stores in sorted(first.items()):
            for st in stores:
                n += 1
                dom = False
                node = st
                while node is not None and node is not f.node and not dom:
                    p_ = pm.get(node)
                    for fld in ("body", "orelse", "finalbody"):
                        blk = getattr(p_, fld, None)
                        if isinstance(blk, list) and node in blk:
                            if any(promotes(prev, target) for prev in blk[:blk.index(node)]):
                                dom = True
                    node = p_
                run.obligation(rid, "%s.transform" % c.name, dom, key="storage-holds-result:%s:%s" % (target, norm(st.targets[0])[:30]),
                               message="%s.transform writes the transformed values into elements of %s (%s) without first making the "
                                       "storage able to hold them: storage of whole numbers truncates them and real storage drops the "
                                       "imaginary parts of S^-1.A.S for the eigenvectors of a complex Hermitian operator; the object is "
                                       "still wrong after the context" % (c.name, target, norm(st)[:60]), loc=f.loc(st),
                               sample={"store": norm(st)[:80]})
    if n < 10:
        raise AnalysisError("only %d in-place stores in transform() methods found (10 confirmed)" % n)
    # the helper itself: result type from the storage, the matrix and float
    h = prog.func(MGR + "BasisManaged._storage_for_transform")
    prog.consulted.add(h.relpath)
    a_data, a_ss = h.node.args.args[1].arg, h.node.args.args[2].arg
    rt = [x for x in ast.walk(h.node) if isinstance(x, ast.Call) and norm(x.func).endswith("result_type")]
    ok = len(rt) == 1 and {"%s.dtype" % a_data, "%s.dtype" % a_ss} <= {norm(a) for a in rt[0].args} and \
        any(norm(a) in ("numpy.float64", "float", "REAL") for a in rt[0].args)
    conv = [x for x in ast.walk(h.node) if isinstance(x, ast.Return) and isinstance(x.value, ast.Call)
            and isinstance(x.value.func, ast.Attribute) and x.value.func.attr == "astype"]
    run.obligation(rid, "BasisManaged._storage_for_transform", ok and bool(conv), key="result-type",
                   message="_storage_for_transform must return the storage in numpy.result_type(storage, matrix, float): anything "
                           "narrower truncates or drops imaginary parts in the transform() methods that write in place",
                   loc=h.loc(h.node))


def rule_B9(run, prog):
    """'Basis-independent results (the action of a tensor on a state, propagated dynamics) are the same as outside':
    SystemBathInteraction.KK holds the system operators as plain arrays in the basis they were given in (the site basis);
    nothing transforms them when a context opens.  A function that takes their values and combines them with
    basis-managed data (the Hamiltonian's data, which are in the basis of the context) therefore has to establish which
    basis is in force - look at the manager's current basis / the accumulated transformations, or at the basis label of
    the Hamiltonian - and bring the operators there (or refuse).  Reads of the shape alone are not values."""
    from ..loader import parents_map
    rid = "C04-B9"
    n = 0
    for f in prog.all_functions():
        mn = f.module.name
        if not mn.startswith("quantarhei.qm.") or ".tests" in mn or mn.endswith("systembathinteraction"):
            continue
        pm = parents_map(f.node)
        reads = []
        for x in walk_no_nested(f.node):
            if isinstance(x, ast.Attribute) and x.attr == "KK" and isinstance(x.ctx, ast.Load) \
                    and ("sbi" in norm(x.value).lower() or "SystemBathInteraction" in norm(x.value)):
                p_ = pm.get(x)
                if isinstance(p_, ast.Attribute) and p_.attr == "shape":
                    continue
                reads.append(x)
        if not reads:
            continue
        if f.short == "ElectronicLindbladForm.__init__":
            # re-expresses the operator list of the electronic system in the vibronic state space; the values meet
            # managed data only in LindbladForm._implementation, which has its own obligation
            continue
        n += 1
        prog.consulted.add(f.relpath)
        est = [y for y in ast.walk(f.node) if isinstance(y, ast.Attribute) and y.attr in ("get_current_basis", "basis_transformations",
                                                                                           "basis_stack", "_in_eigenbasis_of_context")]
        run.obligation(rid, f.short, bool(est), key="site-basis-operators",
                       message="%s takes the values of %s - plain arrays in the site basis - and combines them with basis-managed data "
                               "without establishing the basis in force: called inside eigenbasis_of (with the Hamiltonian not "
                               "basis-protected) the Hamiltonian is already diagonal there, the operators are used as if they were "
                               "in that basis, and the tensor / rates / dynamics differ from those obtained outside"
                               % (f.short, norm(reads[0])), loc=f.loc(reads[0]), sample={"reads": [norm(r_) for r_ in reads][:4]})
    if n < 6:
        raise AnalysisError("only %d functions take the values of the system-bath operators (6 confirmed)" % n)
