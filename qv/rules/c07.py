"""C07 - operator form, tensor form and exact limits of a tensor agree.

Decided statically: the action of the assembled four-index tensor equals the
operator expressions of RedfieldRelaxationTensor.apply and of
rdmpropagator._OTI as identities in all inputs (TA); conversion between the
forms is a typestate-correct call of the same assembler; both forms obey the
same transformation law (C04-B4 instances re-evaluated here); the
time-dependent and time-independent integrand pipelines are the same
expression, the former keeping the running integral of which the latter
takes the last element.
"""
import ast
import copy

from ..loader import AnalysisError, norm, walk_no_nested, call_name
from .. import ta
from ..ta import Expr, Array, Facts, normal, show_normal
from ..ta_front import Interp, Obj
from . import tensors, c04
from .tensors import LS

RED = LS + "redfieldtensor.RedfieldRelaxationTensor"
TDRED = LS + "tdredfieldtensor.TDRedfieldRelaxationTensor"
LIND = LS + "lindbladform.LindbladForm"
RDMMOD = "quantarhei.qm.propagators.rdmpropagator"


def check(run, prog, tier):
    run.explanation = (
        "Index-algebra equality between the action of the tensor produced by "
        "_convert_operators_2_tensor and the operator expressions used by apply() and by the "
        "propagator's _OTI, derived from the code for all inputs and dimensions; typestate of "
        "convert_2_tensor/secularize; transformation-law agreement of both forms; sibling comparison "
        "of the time-dependent and time-independent integrand pipelines. Does not decide the value "
        "of the spline integrals, data[0]=0, or the pure-dephasing benchmark.")
    run.trusted_base = ["qv/ta_front.py model of numpy.dot/tensordot/transpose/conj",
                        "scipy UnivariateSpline.antiderivative()(tm) returns the running integral "
                        "whose last element is the full integral"]
    run.rule("C07-M", "operator form and tensor form of one tensor agree 'in every basis': the operator components a tensor transforms in place when the basis changes are its own arrays - "
                      "an array of the system-bath interaction (or of any argument) kept without a copy would be transformed once per "
                      "object built from it (stored-input analysis shared with C15-E3, restricted to the tensors that have an "
                      "operator form)", minimum=2)
    from . import c15 as _c15
    from ..report import RuleProxy as _RP
    _opf = ("RedfieldRelaxationTensor", "TDRedfieldRelaxationTensor", "LindbladForm", "ElectronicLindbladForm")
    _c15.stored_inputs_intact(_RP(run, "C07-M", keep=lambda c, k: c.split(".")[0] in _opf), "C07-M", prog, _c15.TENSORS)
    run.rule("C07-A", "tensor action equals operator action (TA)", minimum=4)
    run.rule("C07-B", "conversion between forms is typestate-correct", minimum=5)
    run.rule("C07-C", "both forms transform by the same covariant law", minimum=8)
    run.rule("C07-D", "time-dependent and time-independent integrands and integration windows are the same",
             minimum=5)
    rule_A(run, prog)
    rule_B(run, prog)
    rule_C(run, prog)
    rule_D(run, prog)
    run.rule("C07-E", "the tensor-form and the operator-form propagation routine are the same Taylor scheme "
                      "(recogniser of C02 on the two routines whose agreement is claimed)", minimum=8)
    rule_E(run, prog)
    run.rule("C07-F", "both Redfield tensors are calculated under internal units on every way of initialising them "
                      "(constructor and deferred initialize())", minimum=2)
    from . import intunits
    LS = "quantarhei.qm.liouvillespace."
    intunits.check_classes(run, prog, "C07-F", [LS + "redfieldtensor.RedfieldRelaxationTensor",
                                                LS + "tdredfieldtensor.TDRedfieldRelaxationTensor"], 2,
                           "the bath correlation functions and the time axis are internal: the time-dependent tensor "
                           "no longer ends at the time-independent one")
    run.rule("C07-G", "the operator form owns the operators it transforms: a basis change of one form does not rewrite the "
                      "operators of the system-bath interaction or of another form built from it", minimum=10)
    from . import c15
    LS_ = "quantarhei.qm.liouvillespace."
    c15.stored_inputs_intact(run, "C07-G", prog, [LS_ + "redfieldtensor.RedfieldRelaxationTensor",
                                                  LS_ + "tdredfieldtensor.TDRedfieldRelaxationTensor",
                                                  LS_ + "lindbladform.LindbladForm", LS_ + "lindbladform.ElectronicLindbladForm"])
    run.rule("C07-H", "where the operator form conjugates a system operator it takes the Hermitian conjugate (conjugate and "
                      "transpose), which is what the basis change of the tensor form corresponds to in every basis", minimum=2)
    rule_H(run, prog)
    run.rule("C07-I", "time-dependent propagation reads the tensor on the tensor's own grid: the bound of the running tensor "
                      "index is located on the axis it indexes, and a propagation step that is no whole multiple of the "
                      "tensor's step is refused", minimum=6)
    rule_I(run, prog)
    run.rule("C07-J", "both forms hand back the full complex result of acting on an operator: no apply() writes its result into the "
                      "array the operand already holds (which may be real)", minimum=4)
    rule_J(run, prog)
    run.rule("C07-K", "the time-dependent tensor and the time-independent one that a system builds for the same request are built from "
                      "the same inputs: in every branch `if time_dependent: TD(...) else: TI(...)` of get_RelaxationTensor the two "
                      "constructors get the same value for every option both of them take (cut-off time, operator form)", minimum=3)
    rule_K(run, prog)
    run.rule("C07-L", "whatever form the relaxation tensor is in, propagate() hands back an evolution or refuses: every propagation "
                      "routine the dispatcher can select ends, on every path, in `return <evolution>` or in an exception (a routine "
                      "that is not written yet says so)", minimum=15)
    rule_L(run, prog)


def _ends_in_value(stmts):
    if not stmts:
        return False
    last = stmts[-1]
    if isinstance(last, ast.Return):
        return last.value is not None and not (isinstance(last.value, ast.Constant) and last.value.value is None)
    if isinstance(last, ast.Raise):
        return True
    if isinstance(last, ast.If):
        return bool(last.orelse) and _ends_in_value(last.body) and _ends_in_value(last.orelse)
    if isinstance(last, ast.With):
        return _ends_in_value(last.body)
    if isinstance(last, ast.Try):
        return (_ends_in_value(last.body) or _ends_in_value(last.orelse)) and all(_ends_in_value(h.body) for h in last.handlers) \
            or _ends_in_value(last.finalbody)
    return False


def rule_L(run, prog):
    """'... generate the same propagated dynamics': with a relaxation tensor in operator form and an external field the
    dispatcher of ReducedDensityMatrixPropagator.propagate selects routines of their own.  A routine that falls off its end
    returns None - the caller gets no dynamics and no refusal."""
    rid = "C07-L"
    n = 0
    for q in ("quantarhei.qm.propagators.rdmpropagator.ReducedDensityMatrixPropagator",
              "quantarhei.qm.propagators.svpropagator.StateVectorPropagator"):
        cls = prog.cls(q)
        for nme, f in cls.methods.items():
            if not isinstance(f.node, ast.FunctionDef) or "propagate_" not in nme:
                continue
            n += 1
            prog.consulted.add(f.relpath)
            body = [s_ for s_ in f.node.body if not (isinstance(s_, ast.Expr) and isinstance(s_.value, ast.Constant))]
            run.obligation(rid, f.short, _ends_in_value(body), key="returns-evolution",
                           message="%s can end without `return <evolution>` and without an exception: propagate() hands None to "
                                   "the caller for this combination of tensor form and field, where the tensor form of the same "
                                   "tensor gives an evolution" % f.short, loc=f.loc())
    if n < 15:
        raise AnalysisError("C07-L: only %d propagation routines found" % n)


def rule_K(run, prog):
    """'... at its last time index equals the time-independent tensor built from the same inputs': the inputs named in the
    call of get_RelaxationTensor reach both siblings.  An option that only one of the two constructors has is left out of
    the comparison."""
    from ..loader import ClassInfo
    rid = "C07-K"
    f = prog.func("quantarhei.builders.opensystem.OpenSystem.get_RelaxationTensor")
    prog.consulted.add(f.relpath)
    n = 0

    def ctor_calls(stmts):
        out = []
        for st in stmts:
            for c in ast.walk(st):
                if isinstance(c, ast.Call) and isinstance(c.func, ast.Name):
                    try:
                        tgt = prog.resolve_name(f.module, c.func.id, f)
                    except Exception:
                        tgt = None
                    if isinstance(tgt, ClassInfo) and prog.is_subclass(tgt, "RelaxationTensor"):
                        init = prog.find_method(tgt, "__init__")
                        ps = [a.arg for a in init.node.args.args[1:] + init.node.args.kwonlyargs] if init is not None else []
                        out.append((c, tgt, ps))
        return out

    for iff in walk_no_nested(f.node):
        if not (isinstance(iff, ast.If) and norm(iff.test) == "time_dependent" and iff.orelse):
            continue
        td, ti = ctor_calls(iff.body), ctor_calls(iff.orelse)
        if len(td) != 1 or len(ti) != 1:
            continue
        (c1, k1, p1), (c2, k2, p2) = td[0], ti[0]
        n += 1
        common = [p for p in p1 if p in p2 and p not in ("ham", "sbi", "initialize")]

        def given(c, ps):
            d = {k.arg: norm(k.value) for k in c.keywords if k.arg}
            for p_, a in zip(ps, c.args):
                d.setdefault(p_, norm(a))
            return d
        g1, g2 = given(c1, p1), given(c2, p2)
        diff = [p for p in common if g1.get(p) != g2.get(p)]
        run.obligation(rid, f.short, not diff, key="siblings:%s/%s" % (k1.name, k2.name),
                       message="get_RelaxationTensor builds %s with %s and its time-independent sibling %s with %s: the option%s %s "
                               "reach%s one of the two only, so the tensor for time_dependent=False is not the long-time limit of the "
                               "one for time_dependent=True of the same request"
                               % (k1.name, {p: g1.get(p) for p in common}, k2.name, {p: g2.get(p) for p in common},
                                  "s" if len(diff) > 1 else "", diff, "" if len(diff) > 1 else "es"),
                       loc=f.loc(c2), sample={"common_options": common, "td": g1, "ti": g2})
    if n < 3:
        raise AnalysisError("C07-K: only %d time-dependent / time-independent sibling branches found in get_RelaxationTensor" % n)


def rule_J(run, prog):
    """'... act identically on every operator': R.A is complex for a Redfield tensor whatever A is.  The operator form
    builds a new array and rebinds the operand's data to it.  An apply() that stores into the operand's existing array
    (`oper.data[:, :] = ...`, `oper._data[...] = ...`, an in-place operator on it) casts the result to the element type
    of that array - the imaginary part is dropped for every operand with real storage (projectors, Operator(real=True),
    a density matrix made from a real array) - and the two forms of one tensor differ on it.  All apply() methods of
    the classes of qm.liouvillespace are examined; their operand is the first parameter."""
    rid = "C07-J"
    n = 0
    for cls in prog.all_classes():
        if not cls.qualname.startswith("quantarhei.qm.liouvillespace.") or ".tests." in cls.qualname or "apply" not in cls.methods:
            continue
        f = cls.methods["apply"]
        if len(f.node.args.args) < 2:
            continue
        n += 1
        prog.consulted.add(f.relpath)
        opers = {a.arg for a in f.node.args.args[1:]}
        bad = None
        for st in walk_no_nested(f.node):
            tg = st.targets if isinstance(st, ast.Assign) else ([st.target] if isinstance(st, ast.AugAssign) else [])
            for t_ in tg:
                b_ = t_
                while isinstance(b_, ast.Subscript):
                    b_ = b_.value
                inplace = (b_ is not t_) or isinstance(st, ast.AugAssign)
                if inplace and isinstance(b_, ast.Attribute) and b_.attr in ("data", "_data") and isinstance(b_.value, ast.Name) \
                        and b_.value.id in opers:
                    bad = st
        run.obligation(rid, f.short, bad is None, key="result-in-a-new-array",
                       message="%s stores its result with `%s` into the array the operand already holds: the complex result is cast to "
                               "the element type of that array, so for an operand with real storage the imaginary part of R.A is "
                               "lost - the operator form, which rebinds the data, returns it" % (f.short, norm(bad)[:70] if bad else ""),
                       loc=f.loc(bad) if bad else f.loc(f.node))
    if n < 4:
        raise AnalysisError("C07-J: only %d apply() methods found in qm.liouvillespace" % n)


def rule_E(run, prog):
    """'Generate the same propagated dynamics': the routine for a tensor held as operators and the one
    for the four-index tensor must both be the order-L expansion with step dt/ll, restarted from the
    propagated state after every refinement sub-step, with the same nesting of time, refinement and
    order loops.  The recogniser and the generator identities of C02 are run on exactly these two
    routines (with and without pure dephasing) and reported under this property."""
    from . import c02
    from ..report import RuleProxy
    cls = prog.cls("quantarhei.qm.propagators.rdmpropagator.ReducedDensityMatrixPropagator")
    n = 0
    for nme in ("__propagate_short_exp_with_relaxation", "__propagate_short_exp_with_rel_operators"):
        f = cls.methods.get(nme)
        if f is None:
            raise AnalysisError("ReducedDensityMatrixPropagator.%s not found" % nme)
        n += c02.routine_obligations(RuleProxy(run, "C07-E"), "C07-E", "C07-E", prog, f)
    if n < 4:
        raise AnalysisError("only %d expansion loops recognised in the two routines (4 confirmed)" % n)


def _tensor_action(RR, rho, t=()):
    t = list(t)
    return (RR.at(*(t + ["a", "b", "c", "d"])) * rho.at("c", "d")).sum_over("c").sum_over("d")


def rule_A(run, prog):
    rid = "C07-A"
    for qual, extra_real, label in ((RED, [], "Redfield"), (LIND, ["KK", "rates"], "Lindblad")):
        cls = prog.cls(qual)
        selfo, it = tensors.assemble(prog, qual, as_operators=True)
        Km, Lm, Ld = selfo.get("Km"), selfo.get("Lm"), selfo.get("Ld")
        if not all(isinstance(x, Array) for x in (Km, Lm, Ld)):
            raise AnalysisError("%s: operator form does not store Km/Lm/Ld arrays" % label)
        facts = tensors.real_facts(it, extra_real=extra_real)
        rho = Array.opaque("rho", 2)
        # operator action through apply()
        apply_f = prog.find_method(cls, "apply")
        it2 = Interp(prog, lenient=False, branch_oracle=tensors.oracle_as_operators(True, {"copy": False}))
        res = it2.call_function(apply_f, [Obj("oper", attrs={"data": rho})], {"copy": False}, self_obj=selfo)
        ven = res.get("data")
        # conversion through convert_2_tensor() on the same object
        conv = prog.find_method(cls, "convert_2_tensor")
        it3 = Interp(prog, lenient=False, branch_oracle=tensors.oracle_as_operators(True), inline_depth=5)
        it3.call_function(conv, [], self_obj=selfo)
        RR = selfo.get("data")
        if not isinstance(RR, Array) or RR.rank != 4:
            raise AnalysisError("%s.convert_2_tensor did not produce a rank-4 tensor" % label)
        act = _tensor_action(RR, rho)
        nf = normal(act - ven.at("a", "b"), facts)
        run.obligation(rid, "%s:apply==tensor" % cls.name, not nf, key="apply",
                       message="apply() in operator form differs from the action of the converted "
                               "tensor; difference: %s" % "; ".join(show_normal(nf, 4)),
                       loc=apply_f.loc(),
                       sample={"class": cls.name, "identity": "sum_cd R[a,b,c,d] rho[c,d] = apply(rho)[a,b]",
                               "facts": facts.describe()})
        # propagator's _OTI with Kd = K^T (def-use verified in C02) and dt/ll = 1
        oti = prog.func(RDMMOD + "._OTI")
        prog.consulted.add(oti.relpath)
        rhoY = Array.zeros(2, name="rhoY")
        Kd = Array.from_fn(3, lambda m, i, j: Km.at(m, j, i))
        it4 = Interp(prog, lenient=False)
        it4.call_function(oti, [rhoY, Km, Kd, Lm, Ld, Expr.factor("ll"), Expr.factor("dt"), rho])
        want = act * Expr.factor("dt") * Expr.factor("ll", (), False, -1)
        nf = normal(rhoY.at("a", "b") - want, facts)
        run.obligation(rid, "%s:_OTI==tensor" % cls.name, not nf, key="oti",
                       message="rdmpropagator._OTI differs from (dt/ll) times the action of the "
                               "converted tensor; difference: %s" % "; ".join(show_normal(nf, 4)),
                       loc=oti.loc(),
                       sample={"class": cls.name, "identity": "_OTI(rho) = (dt/ll) R rho"})
        # _TTI is the plain contraction
        tti = prog.func(RDMMOD + "._TTI")
        rhoY2 = Array.zeros(2, name="rhoY")
        it5 = Interp(prog, lenient=False)
        it5.call_function(tti, [rhoY2, RR, 0.0, Expr.factor("ll"), Expr.factor("dt"), rho], {"L": 4})
        nf = normal(rhoY2.at("a", "b") - want, facts)
        run.obligation(rid, "%s:_TTI==tensor" % cls.name, not nf, key="tti",
                       message="rdmpropagator._TTI is not (dt/ll) R rho", loc=tti.loc(),
                       sample={"class": cls.name, "identity": "_TTI(rho) = (dt/ll) sum_cd R[a,b,c,d] rho[c,d]"})
    # time-dependent pair: tensor form vs _OTI with the per-time operators, under symmetric(K)
    selfo, it = tensors.assemble(prog, TDRED, as_operators=True)
    Km, Lm, Ld = selfo.get("Km"), selfo.get("Lm"), selfo.get("Ld")
    cls = prog.cls(TDRED)
    conv = prog.find_method(cls, "_convert_operators_2_tensor")
    it3 = Interp(prog, lenient=False)
    RR = it3.call_function(conv, [Km, Lm, Ld], self_obj=selfo)
    rho = Array.opaque("rho", 2)
    act = _tensor_action(RR, rho, t=("t",))
    oti = prog.func(RDMMOD + "._OTI")
    rhoY = Array.zeros(2, name="rhoY")
    Kd = Array.from_fn(3, lambda m, i, j: Km.at(m, j, i))
    Lt = Array.from_fn(3, lambda m, i, j: Lm.at("t", m, i, j))
    Ldt = Array.from_fn(3, lambda m, i, j: Ld.at("t", m, i, j))
    it4 = Interp(prog, lenient=False)
    it4.call_function(oti, [rhoY, Km, Kd, Lt, Ldt, Expr.factor("ll"), Expr.factor("dt"), rho])
    want = act * Expr.factor("dt") * Expr.factor("ll", (), False, -1)
    knames = list(Km.template.names())
    facts = tensors.real_facts(it, symmetric=knames)
    nf = normal(rhoY.at("a", "b") - want, facts)
    run.obligation(rid, "TDRedfield:_OTI==tensor", not nf, key="oti-td",
                   message="time-dependent tensor form and the operator routine differ even for "
                           "symmetric K_m; difference: %s" % "; ".join(show_normal(nf, 4)), loc=conv.loc(),
                   sample={"identity": "_OTI(K, K^T, L[t], L[t]^+)(rho) = (dt/ll) R[t] rho",
                           "facts": facts.describe()})
    run.assume("time-dependent pair: equality uses symmetric(K_m) (K_m = S^-1 K S of a real symmetric "
               "system operator in the eigenbasis of a real symmetric Hamiltonian)")


def rule_B(run, prog):
    rid = "C07-B"
    f = prog.func(RED + ".convert_2_tensor")
    ifs = [s for s in f.node.body if isinstance(s, ast.If)]
    ok = len(ifs) == 1 and norm(ifs[0].test) == "self.as_operators" and not ifs[0].orelse
    texts = [norm(n) for n in ast.walk(ifs[0])] if ifs else []
    stmts = [norm(s) for s in ast.walk(ifs[0]) if isinstance(s, ast.stmt)] if ifs else []
    ok1 = ok and "RR = self._convert_operators_2_tensor(self.Km, self.Lm, self.Ld)" in stmts
    run.obligation(rid, "RedfieldRelaxationTensor.convert_2_tensor", ok1, key="same-assembler",
                   message="conversion must call the class's own assembler on the stored operators",
                   loc=f.loc(), sample={"statements": stmts[:6]})
    ok2 = ok and "self.data = RR" in stmts and "self.as_operators = False" in stmts
    ln = {norm(s_): s_.lineno for s_ in ast.walk(ifs[0]) if isinstance(s_, ast.stmt)} if ifs else {}
    order = ok2 and ln["self.data = RR"] < ln["self.as_operators = False"]
    run.obligation(rid, "RedfieldRelaxationTensor.convert_2_tensor", bool(order), key="typestate",
                   message="conversion must store the tensor and only then clear as_operators (no state "
                           "with as_operators False and data unset)", loc=f.loc())
    # a converted tensor must be in the same flag state as one created directly in tensor form: the methods of the
    # hierarchy (TDRedfieldRelaxationTensor.transform reads _data_initialized) choose their branch by these flags
    g0 = prog.func(RED + "._post_implementation")
    br = [s_ for s_ in g0.node.body if isinstance(s_, ast.If) and norm(s_.test) == "self.as_operators"]
    if len(br) != 1 or not br[0].orelse:
        raise AnalysisError("_post_implementation: branch on self.as_operators with a tensor branch not found")

    def flag_stores(stmts):
        out = {}
        for st_ in stmts:
            for n_ in ast.walk(st_):
                if isinstance(n_, ast.Assign) and isinstance(n_.value, ast.Constant) and isinstance(n_.value.value, bool):
                    for t_ in n_.targets:
                        if isinstance(t_, ast.Attribute) and isinstance(t_.value, ast.Name) and t_.value.id == "self":
                            out[t_.attr] = n_.value.value
        return out
    direct = flag_stores(br[0].orelse)
    conv = flag_stores(ifs[0].body) if ifs else {}
    readers = sorted({"%s.%s" % (c_.name, fn_.name) for c_ in prog.all_classes() if prog.is_subclass(c_, "RedfieldRelaxationTensor")
                      or c_.name == "RedfieldRelaxationTensor" for fn_ in c_.methods.values()
                      for n_ in ast.walk(fn_.node) if isinstance(n_, ast.Attribute) and isinstance(n_.ctx, ast.Load)
                      and n_.attr in direct and isinstance(n_.value, ast.Name) and n_.value.id == "self"})
    missing = sorted(a for a, v in direct.items() if conv.get(a) != v)
    run.obligation(rid, "RedfieldRelaxationTensor.convert_2_tensor", not missing and bool(direct), key="same-flag-state",
                   message="a tensor created in tensor form carries %s; convert_2_tensor() does not set %s, so a converted "
                           "tensor is in a different state and the methods that branch on these flags (%s) treat it as "
                           "still being in operator form" % (direct, missing, readers[:4]), loc=f.loc(),
                   sample={"flags_of_the_direct_form": direct, "flags_set_by_conversion": conv, "readers": readers})
    # _post_implementation stores either form
    g = prog.func(RED + "._post_implementation")
    st = [norm(s) for s in ast.walk(g.node) if isinstance(s, ast.stmt)]
    ok = all(x in st for x in ("self.Km = Km", "self.Lm = Lm", "self.Ld = Ld",
                               "RR = self._convert_operators_2_tensor(Km, Lm, Ld)", "self.data = RR"))
    run.obligation(rid, "RedfieldRelaxationTensor._post_implementation", ok, key="store-forms",
                   message="_post_implementation must store the three operators or the tensor "
                           "assembled from the same three operators", loc=g.loc())
    for qual in (LS + "relaxationtensor.RelaxationTensor.secularize", LS + "secular.Secular._secularize_data"):
        s = prog.func(qual)
        # the conversion must precede the first loop
        first_loop = None
        conv_at = None
        for k, n in enumerate(ast.walk(s.node)):
            if isinstance(n, ast.For) and first_loop is None:
                first_loop = n.lineno
            if isinstance(n, ast.If) and norm(n.test) == "self.as_operators" and \
                    any(isinstance(c, ast.Call) and call_name(c) == "convert_2_tensor" for c in ast.walk(n)):
                conv_at = n.lineno
        ok = conv_at is not None and first_loop is not None and conv_at < first_loop
        run.obligation(rid, s.short, ok, key="convert-first",
                       message="secularisation must convert an operator-form tensor before masking",
                       loc=s.loc())
    # apply() falls back to the tensor contraction when not in operator form
    a = prog.func(RED + ".apply")
    ifs = [s for s in a.node.body if isinstance(s, ast.If) and norm(s.test) == "self.as_operators"]
    ok = len(ifs) == 1 and [norm(x) for x in ifs[0].orelse] == ["return super().apply(oper, copy=copy)"]
    run.obligation(rid, "RedfieldRelaxationTensor.apply", ok, key="dispatch",
                   message="apply() must use the tensor contraction of the base class when the tensor "
                           "is not in operator form", loc=a.loc())
    sa = prog.func(LS + "superoperator.SuperOperator.apply")
    calls = [norm(n) for n in ast.walk(sa.node) if isinstance(n, ast.Call) and call_name(n) == "tensordot"]
    run.obligation(rid, "SuperOperator.apply", bool(calls) and all("self.data" in c or "self._data" in c for c in calls),
                   key="contraction", message="SuperOperator.apply must contract the stored tensor "
                                              "with the operand (default tensordot axes)", loc=sa.loc(),
                   sample={"calls": calls[:3]})


def rule_C(run, prog):
    # re-evaluate the C04-B4 instances that concern the two forms of the Redfield classes
    before = len(run.findings)

    class Proxy:
        def __init__(self, run):
            self.run = run

        def obligation(self, rid, construct, ok, **kw):
            if "Redfield" in construct:
                self.run.obligation("C07-C", construct, ok, **kw)

        def __getattr__(self, name):
            return getattr(self.run, name)
    c04.rule_B4(Proxy(run), prog)


# ----------------------------------------------------------------------
def _alpha(stmts):
    """alpha-normalise a list of assignments: assigned names -> v0, v1, ..."""
    mp = {}
    out = []
    for st in stmts:
        st = copy.deepcopy(st)
        for n in ast.walk(st.value):
            if isinstance(n, ast.Name) and n.id in mp:
                n.id = mp[n.id]
        tgt = st.targets[0]
        if isinstance(tgt, ast.Name):
            mp[tgt.id] = "v%d" % len(mp)
            tgt.id = mp[tgt.id]
        out.append(norm(st))
    return out, mp


def rule_D(run, prog):
    rid = "C07-D"
    ti = prog.func(RED + "._guts_Cmplx_Splines")
    td = prog.func(TDRED + "._implementation")

    def inner_body(func, must_have):
        for n in ast.walk(func.node):
            if isinstance(n, ast.For) and any(isinstance(s, ast.Assign) and norm(s.targets[0]) == must_have
                                              for s in n.body):
                return n.body
        raise AnalysisError("%s: integrand loop not found" % func.short)
    b1 = inner_body(ti, "eexp")
    b2 = inner_body(td, "eexp")
    a1 = [s for s in b1 if isinstance(s, ast.Assign)]
    a2 = [s for s in b2 if isinstance(s, ast.Assign)]
    n1, m1 = _alpha(a1)
    n2, m2 = _alpha(a2)
    same = n1[:-1] == n2[:-1] and len(n1) == len(n2) and len(n1) >= 6
    run.obligation(rid, "TD vs TI integrand", same, key="pipeline",
                   message="the integrand/antiderivative pipelines of the time-dependent and the "
                           "time-independent Redfield tensors differ: %s vs %s" % (n2[:-1], n1[:-1]),
                   loc=td.loc(), sample={"pipeline": n1[:-1]})
    # the two implementations integrate over the same window of the time axis, with and without a
    # cut-off time: the time-dependent tensor at its last index can equal the time-independent one
    # only if "up to the cut-off" means the same number of points in both
    tiimp = prog.func(RED + "._implementation")

    def window(func):
        for n in walk_no_nested(func.node):
            if isinstance(n, ast.If) and norm(n.test) == "self._has_cutoff_time":
                def asg(body):
                    return {norm(s_.targets[0]): norm(s_.value) for s_ in body if isinstance(s_, ast.Assign)}
                return asg(n.body), asg(n.orelse)
        raise AnalysisError("%s: cut-off branch not found" % func.short)
    w1, w2 = window(tiimp), window(td)
    for k, label in ((0, "with cut-off"), (1, "without cut-off")):
        ok = w1[k] == w2[k] and len(w1[k]) >= 2
        run.obligation(rid, "TD vs TI integration window", ok, key="window:" + label.replace(" ", "-"),
                       message="the time-independent and the time-dependent Redfield tensor integrate over different "
                               "windows %s: %s vs %s" % (label, w1[k], w2[k]), loc=td.loc(),
                       sample={"window": w1[k], "case": label})
    # last statement: TI takes element length-1 of what TD keeps whole
    last1, last2 = a1[-1], a2[-1]
    carried = set(m2.values())
    e2 = copy.deepcopy(last2.value)

    class Sub(ast.NodeTransformer):
        def visit_Name(self, node):
            if node.id in m2 and m2[node.id] in ("v4", "v5") or node.id in ("sr", "si"):
                return ast.Subscript(value=node, slice=ast.BinOp(left=ast.Name(id="length", ctx=ast.Load()),
                                                                 op=ast.Sub(), right=ast.Constant(1)),
                                     ctx=ast.Load())
            return node
    e2 = ast.fix_missing_locations(Sub().visit(e2))
    ok = norm(e2) == norm(last1.value)
    run.obligation(rid, "TD vs TI integrand", ok, key="last-element",
                   message="the time-independent tensor must take the last element (length-1) of the "
                           "running integral that the time-dependent tensor keeps: TI '%s' vs TD '%s'"
                   % (norm(last1.value), norm(last2.value)), loc=ti.loc(),
                   sample={"TI": norm(last1.value), "TD": norm(last2.value)})
    # accumulation into Lambda: same K element, all times vs single value
    s1 = [s for s in b1 if isinstance(s, ast.AugAssign)]
    s2 = [s for s in b2 if isinstance(s, ast.AugAssign)]
    ok = len(s1) == 1 and len(s2) == 1 and norm(s1[0].target) == "Lm[ms, a, b]" and \
        norm(s2[0].target) == "Lm[:, ms, a, b]" and norm(s1[0].value) == "cc_mnab * Km[ms, a, b]" and \
        norm(s2[0].value) in ("cc_mnab * Km[ns, a, b]", "cc_mnab * Km[ms, a, b]")
    # in the TD routine ns must be ms
    ns_def = [n for n in ast.walk(td.node) if isinstance(n, ast.Assign) and norm(n.targets[0]) == "ns"]
    ok = ok and all(norm(n.value) == "ms" for n in ns_def) and len(ns_def) >= 1
    run.obligation(rid, "TD vs TI integrand", ok, key="accumulate",
                   message="Lambda_m must accumulate integral x K_m[a,b] with the same bath index in "
                           "both routines", loc=td.loc(),
                   sample={"TI": norm(s1[0]) if s1 else None, "TD": norm(s2[0]) if s2 else None})


ADJOINT_IDIOMS = ("numpy.conj(numpy.transpose(%s))", "numpy.transpose(numpy.conj(%s))", "numpy.conjugate(numpy.transpose(%s))",
                  "numpy.transpose(numpy.conjugate(%s))", "%s.conj().T", "%s.T.conj()", "numpy.conj(%s.T)", "numpy.conj(%s).T")


def rule_H(run, prog):
    """'Act identically on every operator in every basis': the operator form evaluates K rho Ld + Lm rho K+ - K+ Lm rho -
    rho Ld K.  Km, Lm and Ld are brought into a basis by the similarity transformation; K+ is formed from Km on the
    spot.  The plain transpose is K+ only while Km is real - in the eigenbasis of a complex Hermitian operator it is
    the complex conjugate of K+, and the operator form no longer agrees with the four-index form (which transforms
    covariantly).  In apply() and in the conversion to the tensor form every array named as the conjugate of Km is
    conj(transpose(Km[..])) and is not forced into a real array."""
    rid = "C07-H"
    cls = prog.cls(LS + "redfieldtensor.RedfieldRelaxationTensor")
    for nme in ("apply", "_convert_operators_2_tensor"):
        f = cls.methods[nme]
        prog.consulted.add(f.relpath)
        fills = [n for n in ast.walk(f.node) if isinstance(n, ast.Assign) and (
            norm(n.targets[0]) == "Kd" or (isinstance(n.targets[0], ast.Subscript) and norm(n.targets[0].value) == "Kd"))
            and not (isinstance(n.value, ast.Call) and call_name(n.value) in ("zeros", "zeros_like", "empty"))]
        allocs = [n for n in ast.walk(f.node) if isinstance(n, ast.Assign) and norm(n.targets[0]) == "Kd"
                  and isinstance(n.value, ast.Call) and call_name(n.value) in ("zeros", "empty")]
        if not fills:
            raise AnalysisError("%s: the conjugated operators Kd are no longer formed here" % f.short)
        for st in fills:
            ok = False
            for x in ast.walk(st.value):
                if isinstance(x, ast.Subscript) and norm(x.value) == "Km":
                    ok = ok or any(norm(st.value) == idiom % norm(x) for idiom in ADJOINT_IDIOMS)
            run.obligation(rid, f.short, ok, key="adjoint:" + norm(st.targets[0])[:20],
                           message="%s forms the conjugate of the system operators as %s: the plain transpose is the Hermitian "
                                   "conjugate only for real operators; in the eigenbasis of a complex Hermitian operator the "
                                   "operator form then acts differently from the four-index form" % (f.short, norm(st.value)[:60]),
                           loc=f.loc(st), sample={"statement": norm(st)[:80]})
        for a_ in allocs:
            dt = [norm(k_.value) for k_ in a_.value.keywords if k_.arg == "dtype"]
            real = bool(dt) and dt[0] in ("numpy.float64", "REAL", "float", "qr.REAL", "numpy.double")
            run.obligation(rid, f.short, not real, key="adjoint-storage",
                           message="%s allocates the conjugated operators with the real element type %s: their imaginary parts "
                                   "are dropped" % (f.short, dt[0] if dt else ""), loc=f.loc(a_), sample={"allocation": norm(a_)[:80]})


def rule_I(run, prog):
    """'Generate the same propagated dynamics / reproduce exp(-i w t - g(t)) up to the time-step error' with a
    time-dependent tensor known on the time axis of its system-bath interaction.  In every routine of the propagator that
    reads `self.RelaxationTensor.data[indxR, ...]` with a running index:
    (i) the bound of that index (cutoff_indx) comes from the axis of the tensor (…SystemBathInteraction.TimeAxis) in both
    branches - located with the propagation axis it freezes the tensor at the wrong time whenever the two grids differ;
    (ii) the step dt = sysstep*stride with stride = round(step/sysstep)//Nref equals step/Nref only if the ratio is a whole
    number >= 1: the rounded ratio is compared back with the ratio (a refusal that mentions the rounded ratio, the
    tensor's step and the propagation step), otherwise a ratio of 0.5 gives dt = 0 and nothing is propagated."""
    rid = "C07-I"
    cls = prog.cls(RDMMOD + ".ReducedDensityMatrixPropagator")
    n = 0
    for nme, fn in sorted(cls.methods.items()):
        reads = [x for x in walk_no_nested(fn.node) if isinstance(x, ast.Subscript)
                 and norm(x.value) in ("self.RelaxationTensor.data", "self.RelaxationTensor.Lm", "self.RelaxationTensor.Ld")
                 and isinstance(x.slice, ast.Tuple) and isinstance(x.slice.elts[0], ast.Name)]
        if not reads:
            continue
        # (iii) the running index advances by the number of tensor points per refinement step
        idx = reads[0].slice.elts[0].id
        ups = [st for st in walk_no_nested(fn.node) if (isinstance(st, ast.AugAssign) and norm(st.target) == idx)
               or (isinstance(st, ast.Assign) and norm(st.targets[0]) == idx and not isinstance(st.value, ast.Constant))]
        for u in ups:
            n += 1
            ok_u = any(isinstance(y, ast.Name) and y.id == "stride" for y in ast.walk(u.value))
            run.obligation(rid, fn.short, ok_u, key="index-advances-by-stride:" + norm(u)[:40],
                           message="%s advances the index into the time-dependent tensor with '%s', independent of the ratio of the "
                                   "propagation step and the tensor's step: on different grids the tensor is read at the wrong times "
                                   "(relaxation runs too slowly or too fast)" % (fn.short, norm(u)[:50]), loc=fn.loc(u))
        prog.consulted.add(fn.relpath)
        bounds = [st for st in walk_no_nested(fn.node) if isinstance(st, ast.Assign) and norm(st.targets[0]) == "cutoff_indx"]
        if not bounds:
            raise AnalysisError("%s: bound of the tensor index not found" % fn.short)
        names = {}
        for st in walk_no_nested(fn.node):
            if isinstance(st, ast.Assign) and isinstance(st.targets[0], ast.Name):
                names[st.targets[0].id] = norm(st.value)
        for b in bounds:
            n += 1
            root = b.value.func.value if isinstance(b.value, ast.Call) and isinstance(b.value.func, ast.Attribute) else \
                (b.value.value if isinstance(b.value, ast.Attribute) else b.value)
            txt = norm(root)
            head = txt.split(".")[0]
            if head in names:
                txt = names[head] + txt[len(head):]
            ok = "SystemBathInteraction.TimeAxis" in txt
            run.obligation(rid, fn.short, ok, key="bound-on-tensor-axis:" + norm(b.value)[:40],
                           message="%s bounds the running index into the tensor with %s: the index counts points of the axis the "
                                   "tensor is known on, the bound is taken on another axis, so with different grids the tensor is frozen "
                                   "at the wrong time" % (fn.short, norm(b.value)[:60]), loc=fn.loc(b))
        rounds = [st for st in walk_no_nested(fn.node) if isinstance(st, ast.Assign) and isinstance(st.value, ast.Call)
                  and call_name(st.value) == "round" and isinstance(st.targets[0], ast.Name)]
        for r_ in rounds:
            n += 1
            nm = r_.targets[0].id
            checked = [t_ for t_ in walk_no_nested(fn.node) if isinstance(t_, ast.If) and any(isinstance(x, ast.Raise) for x in t_.body)
                       and nm in {y.id for y in ast.walk(t_.test) if isinstance(y, ast.Name)}
                       and "sysstep" in norm(t_.test) and "self.TimeAxis.step" in norm(t_.test)]
            run.obligation(rid, fn.short, bool(checked), key="ratio-is-whole:" + nm,
                           message="%s rounds the ratio of the propagation step and the tensor's step (%s) and never compares the "
                                   "result with the ratio: 0.5 fs on a 1 fs tensor gives a step of 0 (nothing is propagated, no error), "
                                   "1.5 fs makes time run 4/3 too fast" % (fn.short, norm(r_)[:60]), loc=fn.loc(r_))
    if n < 6:
        raise AnalysisError("only %d bounds / rounded ratios found in the time-dependent routines (6 confirmed)" % n)
