"""C06 - rates and bath functions obey detailed balance and conserve
probability.

Decided statically: depopulation rates are negative column sums written on a
zero diagonal (R1, index algebra); the uphill Redfield rate is the downhill
expression with the indices exchanged times exp(-(E_i-E_j)/kT), both read the
transformed correlation function at the same positive frequency, the cut-off
is symmetric (R2, scalar algebra on the two branches); spectral densities are
odd in frequency (R3, parity types); the thermal factor is 1 + coth(w/2kT) in
every branch and the zero-frequency value is its limit (R4); the population
block of the Redfield tensor is built from the same operator elements and the
same transition frequency as the rate kernel (R5).  Not decided:
non-negativity, golden-rule values, accuracy of the half-Fourier transform.
"""
import ast

from ..loader import AnalysisError, norm, walk_no_nested, call_name, parents_map
from .. import ta
from ..ta import Expr, Array, Facts, normal, show_normal
from ..ta_front import Interp, Obj, Index, Unknown
from . import tensors

RR_ = "quantarhei.qm.liouvillespace.rates.redfieldrates."
SD = "quantarhei.qm.corfunctions.spectraldensities.SpectralDensity."


def check(run, prog, tier):
    run.explanation = (
        "Index-algebra interpretation of the two rate kernels (column sums are polynomial "
        "identities), scalar-algebra comparison of the uphill and downhill branches of "
        "RedfieldRateMatrix._set_rates under exchange of the indices, parity typing (even/odd under "
        "w -> -w) of every analytical spectral-density formula, scalar-algebra check of the thermal "
        "factor expressions and of the zero-frequency limit, and TA identity linking the tensor's "
        "population block to K*(Lambda + conj Lambda). The identity coth(x)-1 = exp(-2x)(coth(x)+1) "
        "behind C(-w) = exp(-w/kT) C(w) is stated, not re-proved.")
    run.trusted_base = ["for odd J: (1+coth(-x))J(-w) = exp(-2x)(1+coth x)J(w), x = w/2kT",
                        "cw.at(w) evaluates the Fourier-transformed correlation function at frequency w"]
    run.rule("C06-R1", "depopulation = negative column sum on a zero diagonal (TA)", minimum=4)
    run.rule("C06-R2", "detailed balance by construction of the uphill rate (scalar algebra)", minimum=5)
    run.rule("C06-R3", "spectral densities are odd in frequency (parity types)", minimum=5)
    run.rule("C06-R4", "thermal factor is 1 + coth(w/2kT); zero-frequency limit", minimum=4)
    run.rule("C06-R5", "tensor population block uses the same operators and frequency as the rate kernel", minimum=3)
    run.rule("C06-R7", "Foerster rate K[a<-b]: donor arguments carry the donor index b, acceptor arguments the "
                       "acceptor index a (role binding through the integral's parameters)", minimum=2)
    run.rule("C06-R6", "rate and tensor kernels work on their own copies of the system-bath operators "
                       "(effect analysis with field aliases)", minimum=3)
    rule_R1(run, prog)
    rule_R2(run, prog)
    rule_R3(run, prog)
    rule_R4(run, prog)
    rule_R5(run, prog)
    rule_R6(run, prog)
    rule_R7(run, prog)
    run.rule("C06-R8", "rate matrices and the Redfield tensor read the Hamiltonian, reorganisation energies and "
                       "Fourier-transformed correlation functions under internal units", minimum=6)
    from . import intunits
    LS = "quantarhei.qm.liouvillespace."
    intunits.check_classes(run, prog, "C06-R8",
                           [LS + "rates.redfieldrates.RedfieldRateMatrix", LS + "rates.foersterrates.FoersterRateMatrix",
                            LS + "rates.tdredfieldrates.TDRedfieldRateMatrix",
                            LS + "redfieldtensor.RedfieldRelaxationTensor"], 6,
                           "kT, the frequency cut-off and the time axis are internal: the rates no longer obey "
                           "detailed balance at the stated temperature")
    run.rule("C06-R9", "every integral over time or frequency carries the spacing of its axis: a spline built over the axis, or "
                       "a quadrature routine given x= or dx= (one without integrates with unit spacing, the rate is off by 1/step)",
             minimum=30)
    rule_R9(run, prog)
    run.rule("C06-R10", "the Matsubara series of the Brownian-oscillator correlation function is summed completely (a skipped term "
                        "is skipped by a two-sided resonance test only)", minimum=1)
    rule_R10(run, prog)
    run.rule("C06-R11", "in the builders of the rate matrices and tensors every sum over sites runs over the site index of the "
                        "eigenvector matrix (eigh: rows count site-basis states, columns eigenstates): index variables, products and "
                        "transposes keep one role per axis (axis-role typing, qv/roles.py)", minimum=6)
    rule_R11(run, prog)


def rule_R11(run, prog):
    """'... detailed balance of the Foerster rates in the combined tensor': the reorganisation energy and line-shape function
    of eigenstate a are sums over sites n of |SS[n, a]|^4 times the site quantity.  All functions of the Liouville-space
    package that diagonalise with numpy.linalg.eigh are typed."""
    from .. import roles
    rid = "C06-R11"
    total = 0
    for f in list(prog.all_functions()):
        if not f.module.name.startswith("quantarhei.qm.liouvillespace") or not isinstance(f.node, ast.FunctionDef):
            continue
        r = roles.analyse(f.node)
        if not r.env:
            continue
        prog.consulted.add(f.relpath)
        total += r.checked
        seen = set()
        finds = [(n_, m_) for n_, m_ in r.findings if not (m_ in seen or seen.add(m_))]
        run.obligation(rid, f.short, not finds, key="roles",
                       message="%s: %s - the sum mixes the two bases (for a dimer |SS|^4 is symmetric and nothing shows; with three "
                               "or more molecules the eigenstate gets the quantity of the wrong combination of sites)"
                               % (f.short, finds[0][1] if finds else ""), loc=f.loc(finds[0][0] if finds else f.node),
                       sample={"typed_arrays": {k: list(v) for k, v in sorted(r.env.items())}, "checked": r.checked})
    run.count(rid, total) if hasattr(run, "count") else None
    if total < 30:
        raise AnalysisError("C06-R11: only %d subscripts and contractions with known axis roles (37 confirmed)" % total)


def rule_R10(run, prog):
    """'C(-w) = exp(-w/kT) C(w)' for the analytical Brownian-oscillator function rests on the Matsubara series of its real
    part: sum over n = 1..N of nu_n exp(-nu_n t) / (nu_n^2 - 1/tau^2), all N terms - those with nu_n < 1/tau (cold, fast
    baths) have negative denominators and are the ones that compensate the cotangent prefactor.  In _matsubara the
    accumulation into the sum is executed in every pass of the loop; a condition around it (or a `continue` before it)
    is accepted only as a two-sided resonance test, i.e. a comparison of abs(...) with a tolerance.  A one-sided
    `nu_n - 1/tau < tol` drops every term below the relaxation rate."""
    rid = "C06-R10"
    f = prog.func("quantarhei.qm.corfunctions.correlationfunctions.CorrelationFunction._matsubara")
    prog.consulted.add(f.relpath)
    loops = [x for x in walk_no_nested(f.node) if isinstance(x, ast.For)]
    ret = [x for x in walk_no_nested(f.node) if isinstance(x, ast.Return) and x.value is not None]
    if len(loops) != 1 or not ret:
        raise AnalysisError("_matsubara: one loop over the Matsubara frequencies and a returned sum expected")
    acc = norm(ret[0].value)
    lp = loops[0]
    pm = parents_map(f.node)
    adds = [x for x in ast.walk(lp) if isinstance(x, ast.AugAssign) and isinstance(x.op, ast.Add) and norm(x.target) == acc]
    if not adds:
        raise AnalysisError("_matsubara: no accumulation into %s inside the loop" % acc)

    def two_sided(t_):
        return isinstance(t_, ast.Compare) and any(isinstance(y, ast.Call) and (call_name(y) or "").split(".")[-1] in ("abs", "absolute", "fabs", "isclose")
                                                   for y in ast.walk(t_))
    for a_ in adds:
        conds = []
        node = a_
        while node is not lp:
            par = pm.get(node)
            if isinstance(par, ast.If):
                conds.append(par.test)
            node = par
        # `continue` statements earlier in the loop body
        for st in lp.body:
            if st.lineno >= a_.lineno:
                break
            for y in ast.walk(st):
                if isinstance(y, ast.Continue):
                    c_ = pm.get(y)
                    while c_ is not None and not isinstance(c_, ast.If):
                        c_ = pm.get(c_)
                    conds.append(c_.test if c_ is not None else ast.Constant(value=True))
        bad = [c for c in conds if not two_sided(c)]
        run.obligation(rid, f.short, not bad, key="every-term-added",
                       message="the Matsubara sum skips terms under `%s`: this is not a two-sided resonance test (no modulus), so "
                               "every frequency on one side of the relaxation rate is left out - for 2 pi kT tau < 1 the real part of "
                               "C(t) is wrong and the bath violates C(-w) = exp(-w/kT) C(w)" % (norm(bad[0])[:60] if bad else ""),
                       loc=f.loc(bad[0]) if bad else f.loc(a_), sample={"conditions": [norm(c)[:60] for c in conds]})


QUAD = ("trapz", "trapezoid", "cumtrapz", "cumulative_trapezoid", "simps", "simpson", "cumulative_simpson", "romb")


def rule_R9(run, prog, rid="C06-R9", floor=30):
    """'... equal the golden-rule value within the accuracy of the numerical half-Fourier transform': the rates are running
    integrals of C(t) exp(i w t) over the time axis.  The package takes them in two ways: splines over the axis values
    (`UnivariateSpline(t, f).antiderivative()(t)`, `.integral(a, b)`), which know the spacing, and quadrature routines of
    scipy / numpy, which do not unless told: `cumulative_trapezoid(f)` integrates with dx = 1 whatever the step of the axis
    is.  Every quadrature call of the package must name its abscissa (second positional argument, x=) or its step (dx=).
    A cumulative sum used as an integral must be multiplied by a step in the same expression."""
    n = 0
    for f in prog.all_functions():
        if ".tests." in f.qualname or ".wizard." in f.qualname:
            continue
        for c in walk_no_nested(f.node):
            if not isinstance(c, ast.Call):
                continue
            cn = (call_name(c) or "").split(".")[-1]
            if cn in ("antiderivative", "integral") and isinstance(c.func, ast.Attribute):
                n += 1
                prog.consulted.add(f.relpath)
                run.obligation(rid, f.short, True, key="spline:%d" % n, loc=f.loc(c), message="")
            elif cn in QUAD:
                n += 1
                prog.consulted.add(f.relpath)
                ok = len(c.args) >= 2 or any(k.arg in ("x", "dx") for k in c.keywords)
                par = parents_map(f.node).get(c)
                if isinstance(par, ast.BinOp) and isinstance(par.op, ast.Mult):
                    ok = True       # unit-spacing sum times the step, written out
                run.obligation(rid, f.short, ok, key="quadrature-spacing:" + norm(c)[:40],
                               message="%s integrates `%s` with unit spacing: neither the abscissa (x=) nor the step (dx=) of the axis "
                                       "is given, so the integral - a rate, a line-shape function - comes out multiplied by 1/step "
                                       "on every axis whose step is not 1" % (f.short, norm(c)[:70]),
                               loc=f.loc(c), sample={"call": norm(c)[:60]})
    if n < floor:
        raise AnalysisError("%s: only %d integrals found in the package (%d confirmed)" % (rid, n, floor))


def rule_R1(run, prog):
    rid = "C06-R1"
    f = prog.func("quantarhei.implementations.python.redfieldrates.ssRedfieldRateMatrix")
    prog.consulted.add(f.relpath)

    def oracle(it, test, env):
        t = norm(test)
        if t.startswith("RR[") and "<" in t:
            return False        # no negative rate: the clamp is not taken
        return None
    RR = Array.zeros(2, name="RR")
    KI = Array.opaque("KI", 3)
    cc = Array.opaque("cc", 3)
    it = Interp(prog, lenient=True, branch_oracle=oracle)
    it.call_function(f, [Expr.factor("Na"), Expr.factor("Nk"), KI, cc, Expr.factor("rtol"),
                         Array.zeros(1, name="werror"), RR])
    el = RR.at("i", "j")
    if not normal(el):
        raise AnalysisError("ssRedfieldRateMatrix: nothing interpreted (%s)" % it.havoc_log[:2])
    cs = normal(RR.at("x", "j").sum_over("x"))
    run.obligation(rid, "ssRedfieldRateMatrix", not cs, key="column-sums",
                   message="columns of the Redfield rate matrix do not sum to zero: %s" % show_normal(cs, 3), loc=f.loc(),
                   sample={"K[i,j]": show_normal(normal(el), 4)})
    off = normal(el * (Expr.const(1) - Expr.delta("i", "j")) -
                 (cc.at("k", "i", "j") * KI.at("k", "i", "j") * KI.at("k", "j", "i")).sum_over("k") *
                 (Expr.const(1) - Expr.delta("i", "j")))
    run.obligation(rid, "ssRedfieldRateMatrix", not off, key="kernel",
                   message="off-diagonal rate is not sum_k c_k[i,j] K_k[i,j] K_k[j,i]: %s" % show_normal(off, 3), loc=f.loc(),
                   sample={"identity": "K[i,j] = sum_k cc[k,i,j] KI[k,i,j] KI[k,j,i] (i != j)"})
    # clamp of tiny negative rates happens before the value is subtracted from the diagonal
    sub = [n for n in ast.walk(f.node) if isinstance(n, ast.AugAssign) and norm(n.target) == "RR[j, j]"]
    clamp = [n for n in ast.walk(f.node) if isinstance(n, ast.Assign) and norm(n.targets[0]) == "RR[i, j]"
             and norm(n.value) == "0.0"]
    ok = len(sub) == 1 and len(clamp) == 1 and clamp[0].lineno < sub[0].lineno
    run.obligation(rid, "ssRedfieldRateMatrix", ok, key="clamp-before-diagonal",
                   message="a clamped rate must be clamped before it enters the diagonal", loc=f.loc())
    # caller passes fresh zeros
    c = prog.func(RR_ + "RedfieldRateMatrix._set_rates")
    st = sorted([n for n in walk_no_nested(c.node) if isinstance(n, (ast.Assign, ast.Expr))], key=lambda n: n.lineno)
    z = [n for n in st if isinstance(n, ast.Assign) and norm(n.targets[0]) == "self.data"
         and isinstance(n.value, ast.Call) and call_name(n.value) == "zeros"]
    call = [n for n in st if isinstance(n, ast.Expr) and isinstance(n.value, ast.Call)
            and call_name(n.value) == "ssRedfieldRateMatrix"]
    ok = len(z) == 1 and len(call) == 1 and z[0].lineno < call[0].lineno and norm(call[0].value.args[-1]) == "self.data"
    run.obligation(rid, "RedfieldRateMatrix._set_rates", ok, key="zero-accumulator",
                   message="the kernel must accumulate into freshly zeroed data", loc=c.loc())
    # Foerster rates
    g = prog.func("quantarhei.qm.liouvillespace.rates.foersterrates._reference_implementation")
    it = Interp(prog, lenient=True)
    KK = it.call_function(g, [Expr.factor("Na"), Array.opaque("HH", 2), Unknown("tt"), Array.opaque("gt", 2),
                              Array.opaque("ll", 1)])
    if not isinstance(KK, Array) or not normal(KK.at("i", "j")):
        raise AnalysisError("foersterrates._reference_implementation: not interpreted")
    cs = normal(KK.at("x", "j").sum_over("x"))
    run.obligation(rid, "foersterrates._reference_implementation", not cs, key="column-sums",
                   message="columns of the Foerster rate matrix do not sum to zero: %s" % show_normal(cs, 3), loc=g.loc(),
                   sample={"K[i,j]": show_normal(normal(KK.at("i", "j")), 4)})


def rule_R2(run, prog):
    rid = "C06-R2"
    f = prog.func(RR_ + "RedfieldRateMatrix._set_rates")
    stores = [n for n in ast.walk(f.node) if isinstance(n, ast.Assign) and norm(n.targets[0]) == "cc[k, i, j]"]
    if len(stores) != 3:
        raise AnalysisError("_set_rates: expected three stores into cc[k,i,j], found %d" % len(stores))
    pm = parents_map(f.node)
    up = down = cut = None
    for s in stores:
        p = pm.get(s)
        t = norm(p.test) if isinstance(p, ast.If) else ""
        in_body = isinstance(p, ast.If) and s in p.body
        if t == "numpy.abs(Om[j, i]) > freq_cutoff" and in_body:
            cut = s
        elif t == "Om[j, i] < 0.0" and in_body:
            up = s
        elif t == "Om[j, i] < 0.0" and not in_body:
            down = s
    run.obligation(rid, "RedfieldRateMatrix._set_rates", None not in (up, down, cut), key="branches",
                   message="expected the three branches: cut-off, uphill (Om[j,i] < 0) and downhill", loc=f.loc())
    if None in (up, down, cut):
        return
    # Om[a,b] = hD[a] - hD[b]
    om = [n for n in ast.walk(f.node) if isinstance(n, ast.Assign) and norm(n.targets[0]) == "Om[a, b]"]
    ok = len(om) == 1 and norm(om[0].value) == "hD[a] - hD[b]"
    run.obligation(rid, "RedfieldRateMatrix._set_rates", ok, key="transition-frequencies",
                   message="transition frequencies must be Om[a,b] = E_a - E_b of the eigenvalues", loc=f.loc())

    def evaluate(expr, swap):
        hD = Array.opaque("E", 1)
        Om = Array.from_fn(2, lambda a, b: hD.at(a) - hD.at(b))
        i, j = (Index("j"), Index("i")) if swap else (Index("i"), Index("j"))

        def hook(it, func, call, name, args, kwargs):
            if name == "at" and args and isinstance(args[0], Expr):
                nf = normal(args[0])
                return Expr.factor("C{%s}" % ";".join(show_normal(nf, 20)), tuple(sorted(args[0].free())))
            return NotImplemented
        it = Interp(prog, lenient=False, call_hook=hook)
        it.stack.append(f)
        env = {"Om": Om, "i": i, "j": j, "k": Index("k"), "cw": Obj("cw"),
               "kB_intK": Expr.factor("kB"), "Temp": Expr.factor("T")}
        try:
            return it.eval(expr, env), it
        finally:
            it.stack.pop()
    U, it1 = evaluate(up.value, False)
    Dsw, it2 = evaluate(down.value, True)
    ref = ast.parse("numpy.exp(-(Om[i, j])/(kB_intK*Temp))", mode="eval").body
    E, it3 = evaluate(ref, False)
    if not all(isinstance(x, Expr) for x in (U, Dsw, E)):
        raise AnalysisError("_set_rates: branch expressions not algebraic")
    real = [n for x in (U, Dsw, E) for n in x.names() if n.startswith("exp{")] + ["E", "kB", "T"]
    facts = Facts(real=real)
    nf = normal(U - Dsw * E, facts)
    run.obligation(rid, "RedfieldRateMatrix._set_rates", not nf, key="detailed-balance",
                   message="the uphill rate coefficient is not the downhill one with exchanged indices times "
                           "exp(-(E_i-E_j)/kT): difference %s" % show_normal(nf, 3), loc=f.loc(up),
                   sample={"uphill": show_normal(normal(U, facts), 2), "downhill(j,i)": show_normal(normal(Dsw, facts), 2)})
    # both read the spectrum at the same, positive frequency: the argument of cw.at in the uphill branch is Om[i,j]
    # (positive when Om[j,i] < 0) and in the downhill branch Om[j,i] (non-negative)
    ua = [n for n in ast.walk(up.value) if isinstance(n, ast.Call) and call_name(n) == "at"]
    da = [n for n in ast.walk(down.value) if isinstance(n, ast.Call) and call_name(n) == "at"]
    ok = len(ua) == 1 and len(da) == 1 and norm(ua[0].args[0]) == "Om[i, j]" and norm(da[0].args[0]) == "Om[j, i]"
    run.obligation(rid, "RedfieldRateMatrix._set_rates", ok, key="positive-frequency",
                   message="uphill branch must read the spectrum at Om[i,j] > 0 and the downhill one at Om[j,i] >= 0",
                   loc=f.loc(up))
    ok = norm(cut.value) == "0.0"
    run.obligation(rid, "RedfieldRateMatrix._set_rates", ok, key="cutoff-symmetric",
                   message="the high-frequency cut-off must zero both directions (|Om| test)", loc=f.loc(cut))
    # energies are raw internal-unit data
    ok = any(norm(n.value) == "numpy.linalg.eigh(self.ham._data)" for n in ast.walk(f.node) if isinstance(n, ast.Assign))
    run.obligation(rid, "RedfieldRateMatrix._set_rates", ok, key="internal-energies",
                   message="eigenvalues must be computed from the raw internal-unit Hamiltonian (kB_intK is internal)",
                   loc=f.loc())


# ----------------------------------------------------------------------
EVEN, ODD, ZERO, NONE = "even", "odd", "zero", "none"


def _mul(a, b):
    if ZERO in (a, b):
        return ZERO
    if NONE in (a, b):
        return NONE
    return EVEN if a == b else ODD


def _add(a, b):
    if a == ZERO:
        return b
    if b == ZERO:
        return a
    return a if a == b else NONE


def parity(node, env):
    if isinstance(node, ast.Constant):
        return ZERO if node.value == 0 else EVEN
    if isinstance(node, ast.Name):
        return env.get(node.id, EVEN)
    if isinstance(node, ast.Subscript):
        return parity(node.value, env)
    if isinstance(node, ast.UnaryOp):
        return parity(node.operand, env)
    if isinstance(node, ast.BinOp):
        l, r = parity(node.left, env), parity(node.right, env)
        if isinstance(node.op, (ast.Add, ast.Sub)):
            return _add(l, r)
        if isinstance(node.op, (ast.Mult, ast.Div)):
            if isinstance(node.op, ast.Div) and r == ZERO:
                return NONE
            return _mul(l, r)
        if isinstance(node.op, ast.Pow):
            if isinstance(node.right, ast.Constant) and isinstance(node.right.value, int):
                if l == ZERO:
                    return ZERO
                return EVEN if node.right.value % 2 == 0 else l
            if l == EVEN:
                return EVEN
            return NONE
    if isinstance(node, ast.Call):
        nm = call_name(node)
        if nm in ("abs", "exp", "cos", "cosh", "sqrt") and node.args:
            a = parity(node.args[0], env)
            if nm == "abs":
                return EVEN if a in (EVEN, ODD) else a
            return EVEN if a == EVEN else (EVEN if nm in ("cos", "cosh") and a == ODD else NONE)
        if nm in ("sign", "sin", "sinh", "tanh", "arctan") and node.args:
            return parity(node.args[0], env)
        if nm in ("factorial", "convert", "iu_energy", "amax", "amin", "max", "min", "sum", "zeros"):
            return EVEN         # scalars / reductions do not depend on the sign of an individual frequency
    if isinstance(node, ast.Attribute):
        return EVEN
    return NONE


def rule_R3(run, prog):
    rid = "C06-R3"
    cls = prog.cls("quantarhei.qm.corfunctions.spectraldensities.SpectralDensity")
    for mname, f in sorted(cls.methods.items()):
        if not mname.startswith("_make_") or mname == "_make_value_defined":
            continue
        prog.consulted.add(f.relpath)
        env = {"omega": ODD}
        assigns = sorted([n for n in walk_no_nested(f.node) if isinstance(n, ast.Assign)
                          and isinstance(n.targets[0], ast.Name)], key=lambda n: n.lineno)
        special = None
        for n in assigns:
            nm = n.targets[0].id
            if nm == "omega":
                env["omega"] = ODD if norm(n.value) == "self.axis.data" else NONE
                continue
            env[nm] = parity(n.value, env)
        res = env.get("cfce", NONE)
        if mname == "_make_CP29_spectral_density":
            # even line shape made odd explicitly: sign flipped for negative frequencies, zero at the origin
            st = [norm(s) for s in ast.walk(f.node) if isinstance(s, ast.stmt)]
            flip = "cfce[numpy.where(omega < 0)] = -1 * cfce[numpy.where(omega < 0)]" in st
            zero = any(s.startswith("cfce[numpy.isclose(omega, 0") and s.endswith("= 0") for s in st)
            shapes = [s for s in ast.walk(f.node) if isinstance(s, ast.Assign) and norm(s.targets[0]) in ("cfce[g]", "cfce[l]")]
            even = all(parity(s.value, {"omega": ODD, "cfce": EVEN}) == EVEN for s in shapes) and len(shapes) >= 2
            ok = flip and zero and even
            special = "even shape, sign flipped for w<0, zero at 0"
        else:
            ok = res == ODD
        run.obligation(rid, "SpectralDensity." + mname, ok, key="odd",
                       message="spectral density formula is not odd in frequency (parity type: %s): the "
                               "Fourier-transformed correlation function derived from it violates "
                               "C(-w) = exp(-w/kT) C(w)" % res, loc=f.loc(),
                       sample={"builder": mname, "parity": special or res})


# ----------------------------------------------------------------------
# which temperature reaches the thermal factor when the caller requests one
class _TempFlow:
    """Three-valued flow of the entry "T" of the parameter dictionaries through the body of a loop
    over self.params, under the assumption that the temperature argument was given:
    ARG = the requested temperature, OLD = the stored one, UNK = depends on the stored parameters."""

    def __init__(self, arg, dictvar):
        self.arg = arg
        self.dicts = {dictvar: "OLD"}     # dict variable -> value of its "T" entry
        self.env = {}
        self.assigned = {}                # name -> list of values assigned
        self.appended = []                # values of "T" of dictionaries appended to lists

    def test(self, t):
        tx = norm(t)
        if tx == "%s is not None" % self.arg:
            return True
        if tx == "%s is None" % self.arg:
            return False
        return None

    def ev(self, e):
        if isinstance(e, ast.Name):
            if e.id == self.arg:
                return "ARG"
            return self.env.get(e.id, "UNK")
        if isinstance(e, ast.Subscript) and isinstance(e.value, ast.Name) and e.value.id in self.dicts \
                and isinstance(e.slice, ast.Constant) and e.slice.value == "T":
            return self.dicts[e.value.id]
        if isinstance(e, ast.IfExp):
            c = self.test(e.test)
            if c is not None:
                return self.ev(e.body if c else e.orelse)
            a, b = self.ev(e.body), self.ev(e.orelse)
            return a if a == b else "UNK"
        if isinstance(e, ast.Call) and isinstance(e.func, ast.Attribute) and isinstance(e.func.value, ast.Name) \
                and e.func.value.id in self.dicts and e.func.attr == "get" and e.args \
                and isinstance(e.args[0], ast.Constant) and e.args[0].value == "T":
            v = self.dicts[e.func.value.id]
            return v if v == "ARG" else "UNK"
        return "UNK"

    def dict_of(self, e):
        """'T' state when e evaluates to a (copy of a) tracked dictionary, else None"""
        if isinstance(e, ast.Name) and e.id in self.dicts:
            return self.dicts[e.id]
        if isinstance(e, ast.Call):
            if isinstance(e.func, ast.Attribute) and e.func.attr in ("copy", "deepcopy") and not e.args:
                return self.dict_of(e.func.value)
            if call_name(e) in ("dict", "copy", "deepcopy") and len(e.args) == 1:
                return self.dict_of(e.args[0])
        if isinstance(e, ast.Dict) and e.keys and e.keys[0] is None:
            st = self.dict_of(e.values[0])
            for k, v in zip(e.keys[1:], e.values[1:]):
                if isinstance(k, ast.Constant) and k.value == "T":
                    st = self.ev(v)
            return st
        return None

    def run(self, stmts):
        for s in stmts:
            if isinstance(s, ast.Assign) and len(s.targets) == 1:
                t = s.targets[0]
                if isinstance(t, ast.Name):
                    d = self.dict_of(s.value)
                    if d is not None:
                        self.dicts[t.id] = d
                    else:
                        v = self.ev(s.value)
                        self.env[t.id] = v
                        self.assigned.setdefault(t.id, []).append((v, s))
                elif isinstance(t, ast.Subscript) and isinstance(t.value, ast.Name) and t.value.id in self.dicts \
                        and isinstance(t.slice, ast.Constant) and t.slice.value == "T":
                    self.dicts[t.value.id] = self.ev(s.value)
            elif isinstance(s, ast.Expr) and isinstance(s.value, ast.Call) and isinstance(s.value.func, ast.Attribute):
                c = s.value
                recv = c.func.value
                if isinstance(recv, ast.Name) and recv.id in self.dicts:
                    if c.func.attr == "setdefault" and c.args and isinstance(c.args[0], ast.Constant) \
                            and c.args[0].value == "T":
                        if self.dicts[recv.id] != "ARG":
                            self.dicts[recv.id] = "UNK"   # only written when the key is missing
                    elif c.func.attr == "update":
                        for kw in c.keywords:
                            if kw.arg == "T":
                                self.dicts[recv.id] = self.ev(kw.value)
                        for a in c.args:
                            if isinstance(a, ast.Dict):
                                for k, v in zip(a.keys, a.values):
                                    if isinstance(k, ast.Constant) and k.value == "T":
                                        self.dicts[recv.id] = self.ev(v)
                    elif c.func.attr == "pop" and c.args and isinstance(c.args[0], ast.Constant) \
                            and c.args[0].value == "T":
                        self.dicts[recv.id] = "UNK"
                elif c.func.attr == "append" and c.args:
                    d = self.dict_of(c.args[0])
                    if d is not None:
                        self.appended.append((d, s))
            elif isinstance(s, ast.If):
                c = self.test(s.test)
                if c is True:
                    self.run(s.body)
                elif c is False:
                    self.run(s.orelse)
                else:
                    d0, e0 = dict(self.dicts), dict(self.env)
                    self.run(s.body)
                    d1, e1 = self.dicts, self.env
                    self.dicts, self.env = dict(d0), dict(e0)
                    self.run(s.orelse)
                    for k in set(d1) | set(self.dicts):
                        a, b = d1.get(k), self.dicts.get(k)
                        self.dicts[k] = a if a == b else ("UNK" if a is not None and b is not None else (a or b))
                    for k in set(e1) | set(self.env):
                        a, b = e1.get(k), self.env.get(k)
                        self.env[k] = a if (a == b or b is None) else (b if a is None else "UNK")
            elif isinstance(s, (ast.With, ast.Try)):
                self.run(s.body)


def _temperature_flow(run, rid, prog):
    for mname, sink_kind in (("get_FTCorrelationFunction", "thermal-factor"), ("get_CorrelationFunction", "callee")):
        f = prog.func(SD + mname)
        args = [a.arg for a in f.node.args.args]
        if "temperature" not in args:
            raise AnalysisError("%s lost its temperature argument" % mname)
        loops = [n for n in f.node.body if isinstance(n, ast.For) and norm(n.iter) == "self.params"
                 and isinstance(n.target, ast.Name)]
        if len(loops) != 1:
            raise AnalysisError("%s: expected one loop over self.params, found %d" % (mname, len(loops)))
        tf = _TempFlow("temperature", loops[0].target.id)
        tf.run(loops[0].body)
        if sink_kind == "thermal-factor":
            tk = [n for n in ast.walk(f.node) if isinstance(n, ast.Assign) and norm(n.targets[0]) == "twokbt"]
            names = {n.id for n in ast.walk(tk[0].value) if isinstance(n, ast.Name)} if tk else set()
        else:
            calls = [c for c in ast.walk(f.node) if isinstance(c, ast.Call) and call_name(c) == "get_FTCorrelationFunction"]
            names = set()
            for c in calls:
                for kw in c.keywords:
                    if kw.arg == "temperature":
                        names |= {n.id for n in ast.walk(kw.value) if isinstance(n, ast.Name)}
                for a in c.args[:1]:
                    names |= {n.id for n in ast.walk(a) if isinstance(n, ast.Name)}
        sinks = sorted(n for n in names if n in tf.assigned or n == "temperature")
        if not sinks:
            raise AnalysisError("%s: no temperature variable reaches the %s" % (mname, sink_kind))
        bad = [(n, v, norm(s_)) for n in sinks if n in tf.assigned for v, s_ in tf.assigned[n] if v != "ARG"]
        run.obligation(rid, "SpectralDensity." + mname, not bad, key="requested-temperature-wins",
                       message="when a temperature is requested, the %s must use it; here it takes %s" %
                               (sink_kind, [(n, {"OLD": "the stored temperature", "UNK": "a value that depends on "
                                             "whether the parameters already store one"}[v], st) for n, v, st in bad]),
                       loc=f.loc(bad[0] and loops[0]) if bad else f.loc(),
                       sample={"method": mname, "sink": sinks, "values": {n: [v for v, _ in tf.assigned.get(n, [])] for n in sinks}})
        if sink_kind == "callee":
            badp = [norm(s_) for v, s_ in tf.appended if v != "ARG"]
            run.obligation(rid, "SpectralDensity." + mname, bool(tf.appended) and not badp, key="recorded-temperature",
                           message="the parameters handed to the new CorrelationFunction must record the requested "
                                   "temperature (%s)" % badp, loc=f.loc(), sample={"appended": len(tf.appended)})


def rule_R7(run, prog):
    """Detailed balance of Foerster rates with respect to the relaxed site energies E_n - lambda_n rests
    on the integrand exp(-g_d - g_a + i((E_d - E_a) - 2 lambda_d) t): the Stokes shift is the donor's.
    For every store K[a, b] = |J_ab|^2 * integral(...), the argument bound to the integral's parameter
    for the donor energy and the one for the donor reorganisation energy must be indexed by b (the
    column = the state the population leaves), the acceptor energy by a; the two line-shape
    functions must be those of a and b (their order is immaterial when the integral uses only their sum)."""
    rid = "C06-R7"
    sites = [("quantarhei.qm.liouvillespace.rates.foersterrates._reference_implementation",
              "quantarhei.qm.liouvillespace.rates.foersterrates._fintegral"),
             ("quantarhei.qm.liouvillespace.tdfoerstertensor._td_reference_implementation",
              "quantarhei.qm.liouvillespace.tdfoerstertensor._td_fintegral")]
    for fq, iq in sites:
        f, ig = prog.func(fq), prog.func(iq)
        prog.consulted.add(f.relpath)
        ipar = [a.arg for a in ig.node.args.args]
        role = {"donor_energy": None, "acceptor_energy": None, "donor_reorg": None, "g": []}
        # roles are read off the integrand: exp(-gX - gY + 1j*((D - A) - 2*L)*t)
        prod = [n for n in ast.walk(ig.node) if isinstance(n, ast.Assign) and isinstance(n.value, ast.Call)
                and call_name(n.value) == "exp"]
        if len(prod) != 1:
            raise AnalysisError("%s: integrand not found" % ig.short)
        def terms(e, sign=1):
            """additive terms of an expression as (sign, node)"""
            if isinstance(e, ast.BinOp) and isinstance(e.op, ast.Add):
                return terms(e.left, sign) + terms(e.right, sign)
            if isinstance(e, ast.BinOp) and isinstance(e.op, ast.Sub):
                return terms(e.left, sign) + terms(e.right, -sign)
            if isinstance(e, ast.UnaryOp) and isinstance(e.op, ast.USub):
                return terms(e.operand, -sign)
            return [(sign, e)]
        top = terms(prod[0].value.args[0])
        gs = [t_.id for sg, t_ in top if sg == -1 and isinstance(t_, ast.Name)]
        phase = [t_ for sg, t_ in top if sg == 1 and isinstance(t_, ast.BinOp) and isinstance(t_.op, ast.Mult)]
        if len(gs) != 2 or len(phase) != 1:
            raise AnalysisError("%s: integrand outside the recognised form: %s" % (ig.short, norm(prod[0].value.args[0])))
        # 1j * (energy expression) * t : pick the factor that is a sum
        def factors(e):
            if isinstance(e, ast.BinOp) and isinstance(e.op, ast.Mult):
                return factors(e.left) + factors(e.right)
            return [e]
        en = [x for x in factors(phase[0]) if isinstance(x, ast.BinOp) and isinstance(x.op, (ast.Add, ast.Sub))]
        if len(en) != 1:
            raise AnalysisError("%s: energy gap of the integrand not found" % ig.short)
        et = terms(en[0])
        pos = [t_.id for sg, t_ in et if sg == 1 and isinstance(t_, ast.Name)]
        neg = [t_.id for sg, t_ in et if sg == -1 and isinstance(t_, ast.Name)]
        shift = [x.id for sg, t_ in et if sg == -1 and isinstance(t_, ast.BinOp) and isinstance(t_.op, ast.Mult)
                 for x in factors(t_) if isinstance(x, ast.Name)]
        if len(pos) != 1 or len(neg) != 1 or len(shift) != 1:
            raise AnalysisError("%s: energy gap is not (E_d - E_a) - 2 lambda_d: %s" % (ig.short, norm(en[0])))
        role["g"] = gs
        role["donor_energy"], role["acceptor_energy"], role["donor_reorg"] = pos[0], neg[0], shift[0]
        stores = [n for n in ast.walk(f.node) if isinstance(n, ast.Assign) and isinstance(n.targets[0], ast.Subscript)
                  and any(isinstance(c, ast.Call) for c in ast.walk(n.value))
                  and isinstance(n.targets[0].slice, ast.Tuple) and len(n.targets[0].slice.elts) >= 2]
        stores = [n for n in stores if any(isinstance(c, ast.Call) and len(c.args) == len(ipar) for c in ast.walk(n.value))]
        if len(stores) != 1:
            raise AnalysisError("%s: rate store not found (%d candidates)" % (f.short, len(stores)))
        st = stores[0]
        idx = [norm(e) for e in st.targets[0].slice.elts if not isinstance(e, ast.Slice)]
        acc, don = idx[-2], idx[-1]
        call = [c for c in ast.walk(st.value) if isinstance(c, ast.Call) and len(c.args) == len(ipar)][0]
        bound = dict(zip(ipar, call.args))

        def index_of(e):
            """state index an argument is taken at: X[i,i], X[i], X[i,:] directly or through one local"""
            if isinstance(e, ast.Name):
                b_ = [n for n in ast.walk(f.node) if isinstance(n, ast.Assign)
                      and any(isinstance(t_, ast.Name) and t_.id == e.id for t_ in n.targets)]
                if len(b_) == 1:
                    return index_of(b_[0].value)
                return None
            if isinstance(e, ast.Subscript):
                sl = e.slice.elts if isinstance(e.slice, ast.Tuple) else [e.slice]
                names = [norm(x) for x in sl if not isinstance(x, ast.Slice)]
                return names[0] if names and len(set(names)) == 1 else None
            return None
        got = {k: index_of(bound[role[k]]) for k in ("donor_energy", "acceptor_energy", "donor_reorg")}
        gi = sorted(str(index_of(bound[g])) for g in role["g"])
        problems = []
        if got["donor_energy"] != don:
            problems.append("the donor energy is taken at %s" % got["donor_energy"])
        if got["acceptor_energy"] != acc:
            problems.append("the acceptor energy is taken at %s" % got["acceptor_energy"])
        if got["donor_reorg"] != don:
            problems.append("the donor reorganisation energy (Stokes shift) is taken at %s" % got["donor_reorg"])
        if gi != sorted([acc, don]):
            problems.append("the line-shape functions are taken at %s" % gi)
        run.obligation(rid, f.short, not problems, key="roles",
                       message="rate K[%s <- %s]: %s (donor = %s, acceptor = %s)" % (acc, don, "; ".join(problems), don, acc),
                       loc=f.loc(st), sample={"store": norm(st.targets[0]), "donor": don, "acceptor": acc,
                                              "bound": {k: norm(v) for k, v in bound.items()}})


def rule_R6(run, prog):
    """The golden-rule clause is about the coefficients c_na of the eigenstates on the sites: the kernels
    obtain them by transforming the site projectors sbi.KK to the eigenbasis.  If that transformation is
    done in place on the array held by the shared SystemBathInteraction, every later rate matrix or
    tensor built from the same object starts from already transformed operators."""
    from ..effects import Effects
    from . import c15
    rid = "C06-R6"
    E = Effects(prog, depth=3)
    targets = [("quantarhei.qm.liouvillespace.rates.redfieldrates.RedfieldRateMatrix", ("_set_rates",)),
               ("quantarhei.qm.liouvillespace.rates.tdredfieldrates.TDRedfieldRateMatrix", ("_set_rates",)),
               ("quantarhei.qm.liouvillespace.rates.foersterrates.FoersterRateMatrix", ("_set_rates", "_reference_implementation")),
               ("quantarhei.qm.liouvillespace.redfieldtensor.RedfieldRelaxationTensor", ("_implementation",))]
    for q, names in targets:
        cls = prog.cls(q)
        hold = c15._input_holders(prog, cls) | {"Hamiltonian", "SystemBathInteraction"}
        for nme in names:
            f = cls.methods.get(nme)
            if f is None:
                continue
            params = [a.arg for a in f.node.args.args if a.arg != "self"]
            roots = [(x,) for x in params] + [("self", h) for h in sorted(hold)]
            found = [x for x in c15._scan(prog, E, f, roots) if x[1] == "store"]
            run.obligation(rid, f.short, not found, key="inputs-intact",
                           message="%s writes into its inputs: %s" % (f.short, "; ".join("%s <- %s" % (r, t) for r, _, t, _ in found[:3])),
                           loc=f.loc(found[0][3]) if found else f.loc(),
                           sample={"function": f.short, "inputs": [".".join(r) for r in roots][:6]})


def rule_R4(run, prog):
    rid = "C06-R4"
    _temperature_flow(run, rid, prog)
    f = prog.func(SD + "get_FTCorrelationFunction")
    tk = [n for n in ast.walk(f.node) if isinstance(n, ast.Assign) and norm(n.targets[0]) == "twokbt"]
    ok = len(tk) == 1 and norm(tk[0].value) in ("2.0 * kB_int * temp", "2 * kB_int * temp")
    run.obligation(rid, "SpectralDensity.get_FTCorrelationFunction", ok, key="2kT",
                   message="the thermal energy in the factor must be 2*kB_int*T (internal units)", loc=f.loc())
    sites = [n for n in ast.walk(f.node) if isinstance(n, ast.Assign) and norm(n.targets[0]) in ("vals", "auxi")
             and any(isinstance(c, ast.Call) and call_name(c) == "tanh" for c in ast.walk(n.value))]
    if len(sites) != 3:
        raise AnalysisError("get_FTCorrelationFunction: expected three thermal-factor sites, found %d" % len(sites))
    for s in sites:
        it = Interp(prog, lenient=False)
        it.stack.append(f)
        env = {"omega": Expr.factor("w"), "spect": Expr.factor("J"), "twokbt": Expr.factor("2kT"),
               "self": Obj("self", attrs={"axis": Obj("axis", attrs={"data": Expr.factor("w")}), "data": Expr.factor("J")})}
        v = it.eval(s.value, env)
        ref = ast.parse("(1.0 + 1.0/numpy.tanh(omega/twokbt))*spect", mode="eval").body
        r = it.eval(ref, env)
        it.stack.pop()
        ok = isinstance(v, Expr) and isinstance(r, Expr) and not normal(v - r)
        run.obligation(rid, "SpectralDensity.get_FTCorrelationFunction", ok, key="factor:%s" % norm(s.targets[0]) + ":" + norm(s.value)[:30],
                       message="thermal factor must be (1 + coth(w/2kT)) times the spectral density", loc=f.loc(s),
                       sample={"expression": norm(s.value)})
    # zero frequency: 2kT * central difference
    z = [n for n in ast.walk(f.node) if isinstance(n, ast.Assign) and norm(n.targets[0]) == "vals[ind_of_zero]"]
    ok = len(z) == 1 and norm(z[0].value) == "twokbt * (data[ind_of_zero + 1] - data[ind_of_zero - 1]) / (2.0 * self.axis.step)"
    run.obligation(rid, "SpectralDensity.get_FTCorrelationFunction", ok, key="zero-frequency-limit",
                   message="the value at zero frequency must be the limit 2kT * J'(0) (central difference)", loc=f.loc())
    # the pieces cover the axis except the origin
    st = [norm(n) for n in ast.walk(f.node) if isinstance(n, ast.Assign)]
    ok = "vals[0:ind_of_zero] = auxi" in st and "vals[ind_of_zero + 1:self.axis.length] = auxi" in st and \
        "omega = self.axis.data[0:ind_of_zero]" in st and "omega = self.axis.data[ind_of_zero + 1:self.axis.length]" in st
    run.obligation(rid, "SpectralDensity.get_FTCorrelationFunction", ok, key="pieces",
                   message="negative and positive frequencies must be treated with the same factor on matching slices",
                   loc=f.loc())


def rule_R5(run, prog):
    rid = "C06-R5"
    selfo, it = tensors.assemble(prog, tensors.LS + "redfieldtensor.RedfieldRelaxationTensor", as_operators=False)
    RR = selfo.get("data")
    facts = tensors.real_facts(it)
    names = RR.template.names()
    kn = [n for n in names if n.split("~")[0] == "Km"]
    ln = [n for n in names if n.split("~")[0] == "Lm"]
    if not kn and not ln and len(names) == 2:
        # both operator sets are opaque elements of the interpreted code: K_m is the system part of
        # the interaction transformed to the eigenbasis, Lambda_m the element accumulated from it
        kn = [n for n in names if "sbi.KK" in n]
        ln = [n for n in names if n not in kn]
    if len(kn) != 1 or len(ln) != 1:
        raise AnalysisError("Redfield tensor: K/Lambda sources not identified: %s" % sorted(names))
    K, L = kn[0], ln[0]
    pop = RR.at("a", "a", "b", "b") * (Expr.const(1) - Expr.delta("a", "b"))
    want = (Expr.factor(K, ("m", "a", "b")) * (Expr.factor(L, ("m", "a", "b")) + Expr.factor(L, ("m", "a", "b"), True))
            ).sum_over("m") * (Expr.const(1) - Expr.delta("a", "b"))
    nf = normal(pop - want, facts)
    run.obligation(rid, "RedfieldRelaxationTensor population block", not nf, key="population-block",
                   message="R[a,a,b,b] (a != b) is not sum_m K_m[a,b] (Lambda_m[a,b] + conj Lambda_m[a,b]): %s"
                   % show_normal(nf, 3), loc="quantarhei/qm/liouvillespace/redfieldtensor.py",
                   sample={"identity": "R[a,a,b,b] = 2 Re sum_m K_m[a,b] Lambda_m[a,b]", "facts": facts.describe()})
    g = prog.func(tensors.LS + "redfieldtensor.RedfieldRelaxationTensor._guts_Cmplx_Splines")
    st = [norm(n) for n in ast.walk(g.node) if isinstance(n, ast.stmt)]
    ok = "eexp = numpy.exp(-1j * Om[a, b] * tm)" in st and "Lm[ms, a, b] += cc_mnab * Km[ms, a, b]" in st
    run.obligation(rid, "RedfieldRelaxationTensor._guts_Cmplx_Splines", ok, key="lambda",
                   message="Lambda_m[a,b] must be K_m[a,b] times the half-Fourier transform at the transition "
                           "frequency Om[a,b]", loc=g.loc())
    h = prog.func(tensors.LS + "redfieldtensor.RedfieldRelaxationTensor._implementation")
    om = [n for n in ast.walk(h.node) if isinstance(n, ast.Assign) and norm(n.targets[0]) == "Om[a, b]"]
    ok = len(om) == 1 and norm(om[0].value) == "hD[a] - hD[b]"
    run.obligation(rid, "RedfieldRelaxationTensor._implementation", ok, key="same-frequencies",
                   message="the tensor must use the same transition frequencies Om[a,b] = E_a - E_b as the rate matrix",
                   loc=h.loc())
    # the Lambda operators are filled for every system: a condition that skips the only fill without an
    # alternative (or a refusal) hands out an all-zero tensor - no rates at all - without any message
    for q in ("redfieldtensor.RedfieldRelaxationTensor", "tdredfieldtensor.TDRedfieldRelaxationTensor"):
        hf = prog.func(tensors.LS + q + "._implementation")
        from ..loader import parents_map
        pm = parents_map(hf.node)
        fills = [c for c in ast.walk(hf.node) if isinstance(c, ast.Call) and any(isinstance(a, ast.Name) and a.id == "Lm"
                                                                                 for a in c.args)
                 and isinstance(c.func, ast.Attribute) and c.func.attr.startswith("_guts")]
        fills += [n for n in ast.walk(hf.node) if isinstance(n, (ast.Assign, ast.AugAssign))
                  and isinstance((n.targets[0] if isinstance(n, ast.Assign) else n.target), ast.Subscript)
                  and norm((n.targets[0] if isinstance(n, ast.Assign) else n.target).value) == "Lm"]
        if not fills:
            raise AnalysisError("%s._implementation: no statement fills the Lambda operators" % q)
        skipping = []
        for c in fills:
            node = c
            while node in pm and pm[node] is not hf.node:
                par = pm[node]
                if isinstance(par, ast.If) and not (isinstance(par.test, ast.Constant) and par.test.value) and \
                        any(node is x or any(node is y for y in ast.walk(x)) for x in par.body):
                    alt_ok = any(isinstance(x, ast.Raise) for st_ in par.orelse for x in ast.walk(st_)) or \
                        any(f2 is not c and any(f2 is y for st_ in par.orelse for y in ast.walk(st_)) for f2 in fills)
                    if not alt_ok:
                        skipping.append(norm(par.test))
                node = par
        run.obligation(rid, q.split(".")[1] + "._implementation", not skipping, key="lambda-filled-for-every-system",
                       message="the Lambda operators are only computed when %s; otherwise nothing fills them and nothing "
                               "is raised: the tensor is identically zero (no relaxation, silently)" % sorted(set(skipping)),
                       loc=hf.loc(fills[0]), sample={"fills": len(fills), "guards": sorted(set(skipping))})
