"""C09 - bath correlation functions add linearly and carry consistent
parameters.

Decided statically: per-component dispatch depends on the component of the
current iteration (no leaked loop variables, C09-A); additivity bookkeeping of
add_to_data/add_to_data2/__add__ for both classes, rebuild under internal
units (C09-B); component builders are siblings that accumulate (C09-C); the
external APIs used by the builders exist (C09-D).  Not decided: measured
reorganisation energy and FFT parity (numerics).
"""
import ast

from ..loader import AnalysisError, norm, walk_no_nested, call_name, parents_map
from .. import apiexist

CF = "quantarhei.qm.corfunctions.correlationfunctions."
SD = "quantarhei.qm.corfunctions.spectraldensities."
INITS = [CF + "CorrelationFunction.__init__", SD + "SpectralDensity.__init__",
         CF + "FTCorrelationFunction.__init__", CF + "OddFTCorrelationFunction.__init__",
         CF + "EvenFTCorrelationFunction.__init__"]


def check(run, prog, tier):
    run.explanation = (
        "Def-use rule for loop variables (a name bound by one loop and read in a later loop before "
        "being rebound there is a leaked loop variable) on every composite-building constructor, "
        "data-dependence of the dispatch variable and of the builder arguments on the current "
        "iteration, statement-level bookkeeping rules for the additive operations of both classes "
        "with sibling comparison, accumulate-not-overwrite rule for every component builder, API "
        "existence on the builders' call closure. Not decided: numerical reorganisation energies.")
    run.trusted_base = ["DFunction._add_me adds to existing data and creates them when empty"]
    run.rule("C09-G", "the matrix of bath functions and the functions themselves answer queries from their current content (no temperature, transform or spectral density kept across a later store or addition)", minimum=3)
    from . import memorule
    memorule.check(run, prog, "C09-G", ['quantarhei.qm.corfunctions.cfmatrix.CorrelationFunctionMatrix', 'quantarhei.qm.corfunctions.correlationfunctions.CorrelationFunction', 'quantarhei.qm.corfunctions.spectraldensities.SpectralDensity', 'quantarhei.core.dfunction.DFunction'],
                   "a component at another temperature stored later is then not refused, or sums no longer equal the sum of components",
                   subclasses={"CorrelationFunction", "SpectralDensity", "FTCorrelationFunction", "EvenFTCorrelationFunction",
                               "OddFTCorrelationFunction", "LineshapeFunction"})
    run.rule("C09-A", "per-component dispatch depends on the current component (no leaked loop variables)", minimum=8)
    run.rule("C09-B", "additivity bookkeeping of add_to_data/add_to_data2/__add__", minimum=14)
    run.rule("C09-C", "component builders accumulate and register their temperature", minimum=12)
    run.rule("C09-D", "external APIs and attributes of self used by the builders exist", minimum=10)
    run.rule("C09-F", "running integrals of bath functions are taken with respect to their axis", minimum=4)
    run.rule("C09-E", "builders use the energy parameters in the unit system they receive them in (unit-state "
                      "typing of the parameter dictionaries)", minimum=10)
    rule_A(run, prog)
    rule_B(run, prog)
    rule_C(run, prog)
    rule_D(run, prog)
    rule_E(run, prog)
    rule_F(run, prog)


# ----------------------------------------------------------------------
    run.rule("C09-H", "the recorded components belong to the object: constructors keep their own parameter containers, "
                      "and methods that answer a question (get_*, copy, +) do not write into the stored dictionaries", minimum=20)
    rule_H(run, prog)
    run.rule("C09-I", "the correlation function and the spectral density answer the same question in the same units: a public "
                      "method both define returns a converted energy in both or in neither", minimum=2)
    rule_I(run, prog)
    run.rule("C09-J", "a component is added to what the function holds, and replaces it only when the function holds nothing: the "
                      "test that sends an addition to the initialiser is true for the uninitialised function only", minimum=1)
    rule_J(run, prog)
    run.rule("C09-K", "containers kept per bath function are separate objects: no list built by repeating one mutable element "
                      "(`[[]]*n` is n names for one list)", minimum=10)
    rule_K(run, prog)
    run.rule("C09-L", "the accessors read the component dictionaries the way the builders write them (keys, list by position), "
                      "and copying the components of a function into itself terminates", minimum=4)
    rule_L(run, prog)
    run.rule("C09-N", "the even and odd Fourier parts of a function given by several components refuse components at different "
                      "temperatures, as the correlation function built from the same list does", minimum=2)
    rule_N(run, prog)
    run.rule("C09-M", "a temperature (or any other optional argument) given explicitly to a method of a bath function replaces the "
                      "value held in the components; only the None default leaves them as they are", minimum=3)
    rule_M(run, prog)


def rule_N(run, prog):
    """'components at different temperatures are refused': EvenFTCorrelationFunction and OddFTCorrelationFunction build one
    CorrelationFunction per component dictionary and add the transforms - each of these has one component, so the check in
    CorrelationFunction never sees two temperatures.  The loop over the components contains a refusal (an `if` that
    raises) whose test compares temperatures."""
    rid = "C09-N"
    n = 0
    for cname in ("EvenFTCorrelationFunction", "OddFTCorrelationFunction"):
        cls = prog.cls(CF + cname)
        f = cls.methods["__init__"]
        prog.consulted.add(f.relpath)
        loops = [l_ for l_ in walk_no_nested(f.node) if isinstance(l_, ast.For)
                 and any(isinstance(c_, ast.Call) and call_name(c_) == "CorrelationFunction" for c_ in ast.walk(l_))]
        if not loops:
            raise AnalysisError("%s.__init__: loop over the components not found" % cname)
        n += 1
        refusal = any(isinstance(i_, ast.If) and any(isinstance(x_, ast.Raise) for x_ in ast.walk(i_))
                      and ("temperature" in norm(i_.test) or "['T']" in norm(i_.test).replace('"', "'"))
                      for l_ in loops for i_ in ast.walk(l_))
        run.obligation(rid, f.short, refusal, key="mixed-temperatures",
                       message="%s builds one correlation function per component and adds their transforms without comparing the "
                               "temperatures of the components: a list with T=300 and T=100 is accepted (CorrelationFunction refuses "
                               "the same list)" % f.short, loc=f.loc(loops[0]))
    return n


def rule_M(run, prog):
    """'... carry consistent parameters': get_FTCorrelationFunction(temperature=T), get_CorrelationFunction(temperature=T),
    the even and odd Fourier parts built for a temperature: inside `if <argument> is not None:` the argument is the value
    used - written over what the component holds, not offered as a default to it."""
    rid = "C09-M"
    n = 0
    from .. import sentinel
    mods = (CF[:-1], SD[:-1], "quantarhei.qm.corfunctions.cfmatrix", "quantarhei.core.dfunction")
    for q in mods:
        prog.module(q)
    for f in list(prog.all_functions()):
        if f.module.name not in mods:
            continue
        if True:
            for p_ in sentinel.none_default_params(f.node):
                blocks, bad = sentinel.yielding_uses(f.node, p_)
                for b_ in blocks:
                    n += 1
                    mine = [(c, w) for c, w in bad if b_.lineno <= c.lineno <= (b_.end_lineno or b_.lineno)]
                    prog.consulted.add(f.relpath)
                    run.obligation(rid, f.short, not mine, key="explicit:%s" % p_,
                                   message="%s is given `%s` explicitly, but %s: the result belongs to the stored value, not to the "
                                           "one asked for" % (f.short, p_, mine[0][1] if mine else ""),
                                   loc=f.loc(mine[0][0] if mine else b_), sample={"parameter": p_, "block_line": b_.lineno})
    if n < 3:
        raise AnalysisError("C09-M: only %d blocks `if <argument> is not None` found in the bath-function modules" % n)


def rule_L(run, prog):
    """'... carry consistent parameters': the component dictionaries (self.params, a list of dictionaries) are written by
    the constructors and read back by the accessors.  (i) An accessor reads a component with a key the builders of the
    class use (a key that no builder reads - 'ctime' for 'cortime' - raises KeyError for every function the class can
    build).  (ii) self.params is a list: it is indexed by position, a string index (`self.params["ftype"]`) is a
    TypeError on every object.  (iii) In-place addition copies the components of the other function into this one; the
    other function may be this one (a.add_to_data(a), the public form of a += a): a loop over `other.params` that appends
    to `self.params` never ends unless it runs over a copy or the case is taken out before."""
    rid = "C09-L"
    n = 0
    for q in (CF + "CorrelationFunction", SD + "SpectralDensity"):
        cls = prog.cls(q)
        builder_keys = set()
        for nme, f in cls.methods.items():
            if nme == "__init__" or nme.startswith("_make_"):
                for x in walk_no_nested(f.node):
                    if isinstance(x, ast.Subscript) and isinstance(x.slice, ast.Constant) and isinstance(x.slice.value, str):
                        builder_keys.add(x.slice.value)
                    if isinstance(x, ast.Compare) and isinstance(x.left, ast.Constant) and isinstance(x.left.value, str) \
                            and any(isinstance(o, (ast.In, ast.NotIn)) for o in x.ops):
                        builder_keys.add(x.left.value)
        ep = prog.find_class_attr(cls, "energy_params")
        if not builder_keys:
            raise AnalysisError("%s: no keys found in the builders" % cls.name)
        for nme, f in cls.methods.items():
            if nme == "__init__" or nme.startswith("_make_"):
                continue
            prog.consulted.add(f.relpath)
            for x in walk_no_nested(f.node):
                if not (isinstance(x, ast.Subscript) and isinstance(x.slice, ast.Constant) and isinstance(x.slice.value, str)):
                    continue
                root = x.value
                while isinstance(root, ast.Subscript):
                    root = root.value
                comp_vars = {g.target.id for g in ast.walk(f.node) if isinstance(g, (ast.For, ast.comprehension))
                             and isinstance(g.target, ast.Name) and norm(g.iter) == "self.params"}
                if norm(root) != "self.params" and not (isinstance(root, ast.Name) and root.id in comp_vars and root is x.value):
                    continue
                n += 1
                if norm(x.value) == "self.params":
                    run.obligation(rid, f.short, False, key="list-indexed-by-position:" + x.slice.value,
                                   message="%s indexes the list of components with the string %r (`%s`): a TypeError for every object; "
                                           "a component is self.params[i]" % (f.short, x.slice.value, norm(x)), loc=f.loc(x))
                else:
                    run.obligation(rid, f.short, x.slice.value in builder_keys, key="key-known-to-builders:" + x.slice.value,
                                   message="%s reads the component entry %r, a key none of the builders of %s uses (they use %s): "
                                           "KeyError for every function the class can build" % (f.short, x.slice.value, cls.name,
                                                                                               sorted(builder_keys)[:10]),
                                   loc=f.loc(x), sample={"key": x.slice.value})
        # (iii) self-aliasing
        for nme, f in cls.methods.items():
            params = [a.arg for a in f.node.args.args[1:]]
            for lp in walk_no_nested(f.node):
                if not isinstance(lp, ast.For):
                    continue
                it_, copied = lp.iter, False
                if isinstance(it_, ast.Call) and (call_name(it_) in ("list", "tuple") and it_.args):
                    it_, copied = it_.args[0], True
                elif isinstance(it_, ast.Call) and isinstance(it_.func, ast.Attribute) and it_.func.attr == "copy":
                    it_, copied = it_.func.value, True
                elif isinstance(it_, ast.Subscript) and isinstance(it_.slice, ast.Slice) and it_.slice.lower is None and it_.slice.upper is None:
                    it_, copied = it_.value, True
                if not (isinstance(it_, ast.Attribute) and isinstance(it_.value, ast.Name) and it_.value.id in params):
                    continue
                lp_iter = it_
                attr = lp_iter.attr
                grows = [c for c in ast.walk(lp) if isinstance(c, ast.Call) and isinstance(c.func, ast.Attribute)
                         and c.func.attr in ("append", "extend", "insert") and norm(c.func.value) == "self." + attr]
                if not grows:
                    continue
                n += 1
                prog.consulted.add(f.relpath)
                guard = copied or any(isinstance(c, ast.Compare) and {norm(c.left), norm(c.comparators[0])} == {"self", lp_iter.value.id}
                                      for c in walk_no_nested(f.node) if isinstance(c, ast.Compare) and c.lineno < lp.lineno)
                run.obligation(rid, f.short, guard, key="self-addition-terminates:" + attr,
                               message="%s runs over %s.%s and appends to self.%s inside the loop: called with the function itself "
                                       "(a.%s(a)) the list grows as fast as it is read and the call never returns; iterate over a "
                                       "copy, or take the case `%s is self` out before" % (f.short, lp_iter.value.id, attr, attr, nme,
                                                                                         lp_iter.value.id), loc=f.loc(lp))
    if n < 4:
        raise AnalysisError("C09-L: only %d reads of component entries / copying loops found" % n)


def rule_K(run, prog):
    """'... carry consistent parameters': the matrix of bath functions records, per function, the places (n, m) it occupies;
    a molecule mapped on the matrix finds its bath through that record.  `[[]]*(nof+1)` makes every entry the same list -
    after two functions have been set, every entry lists the places of both and the look-up answers with the last
    function for any place.  Package-wide: a list repetition `[e]*n` has an immutable element (None, a number, a string,
    a name bound to one) - never a list, dict or set display or a constructor call."""
    rid = "C09-K"
    n = 0
    for f in prog.all_functions():
        if ".tests." in f.qualname or ".wizard." in f.qualname:
            continue
        for x in walk_no_nested(f.node):
            if isinstance(x, ast.BinOp) and isinstance(x.op, ast.Mult):
                lst = x.left if isinstance(x.left, ast.List) else (x.right if isinstance(x.right, ast.List) else None)
                if lst is None or len(lst.elts) != 1:
                    continue
                n += 1
                prog.consulted.add(f.relpath)
                e = lst.elts[0]
                shared = isinstance(e, (ast.List, ast.Dict, ast.Set, ast.ListComp, ast.DictComp)) or \
                    (isinstance(e, ast.Call) and (call_name(e) or "").split(".")[-1] in ("list", "dict", "set", "zeros", "array", "empty"))
                run.obligation(rid, f.short, not shared, key="separate-containers:" + norm(x)[:40],
                               message="%s builds `%s`: every entry is the same %s object, what is recorded for one function is recorded "
                                       "for all (in the matrix of bath functions: get_index_by_where answers with the last function "
                                       "for every place, a molecule mapped on the matrix is handed another molecule's bath)"
                                       % (f.short, norm(x)[:50], type(e).__name__.lower()), loc=f.loc(x), sample={"expression": norm(x)[:60]})
    if n < 10:
        raise AnalysisError("C09-K: only %d list repetitions found in the package (14 confirmed)" % n)


def rule_J(run, prog):
    """'The sum has data equal to the sum of the components' data ... for any number of components': the composite
    constructors of correlation functions, spectral densities and the Fourier parts add every component through
    DFunction._add_me, which initialises the function (DFunction._make_me, replacing the data) when it holds nothing yet and
    accumulates otherwise.  The decision is taken on an attribute the constructor sets to None and the initialiser sets to
    something else.  The test has to single out None: an attribute the initialiser may leave falsy (a boolean such as 'has
    an imaginary part') sends every later component of a real-valued function to the initialiser again under a truth-value
    test, and the sum holds its last component only."""
    from .. import sentinel
    rid = "C09-J"
    cls = prog.cls("quantarhei.core.dfunction.DFunction")
    init = cls.methods["_make_me"]
    prog.consulted.add(init.relpath)
    n = 0
    for nme, f in cls.methods.items():
        if nme in ("__init__", "_make_me"):
            continue
        pm = parents_map(f.node)
        for c in walk_no_nested(f.node):
            if not (isinstance(c, ast.Call) and norm(c.func) == "self._make_me"):
                continue
            g = pm.get(c)
            while g is not None and not isinstance(g, ast.If):
                g = pm.get(g)
            if g is None:
                continue        # unconditional re-initialisation (set_data and the like): not a decision
            n += 1
            in_body = any(c in list(ast.walk(st)) for st in g.body)
            t_ = g.test
            neg = False
            while isinstance(t_, ast.UnaryOp) and isinstance(t_.op, ast.Not):
                t_, neg = t_.operand, not neg
            ok, why = False, "is not a test of an attribute of the function"
            if isinstance(t_, ast.Compare) and len(t_.ops) == 1 and isinstance(t_.comparators[0], ast.Constant) \
                    and t_.comparators[0].value is None and isinstance(t_.left, ast.Attribute) and norm(t_.left.value) == "self":
                attr = t_.left.attr
                isnone = isinstance(t_.ops[0], ast.Is) != neg
                kinds_i, _ = sentinel.attr_values([init.node], attr)
                kinds_c, _ = sentinel.attr_values([cls.methods["__init__"].node], attr)
                ok = (isnone == in_body) and "none" in kinds_c and kinds_i and "none" not in kinds_i
                why = "does not single out the uninitialised function (self.%s: constructor %s, initialiser %s)" % (
                    attr, sorted(kinds_c), sorted(kinds_i))
            elif isinstance(t_, ast.Attribute) and norm(t_.value) == "self":
                attr = t_.attr
                kinds_i, _ = sentinel.attr_values([init.node], attr)
                # truth-value test: exact only if the initialiser always leaves a truthy constant
                ok = (neg == in_body) and bool(kinds_i) and kinds_i <= {"truthy"}
                why = ("tests self.%s for its truth value, but the initialiser may leave it falsy (%s): an initialised function "
                       "with self.%s false is initialised again" % (attr, sorted(kinds_i), attr))
            run.obligation(rid, f.short, ok, key="initialises-only-when-empty",
                           message="%s decides between initialising and accumulating with `%s`, which %s - the data already added "
                                   "are replaced by the component that comes next" % (f.short, norm(g.test), why),
                           loc=f.loc(g), sample={"test": norm(g.test)})
    if n < 1:
        raise AnalysisError("C09-J: no guarded call of the initialiser found in DFunction")


def rule_I(run, prog):
    """'The reorganisation energy recovered from the data equals the declared one' is read off two methods of each class
    (get_reorganization_energy, measure_reorganization_energy), and the two classes describe the same bath.  For every
    public method that CorrelationFunction and SpectralDensity both define: if one of them returns its value through
    convert_energy_2_current_u, the other does too - otherwise the same question is answered in the current units by one
    and in internal units by the other, and under energy_units the measured value is off by the conversion factor."""
    rid = "C09-I"
    A = prog.cls(CF + "CorrelationFunction")
    B = prog.cls(SD + "SpectralDensity")

    def conv(fn):
        out = []
        for n in walk_no_nested(fn.node):
            if isinstance(n, ast.Return) and n.value is not None:
                out.append(any(isinstance(x, ast.Call) and (call_name(x) or "").endswith("2_current_u") for x in ast.walk(n.value)))
        return out
    n = 0
    for nme in sorted(set(A.methods) & set(B.methods)):
        if nme.startswith("_"):
            continue
        a, b = conv(A.methods[nme]), conv(B.methods[nme])
        if not (any(a) or any(b)):
            continue
        n += 1
        prog.consulted.add(A.methods[nme].relpath)
        prog.consulted.add(B.methods[nme].relpath)
        ok = bool(a) and bool(b) and all(a) == all(b) and any(a) == any(b)
        lag = B.methods[nme] if all(a) and not all(b) else A.methods[nme]
        run.obligation(rid, lag.short, ok, key="same-units:" + nme,
                       message="%s returns its value %s while the sibling class converts it to the current units: inside "
                               "energy_units the two classes answer %s() in different units" % (
                                   lag.short, "in internal units", nme), loc=lag.loc(lag.node),
                       sample={"method": nme, "CorrelationFunction_converts": a, "SpectralDensity_converts": b})
    if n < 2:
        raise AnalysisError("only %d shared energy accessors found (2 confirmed)" % n)


def rule_H(run, prog):
    """'Carry consistent parameters': params is the record of the components the data are the sum of.  It stays
    consistent only if nobody else holds the same list or the same dictionaries (an addition to a derived object
    would add a component here) and if asking for a correlation function at another temperature does not rewrite
    the record (a refused mixed-temperature sum would be accepted at the second attempt)."""
    rid = "C09-H"
    n = 0
    for cls_q, cname in ((CF + "CorrelationFunction", "CorrelationFunction"), (SD + "SpectralDensity", "SpectralDensity"),
                         (CF + "FTCorrelationFunction", "FTCorrelationFunction"),
                         (CF + "OddFTCorrelationFunction", "OddFTCorrelationFunction"),
                         (CF + "EvenFTCorrelationFunction", "EvenFTCorrelationFunction")):
        cls = prog.cls(cls_q)
        for nme, fn in sorted(cls.methods.items()):
            prog.consulted.add(fn.relpath)
            params = [a.arg for a in fn.node.args.args if a.arg != "self"]
            # (i) constructors: self.params = <a parameter itself>
            if nme == "__init__":
                shared = [n_ for n_ in walk_no_nested(fn.node) if isinstance(n_, ast.Assign)
                          and any(norm(t_) == "self.params" for t_ in n_.targets)
                          and isinstance(n_.value, ast.Name) and n_.value.id in params]
                # (i') what is appended to the record is a dictionary of the object's own: every binding of the appended
                # name in the constructor is a fresh dictionary ({} / dict(...) / a copy / a comprehension); a binding to a
                # parameter, to an element of one or to a loop variable over one stores the caller's dictionary
                fparams = set(params)
                loopvars = set()
                for lp in [x for x in walk_no_nested(fn.node) if isinstance(x, ast.For) and isinstance(x.target, ast.Name)]:
                    loopvars.add(lp.target.id)
                for ap in [c_ for c_ in walk_no_nested(fn.node) if isinstance(c_, ast.Call) and norm(c_.func) == "self.params.append"
                           and c_.args]:
                    a0 = ap.args[0]
                    fresh_ok = True
                    why = ""
                    if isinstance(a0, ast.Name):
                        binds = [b_ for b_ in walk_no_nested(fn.node) if isinstance(b_, ast.Assign)
                                 and any(isinstance(t_, ast.Name) and t_.id == a0.id for t_ in b_.targets)]
                        for b_ in binds:
                            v_ = b_.value
                            is_fresh = isinstance(v_, (ast.Dict, ast.DictComp)) or (
                                isinstance(v_, ast.Call) and (call_name(v_) in ("dict", "deepcopy") or (
                                    isinstance(v_.func, ast.Attribute) and v_.func.attr == "copy")))
                            if not is_fresh:
                                fresh_ok = False
                                why = norm(b_)[:50]
                        if not binds:
                            fresh_ok = a0.id not in fparams and a0.id not in loopvars
                            why = "the name is a parameter or a loop variable"
                    n += 1
                    run.obligation(rid, "%s.__init__" % cname, fresh_ok, key="own-dictionaries:" + norm(ap)[:40],
                                   message="the constructor records %s, which on some path is not a dictionary of its own (%s): the "
                                           "object keeps the caller's dictionary, and a later change of it changes the recorded "
                                           "component - the function rebuilt from the record (+, copy, += of itself, the Fourier "
                                           "parts) is then another function" % (norm(a0), why), loc=fn.loc(ap))
                n += 1
                run.obligation(rid, "%s.__init__" % cname, not shared, key="own-container",
                               message="the constructor keeps the caller's parameter list itself (%s): the new object and "
                                       "whoever supplied the list record components in the same container"
                                       % (norm(shared[0]) if shared else ""), loc=fn.loc(shared[0]) if shared else fn.loc())
                continue
            # (ii) question-answering methods do not write into stored dictionaries
            if not (nme.startswith("get_") or nme in ("copy", "__add__", "is_analytical", "measure_reorganization_energy",
                                                      "reorganization_energy_consistent")):
                continue
            # names bound to stored dictionaries: loop variables over self.params (not rebound to a copy before the write)
            bad = []
            for lp in [x for x in walk_no_nested(fn.node) if isinstance(x, ast.For) and norm(x.iter).endswith(".params")
                       and isinstance(x.target, ast.Name)]:
                v = lp.target.id
                rebound_at = min([a_.lineno for a_ in ast.walk(lp) if isinstance(a_, ast.Assign)
                                  and any(isinstance(t_, ast.Name) and t_.id == v for t_ in a_.targets)] or [10**9])
                for a_ in ast.walk(lp):
                    if isinstance(a_, (ast.Assign, ast.AugAssign)):
                        for t_ in (a_.targets if isinstance(a_, ast.Assign) else [a_.target]):
                            if isinstance(t_, ast.Subscript) and isinstance(t_.value, ast.Name) and t_.value.id == v \
                                    and a_.lineno < rebound_at:
                                bad.append(a_)
                    if isinstance(a_, ast.Call) and isinstance(a_.func, ast.Attribute) and isinstance(a_.func.value, ast.Name) \
                            and a_.func.value.id == v and a_.func.attr in ("update", "pop", "clear", "setdefault") \
                            and a_.lineno < rebound_at:
                        bad.append(a_)
            for a_ in walk_no_nested(fn.node):
                if isinstance(a_, ast.Assign):
                    for t_ in a_.targets:
                        if isinstance(t_, ast.Subscript) and norm(t_).startswith("self.params["):
                            bad.append(a_)
            n += 1
            run.obligation(rid, "%s.%s" % (cname, nme), not bad, key="record-intact",
                           message="%s.%s writes into the stored parameter dictionaries (%s): the record of the components is "
                                   "changed by a query, and by every object that shares the dictionaries"
                                   % (cname, nme, norm(bad[0])[:60] if bad else ""), loc=fn.loc(bad[0]) if bad else fn.loc())
    if n < 20:
        raise AnalysisError("C09-H: only %d constructors/queries of bath functions examined" % n)


def _bound_in(node):
    out = set()
    for n in ast.walk(node):
        if isinstance(n, ast.Name) and isinstance(n.ctx, ast.Store):
            out.add(n.id)
    return out


def leaked_uses(func):
    """(name, use node, origin loop) for names bound only inside an earlier
    loop and read in a later, separate loop before being rebound there."""
    out = []
    pm = parents_map(func.node)
    loops = [n for n in walk_no_nested(func.node) if isinstance(n, ast.For)]
    params = {a.arg for a in func.node.args.args} | {a.arg for a in func.node.args.kwonlyargs}

    def nested_in(a, b):
        p = pm.get(a)
        while p is not None:
            if p is b:
                return True
            p = pm.get(p)
        return False
    # names bound outside any loop (function level), with line numbers
    outside = {}
    for n in walk_no_nested(func.node):
        if isinstance(n, ast.Name) and isinstance(n.ctx, ast.Store):
            if not any(nested_in(n, lp) or n in ast.walk(lp.target) for lp in loops):
                outside.setdefault(n.id, []).append(n.lineno)
    for l2 in loops:
        earlier = [l1 for l1 in loops if l1.lineno < l2.lineno and not nested_in(l2, l1) and not nested_in(l1, l2)]
        if not earlier:
            continue
        # order-aware scan of l2's body
        bound = set(x.id for x in ast.walk(l2.target) if isinstance(x, ast.Name))

        def scan(stmts, bound):
            for st in stmts:
                if isinstance(st, (ast.For,)):
                    for x in ast.walk(st.iter):
                        use(x, bound)
                    b2 = set(bound) | {x.id for x in ast.walk(st.target) if isinstance(x, ast.Name)}
                    scan(st.body, b2)
                    bound |= _bound_in(st)
                elif isinstance(st, ast.If):
                    for x in ast.walk(st.test):
                        use(x, bound)
                    b1, b2 = set(bound), set(bound)
                    scan(st.body, b1)
                    scan(st.orelse, b2)
                    bound |= (b1 & b2)
                elif isinstance(st, ast.Try):
                    b1 = set(bound)
                    scan(st.body, b1)
                    for h in st.handlers:
                        scan(h.body, set(bound))
                    scan(st.orelse, b1)
                    scan(st.finalbody, set(bound))
                    bound |= b1 if all(any(isinstance(x, ast.Raise) for x in ast.walk(ast.Module(body=h.body, type_ignores=[])))
                                       for h in st.handlers) else set()
                elif isinstance(st, ast.With):
                    scan(st.body, bound)
                else:
                    val_nodes = []
                    if isinstance(st, ast.Assign):
                        val_nodes = [st.value] + [t for t in st.targets if not isinstance(t, ast.Name)]
                    elif isinstance(st, ast.AugAssign):
                        val_nodes = [st.value, st.target]
                    else:
                        val_nodes = [st]
                    for v in val_nodes:
                        for x in ast.walk(v):
                            use(x, bound)
                    bound |= _bound_in(st)

        def use(x, bound):
            if isinstance(x, ast.Name) and isinstance(x.ctx, ast.Load) and x.id not in bound \
                    and x.id not in params:
                for l1 in earlier:
                    if x.id in _bound_in(l1) and not any(ln < l2.lineno and ln > l1.end_lineno
                                                          for ln in outside.get(x.id, [])) \
                            and not any(ln < l1.lineno for ln in outside.get(x.id, [])):
                        out.append((x.id, x, l1))
                        return
        scan(l2.body, bound)
    return out


def used_after_loop(func):
    """(name, use node, loop) for names bound only inside a loop over the components (body or target) and
    read after that loop, outside it: whatever is computed from them belongs to the last component only."""
    pm = parents_map(func.node)
    out = []
    params = {a.arg for a in func.node.args.args} | {a.arg for a in func.node.args.kwonlyargs}

    def inside(n, lp):
        p = pm.get(n)
        while p is not None:
            if p is lp:
                return True
            p = pm.get(p)
        return False
    stores = [n for n in walk_no_nested(func.node) if isinstance(n, ast.Name) and isinstance(n.ctx, ast.Store)]
    for lp in [n for n in walk_no_nested(func.node) if isinstance(n, ast.For)]:
        if any(isinstance(p_, (ast.For, ast.While)) and inside(lp, p_) for p_ in walk_no_nested(func.node)):
            continue          # nested loops are judged with their outermost loop
        bound = {n.id for n in stores if inside(n, lp)}
        elsewhere = {n.id for n in stores if not inside(n, lp)}
        only = bound - elsewhere - params
        for n in walk_no_nested(func.node):
            if isinstance(n, ast.Name) and isinstance(n.ctx, ast.Load) and n.id in only and not inside(n, lp) \
                    and n.lineno > lp.end_lineno:
                out.append((n.id, n, lp))
    return out


def rule_A(run, prog):
    rid = "C09-A"
    for q in INITS:
        f = prog.func(q)
        prog.consulted.add(f.relpath)
        ua = used_after_loop(f)
        names = sorted({n for n, _, _ in ua})
        run.obligation(rid, f.short, not ua, key="component-value-used-after-loop",
                       message="%s is bound only inside the loop over the components and read after it: what is built "
                               "from it (%s) belongs to the last component only, not to the sum"
                       % (names, norm(parents_map(f.node).get(ua[0][1]))[:60] if ua else ""),
                       loc=f.loc(ua[0][1]) if ua else f.loc(), sample={"constructor": f.short, "names": names})
    for q in INITS:
        f = prog.func(q)
        prog.consulted.add(f.relpath)
        lk = leaked_uses(f)
        names = sorted({n for n, _, _ in lk})
        run.obligation(rid, f.short, not lk, key="leaked-loop-variable",
                       message="loop over the component list reads %s left over from the last iteration of an "
                               "earlier loop: every component is rebuilt with the last component's value"
                       % names, loc=f.loc(lk[0][1]) if lk else f.loc(),
                       sample={"constructor": f.short, "leaked": names})
        # dispatch: the variable compared with the type literals is bound from the iteration variable
        for lp in [n for n in walk_no_nested(f.node) if isinstance(n, ast.For)]:
            chains = [n for n in lp.body if isinstance(n, ast.If) and isinstance(n.test, ast.Compare)
                      and isinstance(n.test.left, ast.Name) and isinstance(n.test.comparators[0], ast.Constant)
                      and isinstance(n.test.comparators[0].value, str)]
            for ch in chains:
                var = ch.test.left.id
                targets = {x.id for x in ast.walk(lp.target) if isinstance(x, ast.Name)}
                # definition of var inside the loop body before the chain, depending on a loop target
                defs = [s for s in ast.walk(ast.Module(body=lp.body, type_ignores=[]))
                        if isinstance(s, ast.Assign) and any(isinstance(t, ast.Name) and t.id == var for t in s.targets)
                        and s.lineno < ch.lineno]
                ok = bool(defs) and all(any(isinstance(x, ast.Name) and x.id in targets for x in ast.walk(d.value))
                                        for d in defs)
                run.obligation(rid, f.short, ok, key="dispatch-on:" + var,
                               message="the component type tested in the dispatch chain is not taken from the "
                                       "current iteration's parameter set", loc=f.loc(ch),
                               sample={"constructor": f.short, "dispatch_variable": var,
                                       "definition": norm(defs[0]) if defs else None})
                # builder arguments: loop targets, names bound in the body, or constructor parameters
                params = {a.arg for a in f.node.args.args}
                body_bound = _bound_in(ast.Module(body=lp.body, type_ignores=[])) | targets
                bad = []
                node = ch
                while node is not None:
                    for s in node.body:
                        for c in [x for x in ast.walk(s) if isinstance(x, ast.Call) and (call_name(x) or "").startswith("_make_")]:
                            for a in list(c.args) + [k.value for k in c.keywords]:
                                for x in ast.walk(a):
                                    if isinstance(x, ast.Name) and x.id not in body_bound and x.id not in params \
                                            and x.id != "self":
                                        bad.append("%s(%s)" % (call_name(c), x.id))
                    node = node.orelse[0] if node.orelse and isinstance(node.orelse[0], ast.If) else None
                run.obligation(rid, f.short, not bad, key="builder-args:" + var,
                               message="component builder receives a value that does not come from the current "
                                       "iteration: %s" % bad, loc=f.loc(ch))


# ----------------------------------------------------------------------
def _stmts(f):
    return [norm(s) for s in ast.walk(f.node) if isinstance(s, ast.stmt)]


def _refusals_after_effects(f):
    """[(text of the raise, text of an earlier write to self, raise node)] for every raise that is preceded,
    in an enclosing statement list, by a statement that writes an attribute of self or mutates one in place"""
    pm = parents_map(f.node)

    def writes_self(st):
        for n in ast.walk(st):
            if isinstance(n, (ast.Assign, ast.AugAssign)):
                for t_ in (n.targets if isinstance(n, ast.Assign) else [n.target]):
                    b = t_
                    while isinstance(b, ast.Subscript):
                        b = b.value
                    if isinstance(b, ast.Attribute) and norm(b).startswith("self."):
                        return norm(n)[:50]
            if isinstance(n, ast.Call) and isinstance(n.func, ast.Attribute) and n.func.attr in ("append", "extend", "update") \
                    and norm(n.func.value).startswith("self."):
                return norm(n)[:50]
        return None
    out = []
    for r in [n for n in walk_no_nested(f.node) if isinstance(n, ast.Raise)]:
        node = r
        hit = None
        while node is not f.node and node is not None and hit is None:
            par = pm.get(node)
            for fld in ("body", "orelse", "finalbody"):
                b = getattr(par, fld, None)
                if isinstance(b, list) and node in b:
                    for st in b[:b.index(node)]:
                        w = writes_self(st)
                        if w:
                            hit = w
                            break
            node = par
        if hit:
            out.append((norm(r)[:60], hit, r))
    return out


def rule_B(run, prog):
    rid = "C09-B"
    for cls_q, cname, other_names in ((CF + "CorrelationFunction", "CorrelationFunction", ("other", "ocor")),
                                      (SD + "SpectralDensity", "SpectralDensity", ("other", "ocor"))):
        cls = prog.cls(cls_q)
        for mname, o in (("add_to_data", "other"), ("add_to_data2", "ocor")):
            f = cls.methods[mname]
            st = _stmts(f)
            need = ["self.data += %s.data" % o, "self.lamb += %s.lamb" % o, "self.params.append(p)"]
            for nd in need:
                run.obligation(rid, "%s.%s" % (cname, mname), nd in st, key="stmt:" + nd,
                               message="addition must perform '%s'" % nd, loc=f.loc(),
                               sample={"method": "%s.%s" % (cname, mname), "statement": nd})
            loops = [n for n in walk_no_nested(f.node) if isinstance(n, ast.For) and norm(n.iter) in (
                "%s.params" % o, "list(%s.params)" % o, "%s.params[:]" % o, "%s.params.copy()" % o, "tuple(%s.params)" % o)]
            ok = len(loops) == 1 and [norm(s) for s in loops[0].body] == ["self.params.append(%s)" % loops[0].target.id]
            run.obligation(rid, "%s.%s" % (cname, mname), ok, key="all-params",
                           message="all components of the right operand must be appended to params", loc=f.loc())
            # same axis required
            ifs = [n for n in walk_no_nested(f.node) if isinstance(n, ast.If) and norm(n.test) == "t1 == t2"]
            ok = len(ifs) == 1 and any(isinstance(x, ast.Raise) for x in ifs[0].orelse)
            run.obligation(rid, "%s.%s" % (cname, mname), ok, key="same-axis",
                           message="operands on different axes must be refused", loc=f.loc())
            # a refusal must come before the first change of self: an exception raised after the data were
            # added leaves an object whose data are not the sum of its recorded components
            late = _refusals_after_effects(f)
            run.obligation(rid, "%s.%s" % (cname, mname), not late, key="refuse-before-mutate",
                           message="%s raises (%s) after it has already changed self (%s): a refused addition leaves "
                                   "the left operand modified" % (mname, late[0][0] if late else "", late[0][1] if late else ""),
                           loc=f.loc(late[0][2]) if late else f.loc())
            # 'components at different temperatures are refused' - for sums of correlation functions and of spectral
            # densities alike: a refusal whose test compares the temperatures of the two operands
            tchk = [n for n in walk_no_nested(f.node) if isinstance(n, ast.If)
                    and "self.temperature" in norm(n.test) and ("%s.temperature" % o) in norm(n.test)
                    and any(isinstance(x, ast.Raise) for x in n.body)]
            run.obligation(rid, "%s.%s" % (cname, mname), len(tchk) == 1, key="temperature",
                           message="%s.%s adds a component without comparing the temperatures of the two operands: a sum of "
                                   "components declared at different temperatures is accepted (and carries the temperature of "
                                   "one of them)" % (cname, mname), loc=f.loc())
        # rebuilds from stored (internal-unit) parameters happen under internal units
        for mname in ("__add__", "add_to_data2"):
            f = cls.methods[mname]
            ctor = [n for n in walk_no_nested(f.node) if isinstance(n, ast.Call) and call_name(n) == cname]
            pm = parents_map(f.node)
            ok = bool(ctor)
            for c in ctor:
                p = pm.get(c)
                inside = False
                while p is not None:
                    if isinstance(p, ast.With) and any(norm(i.context_expr) == "energy_units('int')" for i in p.items):
                        inside = True
                    p = pm.get(p)
                ok = ok and inside
                src = [norm(a) for a in c.args] + [norm(k.value) for k in c.keywords]
                ok = ok and any(s.endswith(".params") for s in src)
            run.obligation(rid, "%s.%s" % (cname, mname), ok, key="rebuild-internal-units",
                           message="the operand rebuilt from its stored parameters (internal units) must be "
                                   "constructed under energy_units('int'); otherwise a sum computed inside a "
                                   "units context converts them twice", loc=f.loc(),
                           sample={"method": "%s.%s" % (cname, mname)})
        f = cls.methods["__add__"]
        st = _stmts(f)
        ok = "f.add_to_data(other)" in st and "return f" in st and \
            any(s.startswith("f = %s(t1, params=self.params)" % cname) for s in st)
        run.obligation(rid, "%s.__add__" % cname, ok, key="rebuild-then-add",
                       message="__add__ must rebuild the left operand from its own parameters, add the right "
                               "operand to the copy and return it", loc=f.loc())
        g = cls.methods["__iadd__"]
        ok = _stmts(g)[-2:] == ["self.add_to_data2(other)", "return self"] or \
            ("self.add_to_data2(other)" in _stmts(g) and "return self" in _stmts(g))
        run.obligation(rid, "%s.__iadd__" % cname, ok, key="iadd",
                       message="in-place addition must add and return self", loc=g.loc())


# ----------------------------------------------------------------------
def rule_C(run, prog):
    rid = "C09-C"
    for cls_q, cname in ((CF + "CorrelationFunction", "CorrelationFunction"), (SD + "SpectralDensity", "SpectralDensity")):
        cls = prog.cls(cls_q)
        for mname, f in sorted(cls.methods.items()):
            if not mname.startswith("_make_"):
                continue
            calls = [call_name(n) for n in walk_no_nested(f.node) if isinstance(n, ast.Call)
                     and isinstance(n.func, ast.Attribute) and norm(n.func.value) == "self"]
            adds = calls.count("_add_me")
            makes = calls.count("_make_me")
            lamb_over = [n for n in walk_no_nested(f.node) if isinstance(n, ast.Assign) and norm(n.targets[0]) == "self.lamb"]
            lamb_acc = [n for n in walk_no_nested(f.node) if isinstance(n, ast.AugAssign) and norm(n.target) == "self.lamb"
                        and isinstance(n.op, ast.Add)]
            ok = adds >= 1 and makes == 0 and not lamb_over and len(lamb_acc) == 1
            run.obligation(rid, "%s.%s" % (cname, mname), ok, key="accumulates",
                           message="component builder overwrites instead of accumulating (data via _make_me: %d, "
                                   "'self.lamb =': %d): a composite containing this component after another one "
                                   "loses the earlier components" % (makes, len(lamb_over)), loc=f.loc(),
                           sample={"builder": "%s.%s" % (cname, mname), "_add_me": adds, "_make_me": makes})
            if cname == "CorrelationFunction":
                ok = "_set_temperature_and_cutoff_time" in calls
                run.obligation(rid, "%s.%s" % (cname, mname), ok, key="temperature-registered",
                               message="component builder must register its temperature (consistency check)",
                               loc=f.loc())
    # builders are stateless apart from the designated accumulators: an attribute of self that one
    # builder call writes and a builder call reads carries a per-component option over to the
    # components built after it
    ACC = {"data", "_data", "lamb", "temperature", "cutoff_time", "lim_omega", "axis", "params",
           "_has_imag", "_is_empty", "_splines_initialized"}
    for cls_q, cname in ((CF + "CorrelationFunction", "CorrelationFunction"), (SD + "SpectralDensity", "SpectralDensity")):
        cls = prog.cls(cls_q)
        written, read = {}, {}
        for mname, f in cls.methods.items():
            if not mname.startswith("_make_") and mname != "_matsubara":
                continue
            for n in walk_no_nested(f.node):
                if isinstance(n, ast.Attribute) and isinstance(n.value, ast.Name) and n.value.id == "self":
                    if isinstance(n.ctx, ast.Store):
                        written.setdefault(n.attr, []).append(mname)
                    elif isinstance(n.ctx, ast.Load):
                        read.setdefault(n.attr, []).append(mname)
                if isinstance(n, ast.AugAssign) and isinstance(n.target, ast.Attribute) and \
                        isinstance(n.target.value, ast.Name) and n.target.value.id == "self":
                    written.setdefault(n.target.attr, []).append(mname)
        carried = sorted(a for a in written if a in read and a not in ACC and not callable(None))
        # method names are not state
        carried = [a for a in carried if prog.find_method(cls, a) is None]
        run.obligation(rid, cname + " component builders", not carried, key="stateless-builders",
                       message="component builders carry state between components through self.%s (written in %s, "
                               "read in %s): an option of one component leaks into the components built after it, "
                               "so a rebuilt composite is not the sum of its components"
                       % (carried, {a: sorted(set(written[a])) for a in carried}, {a: sorted(set(read[a])) for a in carried}),
                       loc=cls.module.relpath, sample={"class": cname, "accumulators": sorted(ACC & set(written)),
                                                       "carried": carried})
    f = prog.func(CF + "CorrelationFunction._set_temperature_and_cutoff_time")
    ok = any(isinstance(n, ast.If) and norm(n.test) == "self.temperature != temperature"
             and any(isinstance(x, ast.Raise) for x in n.body) for n in ast.walk(f.node))
    run.obligation(rid, "CorrelationFunction._set_temperature_and_cutoff_time", ok, key="refuse",
                   message="inconsistent component temperatures must be refused", loc=f.loc())


def rule_F(run, prog):
    """'The reorganisation energy recovered from the data equals the declared one' goes through the
    running integrals c2h / h2g / c2g and SpectralDensity.measure_reorganization_energy.  Every
    integration call in them must carry the spacing of the axis: a spline built on the axis data, or a
    quadrature routine given x= (the axis data) or dx= (its step); a quadrature call without either
    integrates with unit spacing and scales the result by 1/step."""
    rid = "C09-F"
    QUAD = ("trapz", "trapezoid", "cumtrapz", "cumulative_trapezoid", "simps", "simpson", "cumulative_simpson", "romb")
    targets = [CF + "c2h", CF + "h2g", CF + "c2g", SD + "SpectralDensity.measure_reorganization_energy"]
    n = 0
    for q in targets:
        try:
            f = prog.func(q)
        except Exception:
            continue
        calls = [c for c in ast.walk(f.node) if isinstance(c, ast.Call)]
        for c in calls:
            cn = call_name(c)
            if cn == "UnivariateSpline":
                n += 1
                ok = bool(c.args) and any(isinstance(x, ast.Attribute) and x.attr == "data" for x in ast.walk(c.args[0]))
                run.obligation(rid, f.short, ok, key="spline-on-axis:" + norm(c)[:40],
                               message="the spline that is integrated must be built on the axis data, found %s" % norm(c)[:70],
                               loc=f.loc(c), sample={"call": norm(c)[:60]})
            elif cn in QUAD:
                n += 1
                ok = len(c.args) >= 2 or any(k.arg in ("x", "dx") for k in c.keywords)
                run.obligation(rid, f.short, ok, key="quadrature-spacing:" + norm(c)[:40],
                               message="%s integrates with unit spacing: neither x= (axis data) nor dx= (axis step) is "
                                       "given, the integral is off by the factor 1/step" % norm(c)[:70],
                               loc=f.loc(c), sample={"call": norm(c)[:60]})
        # the function must integrate at all
        if not any(call_name(c) in QUAD + ("UnivariateSpline", "c2h", "h2g", "antiderivative", "integral") for c in calls):
            raise AnalysisError("%s: no integration call found" % f.short)
    if n < 4:
        raise AnalysisError("only %d integration calls found in the running-integral helpers (4 confirmed)" % n)


def rule_E(run, prog):
    """Unit state of the parameter dictionaries (qv/unitflow.py): every builder must use the energy
    entries in the unit system it receives them in."""
    from .. import unitflow
    rid = "C09-E"
    # the three representations of a bath are built from the same parameter dictionaries: they have to agree on which
    # entries carry energy units (a key missing from one table is taken as given under energy_units, while the other
    # two classes convert it)
    tabs = {}
    for cls_q in (CF + "CorrelationFunction", CF + "FTCorrelationFunction", SD + "SpectralDensity"):
        c_ = prog.cls(cls_q)
        tabs[c_.name] = unitflow.energy_keys(prog, c_)
        if not tabs[c_.name]:
            raise AnalysisError("%s.energy_params not found" % c_.name)
    ref = tabs["CorrelationFunction"]
    for nme, keys in sorted(tabs.items()):
        run.obligation(rid, nme, keys == ref, key="energy-keys-agree",
                       message="%s.energy_params lacks %s / has in addition %s compared with CorrelationFunction: created inside "
                               "energy_units from the same parameters, %s keeps these entries unconverted and its values are off by "
                               "orders of magnitude" % (nme, sorted(ref - keys), sorted(keys - ref), nme),
                       loc="%s:%d" % (prog.cls((SD if nme == "SpectralDensity" else CF) + nme).module.relpath,
                                      prog.cls((SD if nme == "SpectralDensity" else CF) + nme).node.lineno),
                       sample={"class": nme, "keys": sorted(keys)})
    # every contribution to self.lamb made by a constructor itself comes out of a dictionary the constructor filled with
    # converted values: `self.lamb += D["reorg"]` with D bound to {} and filled through convert_energy_2_internal_u in the
    # same loop - not out of the dictionaries as given (a list comprehension over the parameter, the parameter itself)
    for cls_q, cname in ((CF + "CorrelationFunction", "CorrelationFunction"), (SD + "SpectralDensity", "SpectralDensity")):
        init_ = prog.cls(cls_q).methods["__init__"]
        fparams = {a.arg for a in init_.node.args.args}
        raw_records = [st for st in walk_no_nested(init_.node) if isinstance(st, ast.Assign) and norm(st.targets[0]) == "self.params"
                       and isinstance(st.value, (ast.ListComp, ast.Name, ast.Call)) and any(
                           isinstance(x, ast.Name) and x.id in fparams for x in ast.walk(st.value))]
        for st in walk_no_nested(init_.node):
            if isinstance(st, ast.AugAssign) and norm(st.target) == "self.lamb" and isinstance(st.value, ast.Subscript):
                d = st.value.value
                ok = False
                if isinstance(d, ast.Name):
                    fills = [x for x in walk_no_nested(init_.node) if isinstance(x, ast.Assign) and isinstance(x.targets[0], ast.Subscript)
                             and norm(x.targets[0].value) == d.id and isinstance(x.value, ast.Call)
                             and (call_name(x.value) or "").endswith("2_internal_u")]
                    fresh_d = [x for x in walk_no_nested(init_.node) if isinstance(x, ast.Assign) and norm(x.targets[0]) == d.id
                               and isinstance(x.value, ast.Dict) and not x.value.keys]
                    ok = bool(fills) and bool(fresh_d)
                    if not ok:
                        # a loop variable over self.params: admissible when the record was never bound to the caller's own
                        lp = [x for x in walk_no_nested(init_.node) if isinstance(x, ast.For) and isinstance(x.target, ast.Name)
                              and x.target.id == d.id and norm(x.iter) == "self.params"]
                        ok = bool(lp) and not raw_records
                run.obligation(rid, "%s.__init__" % cname, ok, key="units:ctor-lamb-source:" + norm(st)[:40],
                               message="the constructor adds %s to the reorganisation energy, which is kept in internal units; the "
                                       "dictionary it reads was not filled with converted values (it holds the entries as the caller "
                                       "gave them): created inside energy_units the object reports a reorganisation energy off by the "
                                       "conversion factor" % norm(st.value), loc=init_.loc(st))
    for cls_q, cname in ((CF + "CorrelationFunction", "CorrelationFunction"), (SD + "SpectralDensity", "SpectralDensity")):
        cls = prog.cls(cls_q)
        ekeys = unitflow.energy_keys(prog, cls)
        if not ekeys or "reorg" not in ekeys:
            raise AnalysisError("%s.energy_params not found or without 'reorg'" % cname)
        init0, sinks = unitflow.constructor_loop_states(prog, cls, ekeys)
        for var, state, node in sinks:
            run.obligation(rid, "%s.__init__" % cname, state == "INT", key="units:ctor-lamb:" + norm(node)[:40],
                           message="the constructor adds %s to the reorganisation energy while %s iterates over the "
                                   "dictionaries as given by the caller (current units); self.lamb is kept in internal "
                                   "units" % (norm(node.value)[:40], var), loc=init0.loc(node),
                           sample={"loop_variable": var, "state": state})
        init, disp = unitflow.dispatch_states(prog, cls, ekeys)
        if len(disp) < 5:
            raise AnalysisError("%s.__init__: only %d builder calls found" % (cname, len(disp)))
        for bname, state, call in disp:
            f = prog.find_method(cls, bname)
            if f is None:
                run.obligation(rid, "%s.%s" % (cname, bname), False, key="units:dispatch",
                               message="builder %s is called but not defined" % bname, loc=init.loc(call))
                continue
            if state is None:
                raise AnalysisError("%s.__init__: cannot tell which dictionary %s receives" % (cname, norm(call)))
            bf = unitflow.BuilderFlow(prog, f, ekeys, state)
            problems = bf.run()
            kinds = sorted({k for k, _, _ in problems})
            run.obligation(rid, "%s.%s" % (cname, bname), not problems, key="units:%s" % state.lower(),
                           message="the constructor hands %s the parameters %s; %s" % (
                               bname, "as given by the caller (current units)" if state == "RAW" else "converted to internal units",
                               "; ".join(m for _, m, _ in problems[:3])),
                           loc=f.loc(problems[0][2]) if problems else f.loc(),
                           sample={"builder": bname, "receives": state, "energy_uses": bf.uses, "problems": kinds})
        # every object rebuilt from stored (internal-unit) parameters, in any method, is constructed under
        # internal units
        reb = unitflow.stored_param_rebuilds(prog, cls)
        if len(reb) < 3:
            raise AnalysisError("%s: only %d constructions from stored parameters found (copy, sums, conversions "
                                "were confirmed)" % (cname, len(reb)))
        for fn, call, inside, src in reb:
            run.obligation(rid, fn.short, inside, key="units:rebuild:" + norm(call.func) + "(" + src[:30] + ")",
                           message="%s constructs %s from stored parameters (%s, internal units) outside "
                                   "energy_units('int'): the constructor converts them again from the units current "
                                   "for the caller" % (fn.short, norm(call.func), src), loc=fn.loc(call),
                           sample={"method": fn.short, "constructor": norm(call.func), "parameters": src})


def rule_D(run, prog):
    rid = "C09-D"
    funcs = []
    for cls_q in (CF + "CorrelationFunction", SD + "SpectralDensity"):
        cls = prog.cls(cls_q)
        funcs += [f for n, f in cls.methods.items() if n.startswith("_make_") or n in
                  ("__init__", "__add__", "add_to_data", "add_to_data2", "_matsubara")]
    n = apiexist.check_functions(run, rid, prog, funcs, "building a component")
    if n < 10:
        raise AnalysisError("API-existence scan saw only %d external references" % n)
