"""C13 - Fourier transforms and time/frequency axes are mutually inverse.

Decided statically: shift discipline of the transforms of centred arrays
(ifftshift on the input, fftshift on the output - fftshift on the input is
wrong for every odd length), forward and backward prefactors multiply to one
given the conjugate step, the Hermitian extension fills index pairs summing to
the extended length, and the axis conjugation bookkeeping maps an axis back to
itself for both axis types and both parities (scalar algebra over the stated
model fftshift(c*fftfreq(n,d))[k] = c*(k - n//2)/(n*d)).  Not decided:
equality with the direct Fourier sum as numbers.
"""
import ast

from ..loader import AnalysisError, norm, walk_no_nested, call_name
from .. import ta
from ..ta import Expr, normal, show_normal, C

DF = "quantarhei.core.dfunction.DFunction."


class Grid:
    """g[k] = first + k*step, n points"""

    def __init__(self, first, step, n):
        self.first, self.step, self.n = first, step, n


def S(name, pw=1):
    return Expr.factor(name, (), False, pw)


def inv(e):
    if not isinstance(e, Expr):
        return Expr.const(C.of(e).inv())
    e = ta.simplify(e)
    if len(e.terms) != 1:
        raise AnalysisError("C13 scalar algebra: division by a sum: %r" % e)
    t = e.terms[0]
    if t.deltas or t.sums or any(f.idx for f in t.factors):
        raise AnalysisError("C13 scalar algebra: division by non-scalar")
    return Expr([ta.Term(t.coeff.inv(), [ta.F(f.name, (), f.conj, -f.pow) for f in t.factors])])


class Ev:
    """Evaluator of the small expression language used by the axis code."""

    def __init__(self, env):
        self.env = env

    def ev(self, n):
        t = norm(n)
        if t in self.env:
            return self.env[t]
        if isinstance(n, ast.Constant) and isinstance(n.value, (int, float)):
            return Expr.const(n.value)
        if isinstance(n, ast.Attribute) and t == "numpy.pi":
            return S("pi")
        if isinstance(n, ast.BinOp):
            if isinstance(n.op, ast.FloorDiv) and isinstance(n.right, ast.Constant) and n.right.value == 2:
                inner = self.ev(n.left)
                return self.half(inner)
            l, r = self.ev(n.left), self.ev(n.right)
            if isinstance(l, Grid) or isinstance(r, Grid):
                g, s = (l, r) if isinstance(l, Grid) else (r, l)
                if isinstance(n.op, ast.Mult):
                    return Grid(g.first * s, g.step * s, g.n)
                raise AnalysisError("C13: grid arithmetic %s" % t)
            if isinstance(n.op, ast.Add):
                return l + r
            if isinstance(n.op, ast.Sub):
                return l - r
            if isinstance(n.op, ast.Mult):
                return l * r
            if isinstance(n.op, ast.Div):
                return l * inv(r)
        if isinstance(n, ast.Subscript):
            g = self.ev(n.value)
            if isinstance(g, Grid):
                k = self.ev(n.slice)
                return g.first + k * g.step
        if isinstance(n, ast.Call):
            nm = call_name(n)
            if nm == "len" and len(n.args) == 1:
                g = self.ev(n.args[0])
                if isinstance(g, Grid):
                    return g.n
            if nm == "int" and len(n.args) == 1:
                a = n.args[0]
                if isinstance(a, ast.BinOp) and isinstance(a.op, ast.Div) and \
                        isinstance(a.right, ast.Constant) and a.right.value == 2:
                    return self.half(self.ev(a.left))
                return self.ev(a)
            if nm == "fftshift" and len(n.args) == 1:
                return self.ev(n.args[0])        # fftfreq below is returned in shifted (ascending) order
            if nm == "fftfreq" and len(n.args) == 2:
                nn, d = self.ev(n.args[0]), self.ev(n.args[1])
                step = inv(nn * d)
                return Grid(-(self.half(nn)) * step, step, nn)
        raise AnalysisError("C13: expression outside the axis vocabulary: %s" % t)

    def half(self, e):
        """n // 2: exact for an explicitly even expression 2*x, symbolic otherwise"""
        nf = normal(e)
        if len(nf) == 1:
            (key, nd), c = list(nf.items())[0]
            if c.im == 0 and c.re % 2 == 0:
                return e * Expr.const(C(ta.Fraction(1, 2)))
            fs = key[0]
            if len(fs) == 1 and fs[0][3] == 1 and c == C(1):
                return S("half(" + fs[0][0] + ")")
        raise AnalysisError("C13: cannot halve %r" % e)


def check(run, prog, tier):
    run.explanation = (
        "Structural rule on every fft/ifft call of DFunction (which shift function feeds it, which "
        "wraps it), scalar-algebra product of the forward and backward prefactors under the "
        "conjugate-step relation derived from the axis code, affine index relation of the Hermitian "
        "extension, and scalar-algebra round trips of the axis conjugation (start, step, length, "
        "stored conjugate start) for complete and upper-half axes with the length's half kept "
        "symbolic (covers even and odd). Trusted: the model of fftshift(fftfreq(n,d)) and that "
        "ifft(fft(x)) = x.")
    run.trusted_base = ["numpy.fft.fftshift(c*numpy.fft.fftfreq(n,d))[k] = c*(k - n//2)/(n*d)",
                        "numpy.fft: ifft(fft(x)) = x; ifftshift undoes fftshift for every length; "
                        "fftshift is its own inverse only for even lengths"]
    run.rule("C13-E", "transforms and conjugate axes are computed from the current values and axis (nothing kept across an in-place change of the data)", minimum=4)
    from . import memorule
    memorule.check(run, prog, "C13-E", ['quantarhei.core.dfunction.DFunction', 'quantarhei.core.time.TimeAxis', 'quantarhei.core.frequency.FrequencyAxis', 'quantarhei.core.valueaxis.ValueAxis'],
                   "the transform then is that of earlier values and does not equal the Fourier sum of the current ones",
                   also_ok={("DFunction._get_spline_approx", "_splines_initialized"):
                            "the interpolation splines serve at(); the Fourier transforms read self.data, never the splines "
                            "(the stored splines are decided under C09-G)"})
    run.rule("C13-A", "centred data go through ifftshift -> (i)fft -> fftshift", minimum=8)
    run.rule("C13-B", "forward and backward prefactors multiply to one", minimum=3)
    run.rule("C13-C", "Hermitian extension: index pairs sum to the extended length", minimum=4)
    run.rule("C13-D", "axis conjugation round trips (scalar algebra)", minimum=16)
    run.rule("C13-F", "a copy of an axis carries everything the axis knows about its conjugate axis", minimum=1)
    run.rule("C13-G", "a method that moves an axis moves its array of points and its (start, step) description by the same amount "
                      "(symbolic record start = S, data = S + k*step, statements in order): the frequency axis and the phase of a "
                      "transform are computed from `start`, the values are laid out along `data`", minimum=2)
    from . import axisrule
    axisrule.check(run, prog, "C13-G", "the conjugate axis and the transforms of functions on this axis are computed from the "
                                        "description, the data are plotted and interpolated along the points")
    rule_A(run, prog)
    pref = rule_B(run, prog)
    rule_C(run, prog)
    rule_D(run, prog)
    rule_F(run, prog)
    run.rule("C13-H", "'the frequency axis derived from a time axis maps back to the same time axis and vice versa': what an axis is "
                      "told about its conjugate axis when it is created (type, start of the conjugate axis) is what it keeps, on "
                      "every path through the constructor (qv/ctorparam.py, all-paths mode)", minimum=4)
    rule_H(run, prog)


def rule_H(run, prog):
    """get_TimeAxis() / get_FrequencyAxis() hand the position of the axis they come from to the constructor of the conjugate
    axis (frequency_start, time_start) together with the type; the way back reads them.  A constructor that keeps the
    argument on some paths only (for one type of axis, when it is non-zero, ...) maps back to another axis."""
    from .. import ctorparam
    rid = "C13-H"
    n = 0
    wanted = {"atype", "frequency_start", "time_start"}
    for q in ("quantarhei.core.time.TimeAxis", "quantarhei.core.frequency.FrequencyAxis"):
        cls = prog.cls(q)
        init = cls.methods.get("__init__")
        if init is None:
            raise AnalysisError("%s.__init__ vanished" % q)
        prog.consulted.add(init.relpath)
        res = {p_: (ok, node, why) for p_, ok, node, why in ctorparam.analyse(prog, cls, flags_only=False, all_paths=True)}
        params = [a_.arg for a_ in init.node.args.args[1:] + init.node.args.kwonlyargs if a_.arg in wanted]
        for p_ in params:
            n += 1
            if p_ not in res:
                # not stored under its own name at all: handed to a setter / base constructor is fine, dropped is not
                used = any(isinstance(x, ast.Name) and x.id == p_ for x in walk_no_nested(init.node))
                run.obligation(rid, cls.name + ".__init__", used, key="kept:" + p_,
                               message="%s(%s=...) does not use the argument: the conjugate axis derived later does not map back"
                                       % (cls.name, p_), loc=init.loc(), sample={"parameter": p_})
                continue
            ok, node, why = res[p_]
            run.obligation(rid, cls.name + ".__init__", ok, key="kept:" + p_,
                           message="%s(%s=...) keeps the argument on some paths only (%s): an axis created from its conjugate axis "
                                   "forgets where that axis lies, and mapping back gives a different axis"
                                   % (cls.name, p_, why), loc=init.loc(node), sample={"parameter": p_})
    if n < 4:
        raise AnalysisError("C13-H: only %d conjugate-axis parameters found in the constructors of the axes" % n)


def _ffts(f):
    out = []
    for n in walk_no_nested(f.node):
        if isinstance(n, ast.Call) and call_name(n) in ("fft", "ifft") and "fft." in norm(n.func):
            out.append(n)
    return out


def rule_A(run, prog):
    rid = "C13-A"
    from ..loader import parents_map
    for mname in ("get_Fourier_transform", "get_inverse_Fourier_transform"):
        f = prog.func(DF + mname)
        pm = parents_map(f.node)
        calls = _ffts(f)
        if len(calls) != 3:
            raise AnalysisError("%s: expected 3 transform calls, found %d" % (mname, len(calls)))
        for c in calls:
            arg = c.args[0]
            par = pm.get(c)
            wrapped = isinstance(par, ast.Call) and call_name(par) == "fftshift"
            site = "%s:%s" % (mname, norm(arg)[:30])
            run.obligation(rid, "DFunction." + mname, wrapped, key="out-shift:" + norm(arg)[:30],
                           message="the result of %s must be brought to centred order with fftshift"
                           % call_name(c), loc=f.loc(c), sample={"site": site})
            if isinstance(arg, ast.Call) and call_name(arg) in ("fftshift", "ifftshift"):
                ok = call_name(arg) == "ifftshift"
                run.obligation(rid, "DFunction." + mname, ok, key="in-shift:" + norm(arg)[:30],
                               message="centred data must be moved to FFT order with ifftshift; fftshift "
                                       "rotates by ceil(N/2) and is wrong for every odd length",
                               loc=f.loc(c), sample={"site": site, "input_shift": call_name(arg)})
            else:
                # un-shifted input is only right for the explicitly constructed FFT-ordered extension
                ok = isinstance(arg, ast.Name) and any(
                    isinstance(s, ast.Assign) and norm(s.targets[0]) == arg.id and isinstance(s.value, ast.Call)
                    and call_name(s.value) == "zeros" for s in walk_no_nested(f.node))
                run.obligation(rid, "DFunction." + mname, ok, key="in-order:" + norm(arg)[:30],
                               message="un-shifted transform input must be the FFT-ordered Hermitian "
                                       "extension built in this function", loc=f.loc(c), sample={"site": site})


def _prefactor(f, call, pm):
    """product of the scalar factors multiplying the (shifted) transform"""
    node = call
    while True:
        par = pm.get(node)
        if isinstance(par, ast.Call) and call_name(par) == "fftshift":
            node = par
            continue
        break
    facs = []
    while isinstance(pm.get(node), ast.BinOp) and isinstance(pm.get(node).op, (ast.Mult, ast.Div)):
        par = pm.get(node)
        other = par.right if par.left is node else par.left
        if isinstance(par.op, ast.Div):
            if par.left is not node:
                raise AnalysisError("transform in a denominator")
            facs.append(("div", other))
        else:
            facs.append(("mul", other))
        node = par
    return facs


def rule_B(run, prog):
    rid = "C13-B"
    from ..loader import parents_map
    env = {"t.length": S("N"), "t.step": S("dt"), "w.length": S("Nw"), "w.step": S("dw"),
           "numpy.pi": S("pi")}
    ev = Ev(env)
    res = {}
    for mname in ("get_Fourier_transform", "get_inverse_Fourier_transform"):
        f = prog.func(DF + mname)
        pm = parents_map(f.node)
        for c in _ffts(f):
            facs = _prefactor(f, c, pm)
            e = Expr.const(1)
            for kind, node in facs:
                v = ev.ev(node)
                e = e * (v if kind == "mul" else inv(v))
            if call_name(c) == "ifft":
                e = e     # numpy ifft carries 1/n; kept explicit below
            dom = None
            node = c
            while node is not None:
                node = pm.get(node)
                if isinstance(node, ast.If) and norm(node.test) in ("isinstance(t, TimeAxis)",
                                                                     "isinstance(t, FrequencyAxis)"):
                    # which arm contains the call?
                    inbody = any(c is x for s_ in node.body for x in ast.walk(s_))
                    if norm(node.test) == "isinstance(t, TimeAxis)":
                        dom = "time" if inbody else "freq"
                    else:
                        dom = "freq" if inbody else None
                    if dom:
                        break
            if dom is None:
                raise AnalysisError("C13-B: cannot tell on which axis type a transform acts")
            key = (mname, call_name(c), "ext" if isinstance(c.args[0], ast.Name) else "shifted", dom)
            res[key] = e
    # complete time axis: forward N*ifft*dt, backward (on the frequency axis) fft*dw/(2 pi)
    fwd = res.get(("get_Fourier_transform", "ifft", "shifted", "time"))
    bwd = res.get(("get_inverse_Fourier_transform", "fft", "shifted", "freq"))
    if fwd is None or bwd is None:
        raise AnalysisError("C13-B: transform prefactors not found: %s" % sorted(res))
    # ifft = (1/n) * inverse DFT with n = N; fft(ifft(x)) = x  => product of explicit factors * 1
    # numpy: fft(ifft(x)) = x, so the product of the explicit factors must be one under the
    # conjugate step dw = 2 pi / (N dt) (C13-D) and Nw = N
    prod = (fwd * bwd).subst_scalar("dw", Expr.const(2) * S("pi") * S("N", -1) * S("dt", -1))
    nf = normal(prod - Expr.const(1))
    run.obligation(rid, "DFunction (complete axis)", not nf, key="round-trip-prefactor",
                   message="forward factor (N*dt) times backward factor (dw/2pi) is not one for "
                           "dw = 2pi/(N dt): %s" % show_normal(nf, 3),
                   loc="quantarhei/core/dfunction.py",
                   sample={"forward": show_normal(normal(fwd)), "backward": show_normal(normal(bwd))})
    # the other pairing: forward with fft (inverse transform of a time function) and back with ifft on the frequency axis
    fwd2 = res.get(("get_inverse_Fourier_transform", "fft", "shifted", "time"))
    bwd2 = res.get(("get_Fourier_transform", "ifft", "shifted", "freq"))
    if fwd2 is None or bwd2 is None:
        raise AnalysisError("C13-B: second pairing not found: %s" % sorted(res))
    prod = (fwd2 * bwd2).subst_scalar("dw", Expr.const(2) * S("pi") * S("N", -1) * S("dt", -1)) \
        .subst_scalar("Nw", S("N"))
    nf = normal(prod - Expr.const(1))
    run.obligation(rid, "DFunction (complete axis, inverse first)", not nf, key="round-trip-prefactor-2",
                   message="inverse transform followed by transform on the frequency axis does not have unit "
                           "prefactor: %s" % show_normal(nf, 3), loc="quantarhei/core/dfunction.py",
                   sample={"forward": show_normal(normal(fwd2)), "backward": show_normal(normal(bwd2))})
    # upper-half: 2N points, factor 2
    up = res.get(("get_Fourier_transform", "ifft", "ext", "time"))
    if up is None:
        raise AnalysisError("C13-B: upper-half prefactor not found")
    # Y = 2*N*ifft_{2N}(yy)*dt: 2N*(1/(2N)) sum = sum * dt  -> direct Fourier sum with weight dt
    nf = normal(up * S("N", -1) * Expr.const(C(ta.Fraction(1, 2))) - S("dt"))
    run.obligation(rid, "DFunction (upper-half axis)", not nf, key="upper-half-prefactor",
                   message="upper-half forward factor times the 1/(2N) of ifft is not dt: %s" % show_normal(nf, 3),
                   loc="quantarhei/core/dfunction.py", sample={"forward": show_normal(normal(up))})
    # the conjugate transform of a function on an upper-half time axis: fft is not normalised, so the direct sum
    # sum_n f(t_n) exp(-i w t_n) dt over the Hermitian-extended data has the prefactor dt and nothing else
    up2 = res.get(("get_inverse_Fourier_transform", "fft", "ext", "time"))
    if up2 is None:
        raise AnalysisError("C13-B: upper-half prefactor of the inverse transform not found")
    nf = normal(up2 - S("dt"))
    run.obligation(rid, "DFunction (upper-half axis, inverse transform)", not nf, key="upper-half-prefactor-inverse",
                   message="the inverse transform of a function on an upper-half time axis carries the prefactor %s where "
                           "the Fourier sum over the extended data has dt: followed by the forward transform it does not "
                           "return the original values" % show_normal(normal(up2)),
                   loc="quantarhei/core/dfunction.py", sample={"prefactor": show_normal(normal(up2))})
    return res


def rule_C(run, prog):
    rid = "C13-C"
    for mname in ("get_Fourier_transform", "get_inverse_Fourier_transform"):
        f = prog.func(DF + mname)
        loops = [n for n in walk_no_nested(f.node) if isinstance(n, ast.For)]
        if len(loops) != 1:
            raise AnalysisError("%s: Hermitian-extension loop not found" % mname)
        lp = loops[0]
        k = lp.target.id
        ok_range = norm(lp.iter) in ("range(0, t.length - 1)", "range(t.length - 1)")
        body = lp.body
        ok = len(body) == 1 and isinstance(body[0], ast.Assign) and isinstance(body[0].targets[0], ast.Subscript)
        rel = False
        conj = False
        if ok:
            st = body[0]
            env = {k: S("k"), "w.length": S("Nw"), "t.length": S("N")}
            ev = Ev(env)
            store = ev.ev(st.targets[0].slice)
            val = st.value
            conj = isinstance(val, ast.Call) and call_name(val) == "conj" and isinstance(val.args[0], ast.Subscript)
            if conj:
                load = ev.ev(val.args[0].slice)
                rel = not normal(store + load - S("Nw"))
                first_load = not normal(load.subst_scalar("k", 0) - Expr.const(1))
            else:
                first_load = False
        run.obligation(rid, "DFunction." + mname, ok and rel and conj, key="mirror",
                       message="negative-time fill must store conj(y[j]) at index (extended length - j)",
                       loc=f.loc(lp), sample={"store": norm(body[0]) if body else None})
        run.obligation(rid, "DFunction." + mname, ok_range and ok and first_load, key="range",
                       message="the fill must cover j = 1 .. N-1 (element N stays zero, element 0 is not "
                               "mirrored)", loc=f.loc(lp), sample={"loop": norm(lp.iter)})
        pre = [norm(s) for s in walk_no_nested(f.node) if isinstance(s, ast.Assign)]
        ok = "yy[0:w.length // 2] = y" in pre and any(p.startswith("yy = numpy.zeros(w.length") for p in pre)
        run.obligation(rid, "DFunction." + mname, ok, key="positive-half",
                       message="the positive-time half must be copied into the first half of a zero array of "
                               "the extended length", loc=f.loc())


def _branch(f, atype):
    """statements executed for one axis type: the body of its branch followed by whatever follows the
    if-chain on the way out of the function (assignments common to all types may be hoisted there)"""
    from ..loader import parents_map
    pm = parents_map(f.node)
    for n in walk_no_nested(f.node):
        if isinstance(n, ast.If) and norm(n.test) == "self.atype == '%s'" % atype:
            body = list(n.body)
            node = n
            # climb out of the elif chain and the enclosing blocks, collecting trailing statements
            while node is not f.node and node is not None:
                par = pm.get(node)
                if par is None:
                    break
                for fld in ("body", "orelse", "finalbody"):
                    blk = getattr(par, fld, None)
                    if isinstance(blk, list) and node in blk:
                        if not (isinstance(par, ast.If) and fld == "orelse"):
                            body += [s_ for s_ in blk[blk.index(node) + 1:] if not isinstance(s_, ast.Return)]
                node = par
            return body
    raise AnalysisError("%s: branch for %s not found" % (f.short, atype))


def _assigns(body):
    out = {}
    for s in body:
        if isinstance(s, ast.Assign) and isinstance(s.targets[0], ast.Name):
            out[s.targets[0].id] = s.value
        elif isinstance(s, ast.If):
            pass
    return out


def _eval_axis(f, atype, env, order):
    body = _branch(f, atype)
    a = _assigns(body)
    ev = Ev(dict(env))
    vals = {}
    for name in order:
        if name not in a:
            raise AnalysisError("%s[%s]: %s not assigned" % (f.short, atype, name))
    # evaluate in source order
    for s in body:
        if isinstance(s, ast.Assign) and isinstance(s.targets[0], ast.Name):
            v = ev.ev(s.value)
            ev.env[s.targets[0].id] = v
            vals[s.targets[0].id] = v
    return vals


def rule_F(run, prog):
    """'The frequency axis derived from a time axis maps back to the same time axis': what a frequency axis knows about its
    time axis is its step, its length and time_start (and a time axis keeps frequency_start).  A copy of an axis - the
    spectrum containers copy the axis they take over - has to carry all of it: in every `copy` method of the axis classes
    that builds the copy with the class's own constructor, each constructor parameter that the constructor stores on the
    object is passed on (positionally or by keyword); a parameter left to its default is state that the copy forgets, and
    the copy maps back to a time axis that starts (or is centred) at zero."""
    rid = "C13-F"
    n = 0
    for q in ("quantarhei.core.valueaxis.ValueAxis", "quantarhei.core.time.TimeAxis", "quantarhei.core.frequency.FrequencyAxis"):
        cls = prog.cls(q)
        cp = cls.methods.get("copy")
        if cp is None:
            continue
        init = cls.methods.get("__init__")
        if init is None:
            continue
        calls = [c for c in walk_no_nested(cp.node) if isinstance(c, ast.Call) and call_name(c) == cls.name]
        if not calls:
            continue
        n += 1
        prog.consulted.add(cp.relpath)
        params = [a.arg for a in init.node.args.args[1:]]
        stored = {p_ for p_ in params if any(isinstance(st, ast.Assign) and isinstance(st.value, ast.Name) and st.value.id == p_
                                              and any(isinstance(t_, ast.Attribute) and norm(t_.value) == "self" for t_ in st.targets)
                                              for st in ast.walk(init.node))}
        # parameters handed on to the base constructor are stored there
        for c_ in ast.walk(init.node):
            if isinstance(c_, ast.Call) and isinstance(c_.func, ast.Attribute) and c_.func.attr == "__init__":
                for a_ in list(c_.args) + [k.value for k in c_.keywords]:
                    if isinstance(a_, ast.Name) and a_.id in params:
                        stored.add(a_.id)
        c = calls[0]
        given = set(params[:len(c.args)]) | {k.arg for k in c.keywords}
        missing = [p_ for p_ in params if p_ in stored and p_ not in given]
        run.obligation(rid, cp.short, not missing, key="copy-carries-the-whole-axis",
                       message="%s builds the copy with `%s` and leaves %s to the default: the copy forgets where its conjugate axis "
                               "lies, and maps back to an axis that starts (or is centred) at zero"
                               % (cp.short, norm(c)[:80], missing), loc=cp.loc(c), sample={"stored_parameters": sorted(stored)})
    if n < 1:
        raise AnalysisError("C13-F: no axis class builds its copy with its own constructor (FrequencyAxis.copy confirmed)")


def rule_D(run, prog):
    rid = "C13-D"
    tf = prog.func("quantarhei.core.time.TimeAxis.get_FrequencyAxis")
    ft = prog.func("quantarhei.core.frequency.FrequencyAxis.get_TimeAxis")
    # constructor wiring
    ctor = [n for n in walk_no_nested(tf.node) if isinstance(n, ast.Call) and call_name(n) == "FrequencyAxis"]
    ok = len(ctor) == 1 and [norm(a) for a in ctor[0].args] == ["start", "nosteps", "step"] and \
        {k.arg: norm(k.value) for k in ctor[0].keywords} == {"atype": "self.atype", "time_start": "time_start"}
    run.obligation(rid, "TimeAxis.get_FrequencyAxis", ok, key="ctor",
                   message="FrequencyAxis must be built from (start, nosteps, step, atype, time_start)", loc=tf.loc())
    ctor = [n for n in walk_no_nested(ft.node) if isinstance(n, ast.Call) and call_name(n) == "TimeAxis"]
    ok = len(ctor) == 1 and [norm(a) for a in ctor[0].args] == ["start", "nosteps", "step"] and \
        {k.arg: norm(k.value) for k in ctor[0].keywords} == {"atype": "self.atype", "frequency_start": "frequency_start"}
    run.obligation(rid, "FrequencyAxis.get_TimeAxis", ok, key="ctor",
                   message="TimeAxis must be built from (start, nosteps, step, atype, frequency_start)", loc=ft.loc())
    # frequency axis is created in internal units, time axis computed in internal units
    ok = any(isinstance(n, ast.With) and norm(n.items[0].context_expr) == "energy_units('int')"
             and any(isinstance(c, ast.Call) and call_name(c) == "FrequencyAxis" for c in ast.walk(n))
             for n in walk_no_nested(tf.node))
    run.obligation(rid, "TimeAxis.get_FrequencyAxis", ok, key="internal-units",
                   message="the conjugate axis must be created under internal units", loc=tf.loc())
    # the frequency axis is units managed: everything read from it must be read under internal units
    from .. import unitflow
    for fn, nprot, outside in unitflow.unprotected_managed_reads(prog, prog.cls("quantarhei.core.frequency.FrequencyAxis")):
        run.obligation(rid, fn.short, not outside, key="internal-units-reads",
                       message="%s reads the units-managed %s outside its energy_units('int') block: the derived axis "
                               "then depends on the units current for the caller and does not map back"
                               % (fn.short, sorted({"self." + x.attr for x in outside})),
                       loc=fn.loc(outside[0]) if outside else fn.loc(), sample={"protected_reads": nprot})
    for nme in ("get_Fourier_transform", "get_inverse_Fourier_transform"):
        fn = prog.func("quantarhei.core.dfunction.DFunction." + nme)
        total, bad = unitflow.typed_unprotected_reads(prog, fn)
        if not total:
            raise AnalysisError("DFunction.%s: the frequency-axis branch reads no axis property" % nme)
        run.obligation(rid, fn.short, not bad, key="internal-units-step",
                       message="%s multiplies the discrete transform by %s read outside energy_units('int'): inside a "
                               "units context the transform is scaled by the conversion factor and no longer equals "
                               "the Fourier sum" % (fn.short, sorted({norm(x) for x in bad})),
                       loc=fn.loc(bad[0]) if bad else fn.loc(), sample={"typed_reads": total})
    if any(x.rule == rid and x.key == "internal-units-reads" for x in run.findings):
        return      # the symbolic round trip below assumes internal units throughout
    # the algebra below takes self.min of an axis to be its first point (t0).  Where the conjugation reads self.min, the
    # property has to be that on every path: a `min` that answers with the last point for a descending axis records the
    # wrong origin (time_start) and the axis comes back shifted by (length-1)*step
    for fn_, clsq in ((tf, "quantarhei.core.time.TimeAxis"), (ft, "quantarhei.core.frequency.FrequencyAxis")):
        reads = [x for x in ast.walk(fn_.node) if isinstance(x, ast.Attribute) and x.attr == "min" and norm(x.value) == "self"]
        if not reads:
            continue
        pf = prog.find_method(prog.cls(clsq), "min")
        if pf is None:
            raise AnalysisError("%s reads self.min, which no class of the axis defines" % fn_.short)
        prog.consulted.add(pf.relpath)
        rets = [x for x in walk_no_nested(pf.node) if isinstance(x, ast.Return)]
        bad = [x for x in rets if x.value is None or norm(x.value) not in ("self.start", "self.data[0]")]
        run.obligation(rid, pf.short, bool(rets) and not bad, key="min-is-first-point",
                       message="%s takes the origin of the axis from self.min, and %s returns `%s` on one of its paths: the origin "
                               "recorded for the inverse conjugation is then not the first point of the axis (a descending "
                               "upper-half axis comes back shifted by (length-1)*step)"
                               % (fn_.short, pf.short, norm(bad[0].value)[:40] if bad and bad[0].value is not None else ""),
                       loc=pf.loc(bad[0]) if bad else pf.loc(pf.node))
    pi2 = Expr.const(2) * S("pi")
    for atype in ("complete", "upper-half"):
        # ---- time -> frequency -> time
        t0, N, dt, fs = S("t0"), S("N"), S("dt"), S("fs")
        tgrid = Grid(t0, dt, N)
        env = {"self.length": N, "self.step": dt, "self.frequency_start": fs, "self.data": tgrid,
               "self.min": t0, "self.start": t0}
        v = _eval_axis(tf, atype, env, ["start", "step", "nosteps", "time_start"])
        w0, dw, Nw, ts = v["start"], v["step"], v["nosteps"], v["time_start"]
        wgrid = Grid(w0, dw, Nw)
        env2 = {"self.length": Nw, "self.step": dw, "self.time_start": ts, "self.data": wgrid,
                "self.start": w0}
        v2 = _eval_axis(ft, atype, env2, ["start", "step", "nosteps", "frequency_start"])
        for name, want in (("start", t0), ("step", dt), ("nosteps", N), ("frequency_start", fs)):
            nf = normal(v2[name] - want)
            run.obligation(rid, "axis round trip time->frequency->time [%s]" % atype, not nf, key=name,
                           message="%s of the time axis is not recovered: difference %s" % (name, show_normal(nf, 3)),
                           loc=tf.loc(), sample={"axis": atype, "quantity": name,
                                                 "frequency_axis": {"start": show_normal(normal(w0)),
                                                                    "step": show_normal(normal(dw)),
                                                                    "length": show_normal(normal(Nw))}})
        # conjugate step relation used by C13-B
        nsteps = N if atype == "complete" else Expr.const(2) * N
        nf = normal(dw * nsteps * dt - pi2)
        run.obligation(rid, "axis step [%s]" % atype, not nf, key="conjugate-step",
                       message="frequency step times number of points times time step is not 2 pi",
                       loc=tf.loc(), sample={"axis": atype})
        # ---- frequency -> time -> frequency
        w0, Nw, dw, ts = S("w0"), (S("Nw") if atype == "complete" else Expr.const(2) * S("M")), S("dw"), S("ts")
        wgrid = Grid(w0, dw, Nw)
        env = {"self.length": Nw, "self.step": dw, "self.time_start": ts, "self.data": wgrid, "self.start": w0}
        v = _eval_axis(ft, atype, env, ["start", "step", "nosteps", "frequency_start"])
        tgrid = Grid(v["start"], v["step"], v["nosteps"])
        env2 = {"self.length": v["nosteps"], "self.step": v["step"], "self.frequency_start": v["frequency_start"],
                "self.data": tgrid, "self.min": v["start"], "self.start": v["start"]}
        v2 = _eval_axis(tf, atype, env2, ["start", "step", "nosteps", "time_start"])
        for name, want in (("start", w0), ("step", dw), ("nosteps", Nw), ("time_start", ts)):
            nf = normal(v2[name] - want)
            run.obligation(rid, "axis round trip frequency->time->frequency [%s]" % atype, not nf, key=name,
                           message="%s of the frequency axis is not recovered: difference %s"
                           % (name, show_normal(nf, 3)), loc=ft.loc(), sample={"axis": atype, "quantity": name})
    # odd upper-half frequency axes are refused
    body = _branch(ft, "upper-half")
    ok = any(isinstance(s, ast.If) and norm(s.test) == "self.length % 2 != 0"
             and any(isinstance(x, ast.Raise) for x in s.body) for s in body)
    run.obligation(rid, "FrequencyAxis.get_TimeAxis", ok, key="even-only",
                   message="an upper-half time axis cannot be derived from an odd number of frequency points: "
                           "must be refused", loc=ft.loc())
