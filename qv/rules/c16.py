"""C16 - hierarchical equations: consistent links, valid states.

Decided statically: every term of the two right-hand sides is
Hermiticity-preserving and carries the step exactly once, the equation of the
reduced operator (multi-index 0) is trace-free given that the first
multi-index is the zero vector (TA + structure of generate_indices/_make_Gamma);
the propagation loop is the Taylor scheme; the -1 sentinel of the link tables
is excluded by the guards or multiplied by a vanishing order (finite
evaluation of the guard expressions); the scratch hierarchy is reset before a
run.  The index set, the level tables, the raising/lowering links and the decay factors are
decided by interpreting the constructor on every (number of baths, depth) up to a stated bound
(qv/feval.py).  Not decided: the index set beyond that bound, convergence with depth, the
zero-coupling limit as numbers.
"""
import ast

from ..loader import AnalysisError, norm, walk_no_nested, call_name
from .. import ta
from ..ta import Expr, Array, Facts, normal, show_normal
from ..ta_front import Interp, Obj, Index, IndexTable
from . import taylor

HE = "quantarhei.qm.liouvillespace.heom."


def rule_O(run, prog):
    """Taint from the parameters (the auxiliary operators handed in) through assignments; flagged: conj / conjugate /
    transpose / adjoint calls, `.T`, `.H`, `.conj()` whose operand mentions a tainted name, in every method of
    KTHierarchyPropagator whose name contains 'rhs'."""
    rid = "C16-O"
    cls = prog.cls(HE + "KTHierarchyPropagator")
    n = 0
    for name, f in sorted(cls.methods.items()):
        if "rhs" not in name or not isinstance(f.node, ast.FunctionDef):
            continue
        n += 1
        prog.consulted.add(f.relpath)
        tainted = {a_.arg for a_ in f.node.args.args if a_.arg.startswith("ado") or a_.arg.startswith("rho")}
        changed = True
        while changed:
            changed = False
            for x in walk_no_nested(f.node):
                if isinstance(x, (ast.Assign, ast.AugAssign)):
                    tg = x.targets if isinstance(x, ast.Assign) else [x.target]
                    if any(isinstance(y, ast.Name) and y.id in tainted for y in ast.walk(x.value)):
                        for t_ in tg:
                            b_ = t_
                            while isinstance(b_, ast.Subscript):
                                b_ = b_.value
                            if isinstance(b_, ast.Name) and b_.id not in tainted:
                                tainted.add(b_.id)
                                changed = True

        def mentions(e):
            return any(isinstance(y, ast.Name) and y.id in tainted for y in ast.walk(e))
        bad = []
        for x in walk_no_nested(f.node):
            if isinstance(x, ast.Call):
                cn = (call_name(x) or "").split(".")[-1]
                if cn in ("conj", "conjugate", "transpose", "swapaxes", "adjoint", "matrix_transpose"):
                    ops = list(x.args) + ([x.func.value] if isinstance(x.func, ast.Attribute) else [])
                    if any(mentions(o) for o in ops):
                        bad.append((x, norm(x)[:50]))
            elif isinstance(x, ast.Attribute) and x.attr in ("T", "H", "mT") and mentions(x.value):
                bad.append((x, norm(x)[:50]))
        run.obligation(rid, f.short, not bad, key="linear-in-the-state",
                       message="%s conjugates / transposes a value computed from the auxiliary operators (%s): the right-hand side is "
                               "then correct for Hermitian auxiliary operators only, and an initial coherence |e><g| is propagated "
                               "into something else than |e><g| exp(-iwt - g(t))" % (f.short, "; ".join(t for _, t in bad[:2])),
                       loc=f.loc(bad[0][0]) if bad else f.loc(), sample={"method": f.short, "tainted": sorted(tainted)[:6]})
    if n < 2:
        raise AnalysisError("C16-O: the right-hand sides of KTHierarchyPropagator were not found (%d)" % n)


def check(run, prog, tier):
    run.explanation = (
        "TA interpretation of one (nn,kk) iteration of _ado_self_rhs/_ado_cros_rhs with the link "
        "tables as opaque index maps: Hermiticity of every term, the factor dt, which terms carry the "
        "order n_k; structure of generate_indices/_make_Gamma for the root; Taylor recogniser on "
        "propagate(); finite evaluation of the link guards over the sign classes of (n_k, link); "
        "reset-before-use of the auxiliary operators; finite evaluation (qv/feval.py) of the tail of "
        "KTHierarchy.__init__ with generate_indices/_convert_2_matrix/_make_nmp1/_make_Gamma for 1-4 baths and "
        "depths 0-3 (thorough: up to depth 5 and 5 baths) against the complete index set, level offsets, "
        "mutually inverse links with -1 exactly at the boundaries, and Gamma = sum n_k gamma_k. Not decided: "
        "the index set beyond the bound, depth convergence, numerical limits.")
    run.trusted_base = ["system-bath operators Vs and the Hamiltonian are Hermitian; lam, gamma, kBT real",
                        "beyond the evaluated bound (C16-E) the index set is complete, so a missing lower link occurs "
                        "only with n_k = 0"]
    run.rule("C16-A", "right-hand sides: Hermiticity, step factor, trace-free root equation (TA)", minimum=8)
    run.rule("C16-B", "propagate() is the Taylor scheme over both right-hand sides", minimum=8)
    run.rule("C16-C", "link sentinel excluded by the guards (finite evaluation)", minimum=6)
    run.rule("C16-D", "auxiliary operators are reset before a run", minimum=2)
    rule_A(run, prog)
    rule_B(run, prog)
    rule_C(run, prog)
    rule_D(run, prog)
    run.rule("C16-E", "index set, level tables, links and decay factors of the hierarchy (finite evaluation of the "
                      "constructor)", minimum=6)
    rule_E(run, prog, tier)
    run.rule("C16-G", "bath parameters of the hierarchy are read per bath index: the getters forward the index they "
                      "are given", minimum=2)
    run.rule("C16-F", "the open-system interface builds a hierarchy of the requested depth on every call", minimum=3)
    rule_F(run, prog)
    rule_G(run, prog)
    run.rule("C16-I", "the propagator works in the rotating frame of its Hamiltonian and says so: the result is marked, the "
                      "initial state enters the frame at the first point of the time axis", minimum=3)
    rule_I(run, prog)
    run.rule("C16-J", "the hierarchy takes the parameters of a bath from all its components or refuses a bath that has more than "
                      "one", minimum=1)
    rule_J(run, prog)
    run.rule("C16-K", "the hierarchy propagates in the rotating frame and hands out what convert_from_RWA makes of it: the frame is "
                      "left at the same absolute times at which the propagator entered it (the points of the time axis, shared "
                      "rule C02-M)", minimum=3)
    from . import c02
    from ..report import RuleProxy
    c02.rule_M(RuleProxy(run, "C16-K"), prog)
    run.rule("C16-L", "the reduced density matrices handed out by the hierarchy propagator are of degree one in the initial state "
                      "(degree analysis, shared with C02-P): unit trace and Hermiticity are kept by the equations, not enforced on "
                      "the result", minimum=2)
    c02.rule_P(RuleProxy(run, "C16-L"), prog, rid="C16-L",
               routines=(("quantarhei.qm.liouvillespace.heom.KTHierarchyPropagator", ("propagate", "_initial_state_in_RWA")),), floor=2)
    run.rule("C16-M", "the system-bath operator of a site projects on all states of that site: the single-state short cut "
                      "(state index = electronic index) is taken only when the band has as many states as molecules", minimum=2)
    rule_M(run, prog)
    run.rule("C16-N", "bath number n of a molecule acts on the state recorded when the bath counter stood at n: what is filled while "
                      "the baths are counted (state of the transition, mode and state of a mode bath) is recorded exactly where the "
                      "counter advances", minimum=1)
    rule_N(run, prog)
    run.rule("C16-H", "the hierarchy and its propagator read energies under internal units (reorganisation "
                      "energies, Hamiltonian)", minimum=3)
    from . import intunits
    intunits.check_classes(run, prog, "C16-H", [HE + "KTHierarchy", HE + "KTHierarchyPropagator"], 3,
                           "gamma, kBT and the time step are internal: the hierarchy no longer converges to the "
                           "analytic solution")
    run.rule("C16-O", "'for all initial states' (the kernel and the response calculations propagate bare coherences |e><g|, which are "
                      "not Hermitian): the right-hand sides of the hierarchy are linear in the auxiliary operators - V.rho and rho.V are "
                      "both computed as products with the system-bath operator; nothing derived from the auxiliary operators is "
                      "conjugated or transposed (rho.V = (V.rho)^+ holds for Hermitian operators only)", minimum=2)
    rule_O(run, prog)


def rule_I(run, prog):
    """'For all Hamiltonians with a rotating-wave reference': the right-hand side subtracts the frame frequencies
    (HOmega), so what propagate() returns is the state in the rotating frame.  The closed-system limit and the
    analytic solution exp(-i w t - g(t)) are laboratory-frame statements; they can be reached from the result only if
    the result is marked (convert_from_RWA acts on marked evolutions only) and if the frame is the one the
    conversion assumes - exp(-i Omega t) with absolute time, so the initial state has to be rotated by
    exp(+i Omega t0) at the first point of the axis."""
    from .. import pat
    rid = "C16-I"
    cls = prog.cls(HE + "KTHierarchyPropagator")
    f = cls.methods["propagate"]
    init = cls.methods["__init__"]
    # the constructor refuses a Hamiltonian without a rotating-wave reference, so every result is a rotating-frame result
    refuses = any(isinstance(n, ast.If) and "has_rwa" in norm(n.test) and any(isinstance(x, ast.Raise) for b in (n.orelse or n.body)
                  for x in ast.walk(b)) for n in ast.walk(init.node))
    ev = [n for n in walk_no_nested(f.node) if isinstance(n, ast.Assign) and isinstance(n.value, ast.Call)
          and call_name(n.value) in ("DensityMatrixEvolution", "ReducedDensityMatrixEvolution") and isinstance(n.targets[0], ast.Name)]
    rets = [n for n in walk_no_nested(f.node) if isinstance(n, ast.Return) and isinstance(n.value, ast.Name)]
    ok = refuses and len(ev) == 1 and rets and all(r.value.id == ev[0].targets[0].id for r in rets)
    marked = False
    if ok:
        var = ev[0].targets[0].id
        kw = [k for k in ev[0].value.keywords if k.arg == "is_in_rwa"]
        marked = any(isinstance(k.value, ast.Constant) and k.value.value is True for k in kw) or any(
            isinstance(n, ast.Assign) and norm(n.targets[0]) == var + ".is_in_rwa" and isinstance(n.value, ast.Constant)
            and n.value.value is True and not isinstance(_enclosing_if(f.node, n), ast.If) for n in walk_no_nested(f.node))
    run.obligation(rid, "KTHierarchyPropagator.propagate", bool(ok and marked), key="result-marked",
                   message="propagate() works with the frame frequencies subtracted but returns an evolution that is not "
                           "marked as being in the rotating frame: convert_from_RWA() on it does nothing and the laboratory "
                           "frame dynamics cannot be obtained", loc=f.loc(ev[0]) if ev else f.loc())
    # initial state: rebound to the helper's result before it is used
    p0 = f.node.args.args[1].arg
    first_use = min([n.lineno for n in walk_no_nested(f.node) if isinstance(n, ast.Name) and n.id == p0
                     and isinstance(n.ctx, ast.Load)] or [0])
    reb = [n for n in f.node.body if isinstance(n, ast.Assign) and norm(n.targets[0]) == p0 and isinstance(n.value, ast.Call)
           and isinstance(n.value.func, ast.Attribute) and norm(n.value.func.value) == "self"
           and [norm(a) for a in n.value.args] == [p0]]
    helper = prog.find_method(cls, reb[0].value.func.attr) if reb else None
    ok2 = bool(reb) and reb[0].lineno <= first_use and helper is not None
    why = "the initial state is used as submitted"
    if ok2:
        htx = [norm(x) for x in ast.walk(helper.node) if isinstance(x, ast.stmt)]
        hp = helper.node.args.args[1].arg
        e1, _ = pat.seq(htx, ["$T0 = self.timeaxis.data[0]", "$W = numpy.diag(self.HOmega)"])
        phase = e1 is not None and any(("numpy.exp(1j * %s * %s)" % (e1["W"], e1["T0"])) in x for x in htx)
        mut = [x for x in ast.walk(helper.node) if isinstance(x, (ast.Assign, ast.AugAssign))
               and any(norm(t_).startswith(hp + ".") or norm(t_).startswith(hp + "[")
                       for t_ in (x.targets if isinstance(x, ast.Assign) else [x.target]))]
        ok2 = phase and not mut
        why = "the helper %s does not apply exp(+i Omega t0) with t0 the first point of the axis and Omega the frame " \
              "frequencies kept by the propagator, or writes into the caller's state" % helper.short
    run.obligation(rid, "KTHierarchyPropagator.propagate", bool(ok2), key="frame-origin",
                   message="the conversion from the rotating frame uses absolute times, so the frame coincides with the "
                           "laboratory frame at t = 0: %s" % why, loc=f.loc(reb[0]) if reb else f.loc())
    run.obligation(rid, "KTHierarchyPropagator.__init__", bool(refuses), key="requires-frame",
                   message="the propagator subtracts frame frequencies unconditionally; it must refuse a Hamiltonian "
                           "without a rotating-wave reference", loc=init.loc())


def _enclosing_if(fnode, node):
    from ..loader import parents_map
    pm = parents_map(fnode)
    p = pm.get(node)
    while p is not None and p is not fnode:
        if isinstance(p, ast.If):
            return p
        p = pm.get(p)
    return None


def rule_G(run, prog):
    """KTHierarchy.__init__ reads gamma_k, lambda_k and the correlation function of bath k with the loop
    index k = 0..nbath-1.  The analytic pure-dephasing limit is reached only if all three belong to the
    same bath: every getter of SystemBathInteraction called there with the loop index must hand that
    index on unchanged to the correlation-function matrix (no offset, whatever else is attached)."""
    rid = "C16-G"
    init = prog.cls(HE + "KTHierarchy").methods["__init__"]
    sb = prog.cls("quantarhei.qm.liouvillespace.systembathinteraction.SystemBathInteraction")
    used = {}
    loops = [(n.target.id, n) for n in ast.walk(init.node) if isinstance(n, ast.For) and isinstance(n.target, ast.Name)]
    loops += [(g.target.id, n) for n in ast.walk(init.node)
              if isinstance(n, (ast.ListComp, ast.GeneratorExp, ast.SetComp, ast.DictComp))
              for g in n.generators if isinstance(g.target, ast.Name)]
    for v, lp in loops:
        for c in ast.walk(lp):
            if isinstance(c, ast.Call) and isinstance(c.func, ast.Attribute) and norm(c.func.value) == "self.sbi" \
                    and c.args and all(isinstance(a, ast.Name) and a.id == v for a in c.args):
                used.setdefault(c.func.attr, c)
    if len(used) < 2:
        raise AnalysisError("KTHierarchy.__init__: per-bath getters of the system-bath interaction not found: %s" % sorted(used))
    for gname, call in sorted(used.items()):
        g = prog.find_method(sb, gname)
        if g is None:
            run.obligation(rid, "SystemBathInteraction." + gname, False, key="forwards-index",
                           message="getter %s is called by the hierarchy but not defined" % gname, loc=init.loc(call))
            continue
        fw, bad, rebind = getter_forwards(g)
        run.obligation(rid, "SystemBathInteraction." + gname, bool(fw) and not bad and not rebind, key="forwards-index",
                       message="%s does not hand the bath index on unchanged: %s" % (gname, bad + rebind), loc=g.loc(),
                       sample={"getter": gname, "forwarding_calls": len(fw)})


def getter_forwards(g):
    """(calls of the getter that forward to self.CC, those that do not pass its parameters on as they are, statements
    that re-bind a parameter to something else than another parameter - also inside a tuple target)."""
    gp = [a.arg for a in g.node.args.args if a.arg != "self"]
    fw = [c for c in ast.walk(g.node) if isinstance(c, ast.Call) and isinstance(c.func, ast.Attribute)
          and norm(c.func.value) == "self.CC"]
    bad = [norm(c) for c in fw if c.args and not all(isinstance(a, ast.Name) and a.id in gp for a in c.args)]
    rebind = []
    for n in ast.walk(g.node):
        if not isinstance(n, (ast.Assign, ast.AugAssign)):
            continue
        tg = n.targets if isinstance(n, ast.Assign) else [n.target]
        names = [x for t_ in tg for x in (t_.elts if isinstance(t_, (ast.Tuple, ast.List)) else [t_]) if isinstance(x, ast.Name)]
        if not any(x.id in gp for x in names):
            continue
        if isinstance(n, ast.Assign) and isinstance(n.value, ast.Name) and n.value.id in gp:
            continue          # `j = i`: a parameter filled in from another
        rebind.append(norm(n))
    return fw, bad, rebind


def rule_F(run, prog):
    """'every multi-index with total order up to the requested depth': whatever get_KTHierarchy returns
    must be a KTHierarchy constructed in this call with depth = the depth argument (a hierarchy kept
    from an earlier call belongs to the depth of that call), and get_KTHierarchyPropagator must pass
    its depth on."""
    rid = "C16-F"
    OS = "quantarhei.builders.opensystem.OpenSystem."
    f = prog.func(OS + "get_KTHierarchy")
    params = [a.arg for a in f.node.args.args]
    if "depth" not in params:
        raise AnalysisError("get_KTHierarchy lost its depth argument")
    rets = [n for n in walk_no_nested(f.node) if isinstance(n, ast.Return)]
    if not rets:
        raise AnalysisError("get_KTHierarchy returns nothing")

    def ctor_calls(value):
        """constructor calls a returned value can come from, or None if some source is not a construction"""
        if isinstance(value, ast.Call) and call_name(value) == "KTHierarchy":
            return [value]
        if isinstance(value, ast.Name):
            binds = [n for n in walk_no_nested(f.node) if isinstance(n, ast.Assign)
                     and any(isinstance(t_, ast.Name) and t_.id == value.id for t_ in n.targets)]
            out = []
            for b in binds:
                c = ctor_calls(b.value) if not isinstance(b.value, ast.Name) else None
                if c is None:
                    return None
                out += c
            return out or None
        return None
    for r in rets:
        calls = ctor_calls(r.value) if r.value is not None else None
        ok = calls is not None
        why = "the returned value %s is not (only) a KTHierarchy constructed in this call" % (norm(r.value) if r.value is not None else None)
        if ok:
            for c in calls:
                d = [k.value for k in c.keywords if k.arg == "depth"] or c.args[2:3]
                if not d or norm(d[0]) != "depth":
                    ok = False
                    why = "the hierarchy is constructed with depth %s instead of the requested depth" % (norm(d[0]) if d else "default")
        run.obligation(rid, "OpenSystem.get_KTHierarchy", ok, key="fresh-with-requested-depth:" + norm(r)[:40],
                       message=why, loc=f.loc(r), sample={"return": norm(r)[:60]})
    g = prog.func(OS + "get_KTHierarchyPropagator")
    gp = [a.arg for a in g.node.args.args]
    calls = [c for c in walk_no_nested(g.node) if isinstance(c, ast.Call) and call_name(c) == "get_KTHierarchy"]
    ok = len(calls) == 1 and "depth" in gp and (
        (calls[0].args and norm(calls[0].args[0]) == "depth") or
        any(k.arg == "depth" and norm(k.value) == "depth" for k in calls[0].keywords))
    run.obligation(rid, "OpenSystem.get_KTHierarchyPropagator", ok, key="depth-passed-on",
                   message="the propagator getter must request the hierarchy with its own depth argument", loc=g.loc())
    if ok:
        v = [n for n in walk_no_nested(g.node) if isinstance(n, ast.Assign) and n.value is calls[0]]
        rets = [n for n in walk_no_nested(g.node) if isinstance(n, ast.Return)]
        name = v[0].targets[0].id if v and isinstance(v[0].targets[0], ast.Name) else None
        ok2 = len(rets) == 1 and isinstance(rets[0].value, ast.Call) and call_name(rets[0].value) == "KTHierarchyPropagator" \
            and name is not None and any(isinstance(a, ast.Name) and a.id == name for a in rets[0].value.args)
        run.obligation(rid, "OpenSystem.get_KTHierarchyPropagator", ok2, key="propagator-on-that-hierarchy",
                       message="the propagator must be built on the hierarchy just requested", loc=g.loc())


def rule_E(run, prog, tier):
    """The tail of KTHierarchy.__init__ (from the generation of the indices on) together with
    generate_indices, _convert_2_matrix, _make_nmp1 and _make_Gamma is interpreted (qv/feval.py) for every
    number of baths and depth up to the bound, and the resulting tables are compared with the statement
    of the property: every multi-index with total order <= depth exactly once, level by level; level
    offsets and lengths; lower and upper links mutually inverse and absent (-1) exactly at the
    boundaries; Gamma[n] = sum_k n_k gamma_k."""
    import itertools
    import math
    from .. import feval
    from ..feval import Stub, Sym, SymArr, Vec
    rid = "C16-E"
    cls = prog.cls(HE + "KTHierarchy")
    init = cls.methods["__init__"]
    body = init.node.body
    start = [k for k, s_ in enumerate(body) if isinstance(s_, ast.Assign) and isinstance(s_.value, ast.Call)
             and call_name(s_.value) == "generate_indices"]
    if len(start) != 1:
        raise AnalysisError("KTHierarchy.__init__: call of generate_indices not found")
    tail = body[start[0]:]
    bound = [(nb, d) for nb in (1, 2, 3) for d in (0, 1, 2, 3)] + ([(4, 2)] if tier != "thorough" else
                                                                 [(nb, d) for nb in (1, 2, 3, 4) for d in (4, 5)] + [(4, 2), (4, 3), (5, 2)])
    for nb, depth in bound:
        so = Stub("KTHierarchy", nbath=nb, depth=depth, gamma=SymArr("g"),
                  sbi=Stub("SystemBathInteraction", KK=SymArr("K")), ado=None)
        so.methods = {nme: feval.interpreted_method(so, cls.methods[nme].node)
                      for nme in ("generate_indices", "_convert_2_matrix", "_make_nmp1", "_make_Gamma")
                      if nme in cls.methods}
        so.methods["reset_ados"] = lambda: None
        env = {"self": so, "depth": depth, "REAL": "REAL", "COMPLEX": "COMPLEX"}
        try:
            feval.Evaluator(max_steps=5000000).block(tail, env)
        except feval.Unsupported as e:
            raise AnalysisError("KTHierarchy.__init__ (N=%d, depth=%d): outside the finite evaluator's vocabulary: %s"
                                % (nb, depth, e))
        except feval.Raised as e:
            run.obligation(rid, "KTHierarchy.__init__", False, key="finite:N=%d,depth=%d" % (nb, depth),
                           message="construction raises %s" % e, loc=init.loc())
            continue
        problems = []
        hinds = [tuple(r) for r in so.attrs.get("hinds", [])]
        want = []
        for lev in range(depth + 1):
            want.append(sorted(t_ for t_ in itertools.product(range(lev + 1), repeat=nb) if sum(t_) == lev))
        flat_want = [t_ for lv in want for t_ in lv]
        if sorted(hinds) != sorted(flat_want):
            missing = sorted(set(flat_want) - set(hinds))
            dup = sorted({h for h in hinds if hinds.count(h) > 1})
            extra = sorted(set(hinds) - set(flat_want))
            problems.append("index set: missing %s, duplicated %s, beyond the depth %s" % (missing[:3], dup[:3], extra[:3]))
        if [sum(h) for h in hinds] != sorted(sum(h) for h in hinds):
            problems.append("multi-indices are not ordered level by level")
        if so.attrs.get("hsize") != len(flat_want):
            problems.append("hsize = %s, expected %d" % (so.attrs.get("hsize"), len(flat_want)))
        offs, o = [], 0
        for lv in want:
            offs.append(o)
            o += len(lv)
        if list(so.attrs.get("levels", [])) != offs:
            problems.append("level offsets %s, expected %s" % (list(so.attrs.get("levels", [])), offs))
        if list(so.attrs.get("levlengths", [])) != [len(lv) for lv in want]:
            problems.append("level lengths %s, expected %s" % (list(so.attrs.get("levlengths", [])), [len(lv) for lv in want]))
        if not problems:
            pos = {h: i for i, h in enumerate(hinds)}
            nm1, np1 = so.attrs.get("nm1"), so.attrs.get("np1")
            for n_, h in enumerate(hinds):
                for k in range(nb):
                    lo = tuple(x - (1 if j == k else 0) for j, x in enumerate(h))
                    hi = tuple(x + (1 if j == k else 0) for j, x in enumerate(h))
                    e_lo = pos.get(lo, -1) if h[k] > 0 else -1
                    e_hi = pos.get(hi, -1) if sum(h) < depth else -1
                    if nm1[n_][k] != e_lo:
                        problems.append("lower link of %s in bath %d is %s, expected %s" % (h, k, nm1[n_][k], e_lo))
                    if np1[n_][k] != e_hi:
                        problems.append("upper link of %s in bath %d is %s, expected %s" % (h, k, np1[n_][k], e_hi))
                    if e_hi >= 0 and nm1[e_hi][k] != n_:
                        problems.append("links of %s in bath %d are not mutually inverse" % (h, k))
            G = so.attrs.get("Gamma")
            for n_, h in enumerate(hinds):
                exp = Sym(0.0)
                for k in range(nb):
                    exp = exp + Sym(float(h[k]), ("g[%d]" % k,))
                got = G[n_]
                got = got if isinstance(got, Sym) else Sym(got)
                if not got.same(exp):
                    problems.append("Gamma of %s is %r, expected %r" % (h, got, exp))
        run.obligation(rid, "KTHierarchy.__init__", not problems, key="finite:N=%d,depth=%d" % (nb, depth),
                       message="hierarchy tables for %d bath(s) and depth %d deviate: %s" % (nb, depth, "; ".join(problems[:4])),
                       loc=init.loc(), sample={"baths": nb, "depth": depth, "size": len(flat_want),
                                               "expected_size": math.comb(nb + depth, depth)})


def _hy_provider():
    arrs = {"Vs": Array.opaque("V", 3), "lam": Array.opaque("lam", 1), "gamma": Array.opaque("gamma", 1),
            "Gamma": Array.opaque("Gamma", 1), "hinds": Array.opaque("n", 2)}

    def prov(obj, attr):
        if obj.name == "self" and attr == "hy":
            return Obj("self.hy", provider=prov)
        if obj.name == "self.hy":
            if attr in arrs:
                return arrs[attr]
            if attr in ("nm1", "np1"):
                return IndexTable(attr)
            if attr == "kBT":
                return Expr.factor("kBT")
            if attr == "ham":
                return Obj("self.hy.ham", provider=prov)
        if obj.name == "self.hy.ham" and attr == "data":
            return Array.opaque("H", 2)
        if obj.name == "self" and attr == "HOmega":
            return Array.opaque("HOm", 2)
        return None
    return prov


FACTS = Facts(real=["dt", "lam", "gamma", "Gamma", "n", "kBT"], hermitian=["H", "V", "a", "HOm"])


def _inner_loops(f):
    outer = [s for s in f.node.body if isinstance(s, ast.For)]
    if len(outer) != 1:
        raise AnalysisError("%s: expected one loop over the hierarchy" % f.short)
    return outer[0]


def rule_A(run, prog):
    rid = "C16-A"
    cls = prog.cls(HE + "KTHierarchyPropagator")
    results = {}
    for mname in ("_ado_self_rhs", "_ado_cros_rhs"):
        f = cls.methods[mname]
        prog.consulted.add(f.relpath)
        outer = _inner_loops(f)
        ok = norm(outer.iter) == "range(slevel, self.hy.hsize)"
        run.obligation(rid, "KTHierarchyPropagator." + mname, ok, key="levels",
                       message="right-hand side must run over all hierarchy members from slevel", loc=f.loc(outer))
        body = outer.body
        env = {"self": Obj("self", provider=_hy_provider()), "dt": Expr.factor("dt"),
               outer.target.id: Index("nn"), "ado1": Array.opaque("a", 3),
               "ado3": Array.zeros(3, name="ado3"), "HH": Array.opaque("H", 2)}
        if mname == "_ado_cros_rhs":
            inner = body[0] if len(body) == 1 and isinstance(body[0], ast.For) else None
            if inner is None or norm(inner.iter) != "range(self.hy.nbath)":
                raise AnalysisError("_ado_cros_rhs: loop over baths not found")
            body = inner.body
            kk = "kk@s"

            def oracle(it, test, env_):
                names = {n.id for n in ast.walk(test) if isinstance(n, ast.Name)}
                if names and names <= {"nk", "jj"}:
                    return True     # link guards: both blocks are interpreted
                return None
            it = Interp(prog, lenient=False, branch_oracle=oracle)
            it.stack.append(f)
            # interpret the bath loop as a loop (sum over kk)
            it.exec_body([inner], env)
            it.stack.pop()
        else:
            it = Interp(prog, lenient=False)
            it.stack.append(f)
            it.exec_body(body, env)
            it.stack.pop()
        ado3 = env["ado3"]
        E = ado3.at("nn", "i", "j")
        nf = normal(E, FACTS)
        if not nf:
            raise AnalysisError("%s: nothing interpreted" % mname)
        # Hermiticity of the map a -> E for Hermitian a
        he = normal(ado3.at("nn", "j", "i").conj() - E, FACTS)
        run.obligation(rid, "KTHierarchyPropagator." + mname, not he, key="hermiticity",
                       message="a term of the right-hand side does not preserve Hermiticity: %s"
                       % "; ".join(show_normal(he, 3)), loc=f.loc(),
                       sample={"rhs": mname, "terms": show_normal(nf, 4), "facts": FACTS.describe()})
        # dt exactly once in every term
        bad = []
        for (key, nd), c in nf.items():
            pw = {x[0]: x[3] for x in key[0] if not x[1]}
            if pw.get("dt", 0) != 1:
                bad.append(show_normal({(key, nd): c})[0])
        run.obligation(rid, "KTHierarchyPropagator." + mname, not bad, key="step-once",
                       message="every term of the right-hand side must carry the step exactly once: %s" % bad[:2],
                       loc=f.loc(), sample={"rhs": mname, "terms": len(nf)})
        # trace of the part that survives for the root (terms without the order n_k)
        root = {k: c for k, c in nf.items() if not any(x[0] == "n" for x in k[0][0])}
        from ..ta import from_normal
        rootE = from_normal(root)
        facts0 = Facts(real=FACTS.real, hermitian=FACTS.hermitian)
        tr = normal(rootE.subst({"j": "i"}).sum_over("i"), facts0)
        # the decay term Gamma[nn]*a survives in 'tr'; it vanishes for the root iff Gamma[0]=0
        tr_wo_gamma = {k: c for k, c in tr.items() if not any(x[0] == "Gamma" for x in k[0][0])}
        run.obligation(rid, "KTHierarchyPropagator." + mname, not tr_wo_gamma, key="root-trace",
                       message="the equation of the reduced operator is not trace-free: %s"
                       % "; ".join(show_normal(tr_wo_gamma, 3)), loc=f.loc(),
                       sample={"rhs": mname, "root_terms": show_normal(root, 4),
                               "decay_term_needs_Gamma0_zero": bool(len(tr) != len(tr_wo_gamma))})
        results[mname] = nf
    # Gamma[0] = 0: Gamma[n] = sum_k hinds[n,k] gamma[k] and the first multi-index is the zero vector
    kt = prog.cls(HE + "KTHierarchy")
    g = kt.methods["_make_Gamma"]
    G = Array.zeros(1, name="Gamma")
    selfo = Obj("self", attrs={"Gamma": G, "hinds": Array.opaque("n", 2), "gamma": Array.opaque("gamma", 1)})
    it = Interp(prog, lenient=False)
    it.call_function(g, [], self_obj=selfo)
    want = (Expr.factor("n", ("m", "k")) * Expr.factor("gamma", ("k",))).sum_over("k")
    nf = normal(G.at("m") - want)
    run.obligation(rid, "KTHierarchy._make_Gamma", not nf, key="gamma",
                   message="decay factor must be sum_k n_k gamma_k: %s" % show_normal(nf, 3), loc=g.loc(),
                   sample={"identity": "Gamma[n] = sum_k hinds[n,k] gamma[k]"})
    gi = kt.methods["generate_indices"]
    # live branch: the else branch of 'if False' twice
    st = [norm(s) for s in ast.walk(gi.node) if isinstance(s, ast.stmt)]
    ok = st.count("inilist = [0] * N") >= 1 and "level_prev.append(inilist)" in st and "lret.append(level_prev)" in st
    lines = {}
    for s in ast.walk(gi.node):
        if isinstance(s, ast.stmt):
            lines.setdefault(norm(s), []).append(s.lineno)
    ok = ok and max(lines["inilist = [0] * N"]) < max(lines["level_prev.append(inilist)"]) < max(lines["lret.append(level_prev)"])
    run.obligation(rid, "KTHierarchy.generate_indices", ok, key="root-first",
                   message="the first multi-index must be the zero vector (root of the hierarchy)", loc=gi.loc())
    cm = kt.methods["_convert_2_matrix"]
    st = [norm(s) for s in ast.walk(cm.node) if isinstance(s, ast.stmt)]
    ok = "mat[ii, kk] = ind" in st and "ii += 1" in st and "kk += 1" in st and "ii = 0" in st
    run.obligation(rid, "KTHierarchy._convert_2_matrix", ok, key="order-kept",
                   message="the matrix of multi-indices must keep the generation order (root at row 0)",
                   loc=cm.loc())


def rule_B(run, prog):
    rid = "C16-B"
    f = prog.func(HE + "KTHierarchyPropagator.propagate")

    def hook(it, func, call, name, args, kwargs):
        if name and name.endswith("._ado_cros_rhs") or name and name.endswith("._ado_self_rhs"):
            which = "cros" if "cros" in name else "self"
            a, s = args[0], args[1]
            if not isinstance(a, Array) or a.rank != 3:
                raise AnalysisError("rhs called with a non-hierarchy argument")

            def fn(i0, i1, i2):
                js = [ta.fresh("i") for _ in range(3)]
                e = Expr.factor("M:" + which, (i0, i1, i2) + tuple(js)) * a.at(*js)
                for j in js:
                    e = e.sum_over(j)
                return e * ta.as_expr(s)
            return Array.from_fn(3, fn)
        return NotImplemented
    res = taylor.analyse(run, rid, prog, f, 3, call_hook=hook)
    if len(res) != 1:
        raise AnalysisError("HEOM propagate: expected one Taylor loop, found %d" % len(res))
    x = res[0]
    if not x.get("failed"):
        names = x["y"].names()
        ok = "M:cros" in names and "M:self" in names
        run.obligation(rid, x["construct"], ok, key="both-rhs",
                       message="the step must be the sum of the cross and the self right-hand sides",
                       loc=f.loc(x["loop"]), sample={"kernels": sorted(n for n in names if n.startswith("M:"))})
        ok = x["steps"] == ["self.dt"]
        run.obligation(rid, x["construct"], ok, key="step", message="step must be self.dt", loc=f.loc(x["loop"]))
    st = [norm(s) for s in ast.walk(f.node) if isinstance(s, ast.stmt)]
    ok = "rhot.data[indx, :, :] = ado2[0, :, :]" in st
    run.obligation(rid, "KTHierarchyPropagator.propagate", ok, key="root-stored",
                   message="the stored state must be member 0 of the accumulated hierarchy", loc=f.loc())


def rule_C(run, prog):
    rid = "C16-C"
    kt = prog.cls(HE + "KTHierarchy")
    mk = kt.methods["_make_nmp1"]
    for var, tbl in (("venm", "nm1"), ("venp", "np1")):
        asg = [s for s in ast.walk(mk.node) if isinstance(s, ast.Assign) and norm(s.targets[0]) == var]
        vals = [norm(a.value) for a in asg]
        ok = "-1" in vals and all(v in ("-1", "ll") for v in vals) and \
            any(norm(s) == "self.%s[nn, kk] = %s" % (tbl, var) for s in ast.walk(mk.node) if isinstance(s, ast.stmt))
        run.obligation(rid, "KTHierarchy._make_nmp1:" + tbl, ok, key="sentinel",
                       message="a missing link must be recorded as -1 and found links as the member index",
                       loc=mk.loc(), sample={"table": tbl, "values": vals})
    cr = prog.func(HE + "KTHierarchyPropagator._ado_cros_rhs")
    ifs = [n for n in ast.walk(cr.node) if isinstance(n, ast.If)]
    if len(ifs) != 2:
        raise AnalysisError("_ado_cros_rhs: expected two guarded blocks, found %d" % len(ifs))

    def ev(test, nk, jj):
        """evaluate a comparison-only guard over integers (finite abstract evaluation)"""
        env = {"nk": nk, "jj": jj}

        def val(n):
            if isinstance(n, ast.Constant) and isinstance(n.value, (int, float)):
                return n.value
            if isinstance(n, ast.Name) and n.id in env:
                return env[n.id]
            if isinstance(n, ast.UnaryOp) and isinstance(n.op, ast.USub):
                return -val(n.operand)
            if isinstance(n, ast.BinOp):
                l, r = val(n.left), val(n.right)
                if isinstance(n.op, ast.Mult):
                    return l * r
                if isinstance(n.op, ast.Add):
                    return l + r
                if isinstance(n.op, ast.Sub):
                    return l - r
            if isinstance(n, ast.Compare) and len(n.ops) == 1:
                l, r = val(n.left), val(n.comparators[0])
                op = n.ops[0]
                return {ast.Gt: l > r, ast.GtE: l >= r, ast.Lt: l < r, ast.LtE: l <= r,
                        ast.Eq: l == r, ast.NotEq: l != r}[type(op)]
            if isinstance(n, ast.BoolOp):
                vs = [val(v) for v in n.values]
                return all(vs) if isinstance(n.op, ast.And) else any(vs)
            if isinstance(n, ast.UnaryOp) and isinstance(n.op, ast.Not):
                return not val(n.operand)
            raise AnalysisError("link guard outside the comparison-only vocabulary: %s" % norm(test))
        return bool(val(test))
    names0 = {n.id for n in ast.walk(ifs[0].test) if isinstance(n, ast.Name)}
    names1 = {n.id for n in ast.walk(ifs[1].test) if isinstance(n, ast.Name)}
    if not names0 <= {"nk", "jj"} or not names1 <= {"jj"}:
        raise AnalysisError("_ado_cros_rhs: guard reads unexpected names %s %s" % (names0, names1))
    lower_ok = all(not ev(ifs[0].test, nk, -1) for nk in (1, 2, 7)) and \
        all(ev(ifs[0].test, nk, jj) for nk in (1, 2, 7) for jj in (0, 1, 5))
    run.obligation(rid, "KTHierarchyPropagator._ado_cros_rhs:lower", lower_ok, key="guard-lower",
                   message="the lower-link block must be skipped for (n_k > 0, link = -1) and taken for "
                           "(n_k > 0, link >= 0): guard '%s'" % norm(ifs[0].test), loc=cr.loc(ifs[0]),
                   sample={"guard": norm(ifs[0].test), "evaluated_on": "nk in {0,1,2,7} x jj in {-1,0,1,5}"})
    upper_ok = (not ev(ifs[1].test, 0, -1)) and all(ev(ifs[1].test, 0, jj) for jj in (1, 2, 9))
    run.obligation(rid, "KTHierarchyPropagator._ado_cros_rhs:upper", upper_ok, key="guard-upper",
                   message="the upper-link block must be skipped for link = -1 and taken for link >= 1: "
                           "guard '%s'" % norm(ifs[1].test), loc=cr.loc(ifs[1]),
                   sample={"guard": norm(ifs[1].test)})
    # every statement of the lower block that may run with link = -1 (n_k = 0) is multiplied by n_k
    stores = [s for s in ifs[0].body if isinstance(s, ast.AugAssign)]
    ok = bool(stores) and all(any(isinstance(n, ast.Name) and n.id == "nk" for n in ast.walk(s.value))
                              and isinstance(s.value, ast.BinOp) and isinstance(s.value.op, ast.Mult)
                              for s in stores)
    run.obligation(rid, "KTHierarchyPropagator._ado_cros_rhs:lower", ok, key="nk-factor",
                   message="terms of the lower-link block must carry the order n_k (they are evaluated "
                           "with link = -1 when n_k = 0)", loc=cr.loc(ifs[0]))
    # link definitions
    st = [norm(s) for s in ast.walk(cr.node) if isinstance(s, ast.stmt)]
    ok = "nk = self.hy.hinds[nn, kk]" in st and "jj = self.hy.nm1[nn, kk]" in st and "jj = self.hy.np1[nn, kk]" in st
    lines = {norm(s): s.lineno for s in ast.walk(cr.node) if isinstance(s, ast.stmt)}
    ok = ok and lines["jj = self.hy.nm1[nn, kk]"] < ifs[0].lineno < lines["jj = self.hy.np1[nn, kk]"] < ifs[1].lineno
    run.obligation(rid, "KTHierarchyPropagator._ado_cros_rhs", ok, key="links",
                   message="lower block must use nm1[nn,kk] and hinds[nn,kk], upper block np1[nn,kk]", loc=cr.loc())
    run.extra["exhaustive"] = False


def rule_D(run, prog):
    rid = "C16-D"
    f = prog.func(HE + "KTHierarchyPropagator.propagate")
    top = [s for s in f.node.body if not (isinstance(s, ast.Expr) and isinstance(s.value, ast.Constant))]
    reset_at = None
    first_use = None
    for k, s in enumerate(top):
        if reset_at is None and isinstance(s, ast.Expr) and norm(s.value) == "self.hy.reset_ados()":
            reset_at = k
        if first_use is None and any(norm(n) == "self.hy.ado" for n in ast.walk(s)
                                     if isinstance(n, ast.Attribute)):
            first_use = k
    ok = reset_at is not None and (first_use is None or reset_at < first_use)
    run.obligation(rid, "KTHierarchyPropagator.propagate", ok, key="reset-before-use",
                   message="every path to the first use of the auxiliary operators must pass a full "
                           "re-initialisation (self.hy.reset_ados())", loc=f.loc(),
                   sample={"reset_statement": reset_at, "first_use_statement": first_use})
    r = prog.func(HE + "KTHierarchy.reset_ados")
    st = [norm(s) for s in r.node.body if isinstance(s, ast.Assign)]
    ok = len(st) == 1 and st[0].startswith("self.ado = numpy.zeros((self.hsize, self.dim, self.dim)")
    run.obligation(rid, "KTHierarchy.reset_ados", ok, key="full-reset",
                   message="reset_ados must replace the whole array by zeros", loc=r.loc())


def rule_N(run, prog):
    """'... for every system-bath interaction': the hierarchy couples bath n through sys_operators[n] and reads its
    correlation function at position (n, n) of the matrix.  Molecule.get_SystemBathInteraction counts the baths (a
    transition without environment has none) and builds operator n from what it recorded for n (qv/counter.py)."""
    from .. import counter
    rid = "C16-N"
    n = 0
    for q in ("quantarhei.builders.molecules.Molecule", "quantarhei.builders.aggregate_base.AggregateBase",
              "quantarhei.builders.aggregates.Aggregate"):
        cls = prog.cls(q)
        for nme, f in cls.methods.items():
            if not isinstance(f.node, ast.FunctionDef):
                continue
            for X, c, ok, node, why in counter.analyse(f.node):
                n += 1
                prog.consulted.add(f.relpath)
                run.obligation(rid, f.short, ok, key="%s:%s" % (X, c),
                               message="%s reads `%s[n]` for n below the counter `%s`, but %s; the operator (or bath function) of bath n "
                                       "is then the one of another transition" % (f.short, X, c, why),
                               loc=f.loc(node), sample={"container": X, "counter": c})
    if n < 1:
        raise AnalysisError("C16-N: no container read by a bath counter found (Molecule.get_SystemBathInteraction has `d`)")


def rule_M(run, prog):
    """'For uncoupled sites the result converges to exp(-i w t - g(t))': the hierarchy couples bath k through the operator
    the aggregate built for site k, which has to be the projector on *every* state of the site - its whole vibronic
    manifold.  Aggregate.build has the general form (`for j in self.vibindices[i]: op.data[j, j] = 1`) and a short cut for
    purely electronic aggregates (`op.data[i, i] = 1`, which takes the electronic index for the state index).  The short
    cut is right exactly when the band holds one state per molecule; the accepted guards say so: a comparison of
    self.Nb[1] with self.nmono (or self.Nbe[1]), or of self.Ntot with self.Nel.  A test of the ground state's sub-levels
    alone (vibindices[0]) lets through a mode with one level in the ground state and several in the excited state - the
    baths then act on single vibronic levels."""
    from ..loader import parents_map
    rid = "C16-M"
    ab = prog.cls("quantarhei.builders.aggregate_base.AggregateBase")
    f = ab.methods.get("_build") or ab.methods["build"]      # build() runs _build() under internal units
    prog.consulted.add(f.relpath)
    pm = parents_map(f.node)
    n = 0
    for lp in [x for x in walk_no_nested(f.node) if isinstance(x, ast.For) and isinstance(x.target, ast.Name)]:
        v = lp.target.id
        creates = [c for c in ast.walk(lp) if isinstance(c, ast.Call) and call_name(c) in ("Operator", "ProjectionOperator")]
        if not creates:
            continue
        diag = [st for st in ast.walk(lp) if isinstance(st, ast.Assign) and isinstance(st.targets[0], ast.Subscript)
                and norm(st.targets[0].value).endswith(".data") and isinstance(st.targets[0].slice, ast.Tuple)
                and len(st.targets[0].slice.elts) == 2 and norm(st.targets[0].slice.elts[0]) == norm(st.targets[0].slice.elts[1])]
        if not diag:
            continue
        n += 1
        idx = norm(diag[0].targets[0].slice.elts[0])
        general = any(isinstance(x, ast.For) and isinstance(x.iter, ast.Subscript) and norm(x.iter.value) == "self.vibindices"
                      and isinstance(x.target, ast.Name) and x.target.id == idx for x in ast.walk(lp))
        if general:
            run.obligation(rid, "AggregateBase.build", True, key="projector:all-states-of-the-site", message="", loc=f.loc(lp))
            continue
        # short cut: the guards on the way to the loop
        tests = []
        node = lp
        while node is not None and node is not f.node:
            par = pm.get(node)
            if isinstance(par, ast.If):
                tests.append((norm(par.test), any(node is x for x in par.orelse)))
            node = par
        txt = " ".join(t_ for t_, _ in tests)
        ok = ("self.Nb[1]" in txt and ("self.nmono" in txt or "self.Nbe[1]" in txt)) or ("self.Ntot" in txt and "self.Nel" in txt)
        run.obligation(rid, "AggregateBase.build", ok, key="projector:single-state-short-cut",
                       message="build() takes the short cut `%s` (electronic index used as state index) under the condition(s) %s, which "
                               "do not say that the one-exciton band has one state per molecule: with a mode that has one level in the "
                               "ground state and several in the excited state the operators become projectors on single vibronic "
                               "levels, and the hierarchy dephases those instead of the sites"
                               % (norm(diag[0]), [t_ if not neg else "not (" + t_ + ")" for t_, neg in tests]), loc=f.loc(diag[0]))
    if n < 2:
        raise AnalysisError("C16-M: only %d loops that build site operators found in Aggregate.build (2 confirmed)" % n)


def rule_J(run, prog):
    """'Converges with increasing depth to exp(-i w t - g(t)) built from the bath's line-shape function': one hierarchy
    index per bath represents one exponential term lam*gamma-like of the correlation function.  A bath whose correlation
    function is a sum of components (cc.params has several entries) is represented only if every component is read.
    In KTHierarchy.__init__ (and the accessors it uses) a read of component 0 alone - cc.params[0] - is admissible only
    behind a refusal of len(cc.params) != 1, or inside a loop over all components."""
    from ..loader import parents_map
    rid = "C16-J"
    f = prog.func("quantarhei.qm.liouvillespace.heom.KTHierarchy.__init__")
    prog.consulted.add(f.relpath)
    pm = parents_map(f.node)
    reads = [x for x in walk_no_nested(f.node) if isinstance(x, ast.Subscript) and norm(x.value).endswith(".params")
             and isinstance(x.slice, ast.Constant) and x.slice.value == 0]
    if not reads:
        raise AnalysisError("KTHierarchy.__init__: the read of the bath's component parameters not found")
    for x in reads:
        base = norm(x.value)
        ok = False
        node = x
        while node is not None and node is not f.node and not ok:
            p_ = pm.get(node)
            for fld in ("body", "orelse"):
                blk = getattr(p_, fld, None)
                if isinstance(blk, list) and node in blk:
                    for prev in blk[:blk.index(node)]:
                        if isinstance(prev, ast.If) and ("len(%s)" % base) in norm(prev.test) and any(isinstance(y, ast.Raise) for y in prev.body):
                            ok = True
            if isinstance(p_, ast.For) and norm(p_.iter) == base:
                ok = True
            node = p_
        run.obligation(rid, "KTHierarchy.__init__", ok, key="all-components:" + norm(x)[:30],
                       message="KTHierarchy.__init__ reads %s, the first component of the bath only, without refusing baths that have more "
                               "components: a bath given as a sum of correlation functions is replaced by one exponential term with the "
                               "total reorganisation energy and the first correlation time, and the result converges to another function "
                               "than the bath's" % norm(x), loc=f.loc(x))
