"""Shared TA obligations on relaxation-tensor assemblers (used by C01, C02,
C07): interpret the assembling code of /repo and return the element formula
with the facts derived from the code."""
import ast

from ..loader import AnalysisError, norm
from ..ta import Expr, Array, Facts, normal, is_zero, show_normal
from ..ta_front import Interp, Obj, Unknown

LS = "quantarhei.qm.liouvillespace."


def oracle_as_operators(value, extra=None):
    extra = extra or {}

    def oracle(it, test, env):
        t = norm(test)
        if t == "self.as_operators":
            return value
        if t in extra:
            return extra[t]
        return None
    return oracle


def sbi_provider(obj, attr):
    if attr == "KK":
        a = Array.opaque("KK", 3)
        a.dtype_real = True
        return a
    if attr == "rates":
        a = Array.opaque("rates", 1)
        a.dtype_real = True
        return a
    return None


def real_facts(it, extra_real=(), **kw):
    real = [n for n, r in it.havoced.items() if r] + list(extra_real)
    return Facts(real=real, **kw)


def assemble(prog, cls_qual, as_operators, run=None, inline_depth=5):
    """Interpret <cls>._implementation(self, ham, sbi) end to end (lenient
    mode: uninterpretable statements havoc what they touch) and return
    (self object, interpreter)."""
    cls = prog.cls(cls_qual)
    f = prog.find_method(cls, "_implementation")
    if f is None:
        raise AnalysisError("%s has no _implementation" % cls_qual)
    prog.consulted.add(f.relpath)
    selfo = Obj("self", cls=cls, alias={"data": "_data"})
    ham = Obj("ham")
    sbi = Obj("sbi", provider=sbi_provider)
    it = Interp(prog, lenient=True, branch_oracle=oracle_as_operators(as_operators),
                inline_depth=inline_depth)
    it.call_function(f, [ham, sbi], self_obj=selfo)
    return selfo, it


def coverage_obligation(run, rid, construct, it, loc):
    """The index algebra treats a contribution stored under a loop index as covering the whole axis it
    addresses.  This obligation discharges that assumption for one interpreted assembler: every loop
    that fills an axis of an array allocated in the same function runs over the length the axis was
    allocated with (following plain name bindings, both arms of conditionals)."""
    gaps = it.coverage_gaps
    run.obligation(rid, construct, not gaps, key="loops-cover-axes",
                   message="a loop fills only part of an axis: %s" % "; ".join(
                       "%s axis %d is allocated with %s but filled by a loop up to %s (%s)"
                       % (g["array"], g["axis"], g["allocated"], g["loop_bound"], g["loc"]) for g in gaps[:3]),
                   loc=gaps[0]["loc"] if gaps else loc,
                   sample={"construct": construct, "stores_interpreted": it.stores, "gaps": len(gaps)})


def tensor_identities(run, rid, construct, RR, facts, loc, time_rank=0, what="tensor",
                      assumptions=()):
    """Trace and Hermiticity obligations on a rank-(4+time_rank) array."""
    if not isinstance(RR, Array):
        raise AnalysisError("%s: assembled tensor not algebraic (%r)" % (construct, RR))
    if RR.rank != 4 + time_rank:
        raise AnalysisError("%s: rank %d, expected %d" % (construct, RR.rank, 4 + time_rank))
    t = ["t%d" % k for k in range(time_rank)]
    el = RR.at(*(t + ["a", "b", "c", "d"]))
    if not normal(el, facts):
        raise AnalysisError("%s: assembled tensor is identically zero (nothing interpreted)" % construct)
    tr = RR.at(*(t + ["x", "x", "c", "d"])).sum_over("x")
    nf = normal(tr, facts)
    run.obligation(rid, construct, not nf, key="trace",
                   message="sum_a R[a,a,c,d] != 0 for the %s assembled here; residue: %s"
                   % (what, "; ".join(show_normal(nf, 4))),
                   loc=loc, sample={"construct": construct, "identity": "sum_a R[a,a,c,d]=0",
                                    "facts": facts.describe(),
                                    "normal_form_of_R": show_normal(normal(el, facts), 6)})
    h = el.conj() - RR.at(*(t + ["b", "a", "d", "c"]))
    nf = normal(h, facts)
    run.obligation(rid, construct, not nf, key="hermiticity",
                   message="conj(R[a,b,c,d]) != R[b,a,d,c] for the %s assembled here "
                           "(facts derived from the code: %s); residue: %s"
                   % (what, ", ".join(facts.describe()) or "none", "; ".join(show_normal(nf, 4))),
                   loc=loc, sample={"construct": construct, "identity": "conj(R[a,b,c,d])=R[b,a,d,c]",
                                    "facts": facts.describe()})
    for a in assumptions:
        run.assume(a)
    return el


def find_for_storing(func, target_text_prefix):
    """Outermost For statements in func whose body stores into a subscript
    whose base unparses to target_text_prefix."""
    out = []
    for st in ast.walk(func.node):
        if isinstance(st, ast.For):
            for n in ast.walk(st):
                tgt = None
                if isinstance(n, ast.Assign):
                    tgt = n.targets[0]
                elif isinstance(n, ast.AugAssign):
                    tgt = n.target
                if isinstance(tgt, ast.Subscript) and norm(tgt.value) == target_text_prefix:
                    out.append(st)
                    break
    # keep outermost only
    keep = []
    for st in out:
        if not any(st is not o and any(st is x for x in ast.walk(o)) for o in out):
            keep.append(st)
    return keep
