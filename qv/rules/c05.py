"""C05 - energy-units management is transparent and contexts restore units.

Decided statically: who may switch units (U1, package-wide), the protocol of
the units context managers (U2), contexts only through ``with`` (U3), unit
tables agree and conversions are mutually inverse (U4), units-managed
accessors convert on both sides and their classes provide both converters
(U5), the enforcement decorators test the flags they are named after (U6).
Not decided: the numerical values of the conversion factors.
"""
import ast

from ..loader import (AnalysisError, norm, calls_in, call_name, walk_no_nested, ClassInfo, FuncInfo,
                      parents_map, dotted, const_value)
from .. import ta
from ..ta import Expr, normal, show_normal
from ..ta_front import Interp, Obj
from .c08 import eval_with

MGR = "quantarhei.core.managers."
CTX = ("energy_units", "frequency_units", "length_units", "units_context_manager")


def check(run, prog, tier):
    run.explanation = (
        "Package-wide who-may-call scan for unit switches over resolved calls, protocol rules on the "
        "AST of the units context managers (backup before switch, restore of the same unit type on "
        "every path, counter balance, falsy return, re-entrancy), with-only construction, constant "
        "folding of the unit tables against the conversion tables, scalar-algebra proof that the "
        "conversion functions are mutually inverse (including the reciprocal nm branch), accessor "
        "factories and converter inheritance by MRO. Not decided: values of the physical factors.")
    run.trusted_base = ["'with' guarantees __exit__", "dict lookup semantics of the conversion tables"]
    run.rule("C05-U12", "units-managed objects hand out freshly converted values: no converted value is kept on the object and returned under a later units context", minimum=3)
    from . import memorule
    memorule.check(run, prog, "C05-U12", ['quantarhei.qm.hilbertspace.hamiltonian.Hamiltonian', 'quantarhei.core.frequency.FrequencyAxis', 'quantarhei.builders.modes.Mode', 'quantarhei.core.managers.Manager'],
                   "the value read under another context is then not the conversion of the stored one")
    # functions on a frequency axis: what they keep (interpolation splines) is kept in terms of internal values; only the
    # units obligation of the stored-result analysis is decided here (the others belong to C09-G)
    from ..report import RuleProxy
    memorule.check(RuleProxy(run, "C05-U12", keep=lambda construct, key: key.endswith(":units") or key == "scanned"), prog, "C05-U12",
                   ['quantarhei.core.dfunction.DFunction'],
                   "the value of the function at a point then depends on the units in which it was first asked for")
    run.rule("C05-U1", "only the context managers, Manager and the public set_current_units switch units", minimum=4)
    run.rule("C05-U2", "units context protocol: backup, switch, restore, counters", minimum=12)
    run.rule("C05-U3", "units contexts are only constructed for 'with'", minimum=30)
    run.rule("C05-U4", "unit tables agree; conversions are mutually inverse", minimum=30)
    run.rule("C05-U5", "units-managed accessors convert on both sides; classes provide both converters", minimum=10)
    run.rule("C05-U6", "enforcement decorators test the flags they are named after", minimum=4)
    rule_U1(run, prog)
    rule_U2(run, prog)
    rule_U3(run, prog)
    rule_U4(run, prog)
    rule_U5(run, prog)
    rule_U6(run, prog)
    run.rule("C05-U7", "methods that compute under energy_units('int') read units-managed properties only inside "
                       "that protection", minimum=1)
    rule_U7(run, prog)
    run.rule("C05-U8", "bath-function constructors and builders store energy parameters independently of the units in "
                       "which they were supplied (unit-state typing, shared with C09-E)", minimum=10)
    from . import c09
    from ..report import RuleProxy
    c09.rule_E(RuleProxy(run, "C05-U8"), prog)
    run.rule("C05-U9", "every class of quantarhei.qm that keeps a Hamiltonian to compute with (rate matrices, relaxation "
                       "tensors, propagators, hierarchy), the evolutions that convert from the rotating frame and the "
                       "absorption and mock two-dimensional calculators read units-converting accessors under internal "
                       "units", minimum=60)
    rule_U9(run, prog)
    run.rule("C05-U10", "method accessor pairs: a set_X that converts its value to internal units has a get_X that "
                        "converts it back to the current units (and package code that consumes such a getter for a "
                        "calculation does so under internal units)", minimum=4)
    rule_U10(run, prog)
    run.rule("C05-U11", "functions that convert a supplied value to internal units do not write into the object they "
                        "were given", minimum=30)
    rule_U11(run, prog)
    run.rule("C05-U13", "storage behind a units-managed property is written with internal values only, and only directly: no value "
                        "read through the property (current units) goes into the storage, no element is assigned through the "
                        "property (the converted copy)", minimum=12)
    rule_U13(run, prog)
    run.rule("C05-U14", "a units-managed object is not created under the current units from values taken out of raw storage "
                        "(internal units)", minimum=2)
    rule_U14(run, prog)
    run.rule("C05-U15", "a setter that converts its argument to internal units uses the converted value everywhere it touches the "
                        "storage: the argument as supplied is neither stored next to the converted value nor compared with it", minimum=10)
    rule_U15(run, prog)
    run.rule("C05-U16", "a value read under internal units is not assigned to a units-managed property of the same object outside "
                        "the internal-units block", minimum=1)
    rule_U16(run, prog)
    run.rule("C05-U17", "no generator suspends inside a units context: a `yield` under `with energy_units(...)` returns to the "
                        "caller with the units switched, and restores them whenever the generator happens to be finished or "
                        "collected", minimum=5)
    rule_U17(run, prog)
    run.rule("C05-U18", "the reciprocal unit is treated apart wherever the factor of a unit that is not known in advance is used", minimum=3)
    rule_U18(run, prog)


def rule_U18(run, prog):
    """'... equals the exact conversion between the two units, for every pair of supported units': all energy units but one
    are proportional to the internal unit; the wavelength ("nm") is reciprocal.  A routine that takes the factor of a unit
    that is not known in advance (`conversion_facs_energy[u]`, u a variable) and multiplies or divides by it converts
    wavelengths linearly - 12500 1/cm -> 4435 nm instead of 800 - unless it treats "nm" apart.  Every function that reads
    the factor of a variable unit compares that unit with "nm" (the variable itself, or the expression it stands for)."""
    rid = "C05-U18"
    n = 0
    for f in prog.all_functions():
        if ".tests." in f.qualname or ".wizard." in f.qualname:
            continue
        keys = []
        for x in walk_no_nested(f.node):
            if isinstance(x, ast.Subscript) and isinstance(x.value, ast.Name) and x.value.id == "conversion_facs_energy" \
                    and isinstance(x.ctx, ast.Load) and not isinstance(x.slice, ast.Constant):
                keys.append(x)
        if not keys:
            continue
        # names that stand for an expression (units = self.current_units["energy"])
        alias = {}
        for st in walk_no_nested(f.node):
            if isinstance(st, ast.Assign) and len(st.targets) == 1 and isinstance(st.targets[0], ast.Name):
                alias[st.targets[0].id] = norm(st.value)
        tested = set()
        for c in walk_no_nested(f.node):
            if isinstance(c, ast.Compare) and any(isinstance(o, ast.Constant) and o.value == "nm" for o in [c.left] + c.comparators):
                for o in [c.left] + c.comparators:
                    if not isinstance(o, ast.Constant):
                        tested.add(norm(o))
                        if isinstance(o, ast.Name) and o.id in alias:
                            tested.add(alias[o.id])
        for k in keys:
            n += 1
            prog.consulted.add(f.relpath)
            kt = norm(k.slice)
            ok = kt in tested or (isinstance(k.slice, ast.Name) and alias.get(k.slice.id) in tested)
            run.obligation(rid, f.short, ok, key="reciprocal-unit-apart:" + kt[:40],
                           message="%s takes the conversion factor of the unit `%s` and never asks whether that unit is \"nm\": a "
                                   "wavelength is inversely proportional to the energy, so a product or quotient with its factor is not "
                                   "its conversion (12500 1/cm comes out as 4435 nm instead of 800 nm)" % (f.short, kt),
                           loc=f.loc(k), sample={"unit": kt})
    if n < 3:
        raise AnalysisError("C05-U18: only %d reads of the factor of a variable unit found" % n)


def generators_suspending_in(prog, ctx_names):
    """(function, yield node, with node or None) for every generator of the package: the innermost enclosing `with` whose
    context expression constructs one of ctx_names, if there is one."""
    out = []
    for f in prog.all_functions():
        if ".tests." in f.qualname or ".wizard." in f.qualname:
            continue
        ys = [x for x in walk_no_nested(f.node) if isinstance(x, (ast.Yield, ast.YieldFrom))]
        if not ys:
            continue
        pm = parents_map(f.node)
        for y in ys:
            w = None
            p_ = pm.get(y)
            while p_ is not None and p_ is not f.node:
                if isinstance(p_, ast.With) and any(isinstance(it.context_expr, ast.Call) and
                                                    (call_name(it.context_expr) or "").split(".")[-1] in ctx_names
                                                    for it in p_.items):
                    w = p_
                    break
                p_ = pm.get(p_)
            out.append((f, y, w))
    return out


def rule_U17(run, prog, rid="C05-U17", ctx_names=CTX, what="units"):
    """'no library call changes the units that are active for its caller': a generator that yields inside a units context
    has entered the context and not left it when control returns to the caller - the caller's loop body runs under the
    generator's units, and __exit__ runs at an arbitrary later time (exhaustion, garbage collection), when it 'restores'
    units that may no longer be the ones to restore."""
    n = 0
    for f, y, w in generators_suspending_in(prog, ctx_names):
        n += 1
        prog.consulted.add(f.relpath)
        run.obligation(rid, f.short, w is None, key="yield-outside-%s-context" % what,
                       message="%s yields inside `%s`: between two values the caller runs with the %s this generator has switched to, "
                               "and the context is left only when the generator is exhausted or collected"
                               % (f.short, norm(w.items[0].context_expr) if w else "", what),
                       loc=f.loc(y), sample={"generator": f.short})
    if n < 5:
        raise AnalysisError("only %d yields found in the package (5 confirmed)" % n)


def rule_U15(run, prog):
    """A function that converts (part of) a parameter p to internal units - c = self.convert_..._2_internal_u(p) - and stores
    c into attributes of self has two unit systems in scope: p is in the units current at the call, the attributes that
    received c are internal.  Storing p itself into one of these attributes (the mirrored element of a symmetric matrix),
    or comparing p with what is stored there (an 'unchanged, nothing to do' shortcut), mixes the two: correct only when the
    current units are the internal ones."""
    from ..loader import parents_map
    from .. import unitflow
    rid = "C05-U15"
    n = 0
    for f in prog.all_functions():
        if ".tests." in f.qualname or ".wizard." in f.qualname or not hasattr(f.node, "args"):
            continue
        params = {a.arg for a in f.node.args.args} - {"self"}
        convs = []
        for st in walk_no_nested(f.node):
            if isinstance(st, ast.Assign) and isinstance(st.value, ast.Call) and (call_name(st.value) or "").endswith("2_internal_u") \
                    and st.value.args and isinstance(st.value.args[0], ast.Name) and st.value.args[0].id in params:
                convs.append(st)
        if not convs:
            continue
        pm = parents_map(f.node)
        for cst in convs:
            raw = cst.value.args[0].id
            ints = {t_.id for t_ in cst.targets if isinstance(t_, ast.Name)}
            direct = [t_ for t_ in cst.targets if not isinstance(t_, ast.Name)]
            attrs = set()
            for st in walk_no_nested(f.node):
                if isinstance(st, ast.Assign) and ((isinstance(st.value, ast.Name) and st.value.id in ints) or st is cst):
                    for t_ in st.targets:
                        b_ = t_
                        while isinstance(b_, ast.Subscript):
                            b_ = b_.value
                        if isinstance(b_, ast.Attribute) and norm(b_.value) == "self":
                            attrs.add(b_.attr)
            if not attrs:
                continue
            n += 1
            prog.consulted.add(f.relpath)
            bad = None
            for st in walk_no_nested(f.node):
                if unitflow.in_int_context(pm, st):
                    continue
                if isinstance(st, ast.Assign) and isinstance(st.value, ast.Name) and st.value.id == raw:
                    for t_ in st.targets:
                        b_ = t_
                        while isinstance(b_, ast.Subscript):
                            b_ = b_.value
                        if isinstance(b_, ast.Attribute) and norm(b_.value) == "self" and b_.attr in attrs:
                            bad = (st, "stores the argument as supplied (%s) into self.%s, which holds the converted value elsewhere" % (raw, b_.attr))
                if isinstance(st, ast.Compare):
                    names = {x.id for x in ast.walk(st) if isinstance(x, ast.Name)}
                    sattrs = {x.attr for x in ast.walk(st) if isinstance(x, ast.Attribute) and norm(x.value) == "self"}
                    if raw in names and (sattrs & attrs) and not (ints & names):
                        bad = (st, "compares the argument as supplied (%s) with self.%s, which is stored in internal units" % (raw, sorted(sattrs & attrs)[0]))
            run.obligation(rid, f.short, bad is None, key="converted-everywhere:" + raw,
                           message="%s converts %s to internal units and %s: under a units context other than the internal one the two "
                                   "numbers differ by the conversion factor" % (f.short, raw, bad[1] if bad else ""),
                           loc=f.loc(bad[0]) if bad else f.loc(cst), sample={"argument": raw, "converted_into": sorted(attrs)})
    if n < 10:
        raise AnalysisError("only %d converting setters found (10 confirmed)" % n)


def rule_U16(run, prog, always=None):
    """`with energy_units("int"): v = obj.X` reads a units-managed property in internal units.  Assigning v (or something
    computed from it) to a units-managed property of the same object after the block has closed hands an internal number to
    a setter that takes it in the current units: it is converted a second time.  The assignment belongs inside the block."""
    from ..loader import parents_map
    from .. import unitflow
    rid = "C05-U16"
    managed = set()
    for cls in prog.all_classes():
        managed |= set(unitflow.converted_attributes(prog, cls))
    n = 0
    for f in prog.all_functions():
        if ".tests." in f.qualname or ".wizard." in f.qualname:
            continue
        pm = parents_map(f.node)
        src = {}      # local name -> receiver text
        for st in walk_no_nested(f.node):
            if isinstance(st, ast.Assign) and isinstance(st.targets[0], ast.Name) and unitflow.in_int_context(pm, st):
                for x in ast.walk(st.value):
                    if isinstance(x, ast.Attribute) and x.attr in managed and isinstance(x.ctx, ast.Load) and norm(x.value) != "self":
                        src[st.targets[0].id] = norm(x.value)
                    if isinstance(x, ast.Attribute) and x.attr in managed and isinstance(x.ctx, ast.Load) and norm(x.value) == "self":
                        src[st.targets[0].id] = "self"
        if not src and not (always is not None and always(f)):
            continue
        n += 1
        prog.consulted.add(f.relpath)
        bad = None
        for st in walk_no_nested(f.node):
            if isinstance(st, ast.Assign) and not unitflow.in_int_context(pm, st):
                for t_ in st.targets:
                    if isinstance(t_, ast.Attribute) and t_.attr in managed:
                        recv = norm(t_.value)
                        used = [x.id for x in ast.walk(st.value) if isinstance(x, ast.Name) and x.id in src and src[x.id] == recv]
                        if used:
                            bad = (st, used[0], recv, t_.attr)
        run.obligation(rid, f.short, bad is None, key="internal-value-into-managed-setter",
                       message="%s reads %s of %s under internal units and assigns it to %s.%s after the block: the setter takes its value "
                               "in the current units, so under a units context the internal number is converted once more"
                               % (f.short, bad[1] if bad else "", bad[2] if bad else "", bad[2] if bad else "", bad[3] if bad else ""),
                       loc=f.loc(bad[0]) if bad else f.loc(f.node))
    if n < 1:
        raise AnalysisError("no function reads a managed property under internal units into a local")


def rule_U14(run, prog):
    """The constructor of a class with units-managed attributes (Hamiltonian(data=...), FrequencyAxis(start, length, step))
    takes its values in the units current at the call.  Values read from the raw storage `obj._X` of such an attribute are
    internal whatever units are current: a constructor call fed with them - directly or through local names, following
    the statements in source order, a rebinding to a clean value ending the dependence - has to sit in an internal-units
    block, otherwise the new object's values are converted a second time."""
    from ..loader import parents_map
    from .. import unitflow
    rid = "C05-U14"
    um = {}
    for cls in prog.all_classes():
        man = unitflow.converted_attributes(prog, cls)
        if man and ".tests" not in cls.module.name:
            um[cls.name] = (cls, man)
    raw_names = {"_" + a for _, man in um.values() for a in man}
    n = 0
    for f in prog.all_functions():
        if ".tests" in f.qualname or ".wizard" in f.qualname:
            continue
        calls = [c for c in walk_no_nested(f.node) if isinstance(c, ast.Call) and call_name(c) in um]
        if not calls:
            continue
        pm = parents_map(f.node)
        stmts = sorted([st for st in walk_no_nested(f.node) if isinstance(st, (ast.Assign, ast.AugAssign))], key=lambda x: (x.lineno, x.col_offset))

        def dominates(st, node):
            """st is an earlier statement of a block that (transitively) contains node"""
            while node is not None and node is not f.node:
                p_ = pm.get(node)
                for fld in ("body", "orelse", "finalbody"):
                    blk = getattr(p_, fld, None)
                    if isinstance(blk, list) and node in blk and st in blk[:blk.index(node)]:
                        return True
                node = p_
            return False

        def taint_at(line, call=None):
            taint = {}
            for st in stmts:
                if st.lineno >= line:
                    break
                def dirty(e):
                    for x in ast.walk(e):
                        if isinstance(x, ast.Attribute) and x.attr in raw_names and isinstance(x.ctx, ast.Load) and norm(x.value) != "self":
                            return norm(x)
                        if isinstance(x, ast.Call) and (call_name(x) or "").endswith("2_internal_u"):
                            return norm(x)[:40]
                        if isinstance(x, ast.Name) and x.id in taint:
                            return taint[x.id]
                    return None
                d = dirty(st.value)
                for t_ in (st.targets if isinstance(st, ast.Assign) else [st.target]):
                    b_ = t_
                    while isinstance(b_, ast.Subscript):
                        b_ = b_.value
                    if not isinstance(b_, ast.Name):
                        continue
                    if d is not None and not unitflow.in_int_context(pm, st) or d is not None:
                        taint[b_.id] = d
                    elif b_ is t_ and isinstance(st, ast.Assign) and (call is None or dominates(st, call)):
                        taint.pop(b_.id, None)       # plain rebinding to a clean value on every way to the call
            return taint
        for c in calls:
            cls, man = um[call_name(c)]
            params = [a.arg for a in (prog.find_method(cls, "__init__").node.args.args[1:] if prog.find_method(cls, "__init__") else [])]
            vals = [(k.arg, k.value) for k in c.keywords if k.arg in man] + [(p_, a) for p_, a in zip(params, c.args) if p_ in man]
            if not vals:
                continue
            n += 1
            prog.consulted.add(f.relpath)
            taint = taint_at(c.lineno, c)
            src = None
            for _, v in vals:
                for x in ast.walk(v):
                    if isinstance(x, ast.Attribute) and x.attr in raw_names and norm(x.value) != "self":
                        src = src or norm(x)
                    if isinstance(x, ast.Name) and x.id in taint:
                        src = src or taint[x.id]
            bad = src is not None and not unitflow.in_int_context(pm, c)
            run.obligation(rid, f.short, not bad, key="ctor-from-storage:" + norm(c)[:40],
                           message="%s creates %s from values taken out of the raw storage %s (internal units) outside an "
                                   "internal-units block: under energy_units the constructor converts them once more and the new "
                                   "object's energies are off by the conversion factor" % (f.short, norm(c)[:40], src),
                           loc=f.loc(c), sample={"call": norm(c)[:60], "from": src})
    if n < 2:
        raise AnalysisError("only %d constructor calls of units-managed classes with managed arguments found" % n)


def rule_U13(run, prog):
    """The storage `_X` behind a units-managed property `X` holds internal units; reading `X` returns the values converted
    to the current units *as a new array*.  For every class with such a property, over all methods it defines or inherits
    (including overridden ones, which are reached through super()):
      (i)  a store into self._X (whole or element) of a value that derives - through local names - from a read of self.X
           outside an internal-units block puts current-units numbers where internal ones are expected: the object
           changes its physical values by the conversion factor;
      (ii) an assignment to an element of self.X writes into the converted copy and is lost."""
    from ..loader import parents_map
    from .. import unitflow
    rid = "C05-U13"
    n = 0
    seen = set()
    for cls in prog.all_classes():
        if ".tests" in cls.module.name or ".wizard" in cls.module.name:
            continue
        man = unitflow.converted_attributes(prog, cls)
        if not man:
            continue
        for b in [x for x in prog.mro(cls) if x is not None]:
            for nme, fn in sorted(b.methods.items()):
                key0 = (cls.name, fn.qualname)
                if key0 in seen:
                    continue
                seen.add(key0)
                pm = parents_map(fn.node)
                taint = set()

                def tainted(e):
                    for x in ast.walk(e):
                        if isinstance(x, ast.Attribute) and norm(x.value) == "self" and x.attr in man and isinstance(x.ctx, ast.Load) \
                                and not unitflow.in_int_context(pm, x):
                            p_ = pm.get(x)
                            if isinstance(p_, ast.Attribute) and p_.attr in ("shape", "dtype", "ndim", "size"):
                                continue
                            return True
                        if isinstance(x, ast.Name) and x.id in taint:
                            return True
                    return False
                changed = True
                while changed:
                    changed = False
                    for st in walk_no_nested(fn.node):
                        if isinstance(st, ast.Assign) and tainted(st.value):
                            # a value converted back to internal units is internal again
                            if isinstance(st.value, ast.Call) and (call_name(st.value) or "").endswith("2_internal_u"):
                                continue
                            for t_ in st.targets:
                                for y in (t_.elts if isinstance(t_, (ast.Tuple, ast.List)) else [t_]):
                                    if isinstance(y, ast.Name) and y.id not in taint:
                                        taint.add(y.id)
                                        changed = True
                for st in walk_no_nested(fn.node):
                    if not isinstance(st, (ast.Assign, ast.AugAssign)):
                        continue
                    for t_ in (st.targets if isinstance(st, ast.Assign) else [st.target]):
                        b_ = t_
                        while isinstance(b_, ast.Subscript):
                            b_ = b_.value
                        if not (isinstance(b_, ast.Attribute) and norm(b_.value) == "self"):
                            continue
                        if b_.attr.startswith("_") and b_.attr[1:] in man:
                            n += 1
                            prog.consulted.add(fn.relpath)
                            bad = tainted(st.value) and not unitflow.in_int_context(pm, st) and not (
                                isinstance(st.value, ast.Call) and (call_name(st.value) or "").endswith("2_internal_u"))
                            run.obligation(rid, "%s:%s" % (cls.name, fn.short), not bad, key="storage-internal:" + norm(st)[:50],
                                           message="%s (a method of %s objects) stores into self.%s a value that comes from reading "
                                                   "self.%s outside internal units (%s): the storage holds internal units, the value is "
                                                   "in the current ones - under energy_units the object's values change by the "
                                                   "conversion factor" % (fn.short, cls.name, b_.attr, b_.attr[1:], norm(st)[:60]),
                                           loc=fn.loc(st), sample={"store": norm(st)[:80], "tainted_locals": sorted(taint)[:6]})
                        elif b_ is not t_ and b_.attr in man:
                            n += 1
                            prog.consulted.add(fn.relpath)
                            run.obligation(rid, "%s:%s" % (cls.name, fn.short), False, key="element-through-property:" + norm(st)[:50],
                                           message="%s assigns to an element of self.%s (%s): the units-managed property returns the "
                                                   "converted values as a new array, the assignment goes into that copy and is lost"
                                                   % (fn.short, b_.attr, norm(st)[:60]), loc=fn.loc(st), sample={"store": norm(st)[:80]})
    if n < 12:
        raise AnalysisError("only %d stores into storage of units-managed properties found (13 confirmed)" % n)


def rule_U11(run, prog):
    """A value supplied under a units context is converted once.  A function that converts (part of) an argument
    to internal units and writes the result back into the argument changes the caller's object: submitted again,
    under any context, it is converted a second time, and if the object itself is stored, the stored value changes
    with it."""
    rid = "C05-U11"
    n = 0
    for f in prog.all_functions():
        if ".tests." in f.qualname or ".wizard." in f.qualname:
            continue
        if not any(isinstance(x, ast.Call) and (call_name(x) or "").endswith("2_internal_u") for x in walk_no_nested(f.node)):
            continue
        n += 1
        prog.consulted.add(f.relpath)
        params = {a.arg for a in f.node.args.args + f.node.args.kwonlyargs} - {"self", "cls"}
        rebound = {}      # parameter -> first line at which the name is rebound to a new object
        for x in walk_no_nested(f.node):
            if isinstance(x, ast.Assign):
                for t_ in x.targets:
                    if isinstance(t_, ast.Name) and t_.id in params:
                        rebound[t_.id] = min(rebound.get(t_.id, 10**9), x.lineno)
        bad = []
        for x in walk_no_nested(f.node):
            tg = x.targets if isinstance(x, ast.Assign) else ([x.target] if isinstance(x, ast.AugAssign) else [])
            for t_ in tg:
                b, sub = t_, False
                while isinstance(b, (ast.Subscript, ast.Attribute)):
                    sub = True
                    b = b.value
                if isinstance(b, ast.Name) and b.id in params and (sub or isinstance(x, ast.AugAssign)) \
                        and x.lineno <= rebound.get(b.id, 10**9):
                    bad.append(x)
            if isinstance(x, ast.Call) and isinstance(x.func, ast.Attribute) and isinstance(x.func.value, ast.Name) \
                    and x.func.value.id in params and x.func.attr in ("append", "extend", "insert", "update", "pop", "clear", "sort") \
                    and x.lineno <= rebound.get(x.func.value.id, 10**9):
                bad.append(x)
        run.obligation(rid, f.short, not bad, key="argument-intact",
                       message="%s converts to internal units and writes into its argument (%s): the caller's object is "
                               "changed, a second submission converts it again" % (f.short, norm(bad[0])[:50] if bad else ""),
                       loc=f.loc(bad[0]) if bad else f.loc(), sample={"function": f.short})
    if n < 30:
        raise AnalysisError("C05-U11: only %d functions converting to internal units found (47 confirmed)" % n)


def converting_setter_pairs(prog):
    """[(class, setter FuncInfo, stored attributes, getter FuncInfo or None)] for every method set_X whose value
    goes through convert_*_2_internal_u into an attribute of self"""
    out = []
    for c in sorted(prog.all_classes(), key=lambda c: c.qualname):
        if ".tests." in c.qualname or ".wizard." in c.qualname:
            continue
        for nme, fn in sorted(c.methods.items()):
            if not nme.startswith("set_"):
                continue
            conv_locals, stores = set(), set()

            def base_attr(t):
                b = t
                while isinstance(b, ast.Subscript):
                    b = b.value
                return b.attr if isinstance(b, ast.Attribute) and isinstance(b.value, ast.Name) and b.value.id == "self" else None
            for n in walk_no_nested(fn.node):
                if isinstance(n, ast.Assign) and isinstance(n.value, ast.Call) and (call_name(n.value) or "").endswith("2_internal_u"):
                    for t in n.targets:
                        if isinstance(t, ast.Name):
                            conv_locals.add(t.id)
                        elif base_attr(t):
                            stores.add(base_attr(t))
            for n in walk_no_nested(fn.node):
                if isinstance(n, ast.Assign) and any(isinstance(x, ast.Name) and x.id in conv_locals for x in ast.walk(n.value)):
                    for t in n.targets:
                        if base_attr(t):
                            stores.add(base_attr(t))
            if stores:
                out.append((c, fn, stores, c.methods.get("get_" + nme[4:])))
    return out


def rule_U10(run, prog):
    rid = "C05-U10"
    from .. import unitflow
    npairs = 0
    for c, setter, stores, getter in converting_setter_pairs(prog):
        if getter is None:
            continue
        reads = {x.attr for x in walk_no_nested(getter.node) if isinstance(x, ast.Attribute) and isinstance(x.ctx, ast.Load)
                 and isinstance(x.value, ast.Name) and x.value.id == "self"}
        if not (reads & stores):
            continue
        npairs += 1
        prog.consulted.add(getter.relpath)
        # every return that hands out the stored value converts it
        bad = []
        for r in [n for n in walk_no_nested(getter.node) if isinstance(n, ast.Return) and n.value is not None]:
            touches = any(isinstance(x, ast.Attribute) and isinstance(x.value, ast.Name) and x.value.id == "self"
                          and x.attr in stores for x in ast.walk(r.value))
            local = {t_.id for n in walk_no_nested(getter.node) if isinstance(n, ast.Assign)
                     and any(isinstance(x, ast.Attribute) and isinstance(x.value, ast.Name) and x.value.id == "self"
                             and x.attr in stores for x in ast.walk(n.value))
                     and not any(isinstance(x, ast.Call) and (call_name(x) or "").endswith("2_current_u") for x in ast.walk(n.value))
                     for t_ in n.targets if isinstance(t_, ast.Name)}
            touches = touches or any(isinstance(x, ast.Name) and x.id in local for x in ast.walk(r.value))
            conv = any(isinstance(x, ast.Call) and (call_name(x) or "").endswith("2_current_u") for x in ast.walk(r.value))
            if touches and not conv:
                bad.append(r)
        run.obligation(rid, "%s.%s" % (c.name, getter.name), not bad, key="pair:" + setter.name,
                       message="%s.%s converts the value to internal units before storing it in self.%s, but %s returns "
                               "the stored number unconverted (%s): supplied and read back under the same units context "
                               "the value differs by the unit factor"
                               % (c.name, setter.name, sorted(stores)[0], getter.name, norm(bad[0])[:60] if bad else ""),
                       loc=getter.loc(bad[0]) if bad else getter.loc(),
                       sample={"class": c.name, "setter": setter.name, "getter": getter.name, "stored_in": sorted(stores)})
    if npairs < 4:
        raise AnalysisError("C05-U10: only %d converting accessor pairs found (4 confirmed)" % npairs)
    # the aggregate reads the monomers' widths through its own state-pair form while it is built: those reads are
    # calculations in internal units
    ab = prog.cls("quantarhei.builders.aggregate_base.AggregateBase")
    cr = unitflow.CalculatorReads(prog, ab)
    sites = [(fn, node, d, p) for fn, node, d, p in cr.sites
             if isinstance(node, ast.Call) and node.func.attr == "get_transition_width" and len(node.args) == 2
             and isinstance(node.func.value, ast.Name) and node.func.value.id == "self"]
    if "get_transition_width" in cr.getters and not sites:
        raise AnalysisError("C05-U10: the aggregate no longer reads transition widths through the state-pair getter")
    for fn, node, d, p in sites:
        run.obligation(rid, fn.short, p is not None, key="consumer:" + norm(node)[:50],
                       message="%s uses %s (which hands on the monomer's width in the current units) in a calculation "
                               "outside energy_units('int')" % (fn.short, norm(node)), loc=fn.loc(node),
                       sample={"site": fn.short, "protected": p})


def rule_U9(run, prog):
    """'The stored value does not depend on the context in which it was supplied' for what calculators
    store: their results.  The classes are found from the tree (constructor parameter typed or named as
    the Hamiltonian and kept on self); the rule is the one of qv/rules/intunits.py."""
    from . import intunits
    from .. import unitflow
    classes = []
    for c in sorted(prog.all_classes(), key=lambda c: c.qualname):
        if not c.qualname.startswith("quantarhei.qm.") or ".tests." in c.qualname:
            continue
        if unitflow.hamiltonian_fields(prog, c)[1]:
            classes.append(c.qualname)
    classes += ["quantarhei.qm.propagators.dmevolution.DensityMatrixEvolution",
                "quantarhei.qm.propagators.statevectorevolution.StateVectorEvolution",
                # calculators that lay internal-unit line positions on a units-managed frequency axis
                "quantarhei.spectroscopy.mocktwodcalculator.MockTwoDResponseCalculator",
                "quantarhei.spectroscopy.abscalculator.AbsSpectrumCalculator"]
    if len(classes) < 20:
        raise AnalysisError("C05-U9: only %d classes keeping a Hamiltonian found (23 confirmed)" % len(classes))
    intunits.check_classes(run, prog, "C05-U9", classes, 60,
                           "what the calculator combines it with (times in fs, kT) is internal: the result stored by the "
                           "calculator depends on the units context it was called from")


def rule_U7(run, prog):
    """A units-managed property returns its value in the units current for the caller.  A method that
    wraps its computation in energy_units('int') does so because what it builds (an axis, a stored
    number) is kept in internal units; a managed read left outside the block hands it a number in
    the caller's units, so the stored value depends on the context of the call."""
    from .. import unitflow
    rid = "C05-U7"
    n = 0
    for m_ in sorted(prog.modules.values(), key=lambda x: x.relpath):
        for c in m_.classes.values():
            for fn, nprot, outside in unitflow.unprotected_managed_reads(prog, c):
                n += 1
                prog.consulted.add(fn.relpath)
                run.obligation(rid, fn.short, not outside, key="protected-reads",
                               message="%s computes under energy_units('int') but reads the units-managed %s outside "
                                       "that block: the value is in the caller's units while everything else in the "
                                       "method is internal" % (fn.short, sorted({"self." + x.attr for x in outside})),
                               loc=fn.loc(outside[0]) if outside else fn.loc(),
                               sample={"method": fn.short, "protected_reads": nprot})
    if n < 1:
        raise AnalysisError("no self-protecting method with units-managed reads found (FrequencyAxis.get_TimeAxis "
                            "was confirmed by hand)")
    # reads of the managed properties of an object the code has itself typed as a FrequencyAxis
    nt = 0
    for m_ in sorted(prog.modules.values(), key=lambda x: x.relpath):
        fs = list(m_.functions.values()) + [f for c in m_.classes.values() for f in c.methods.values()]
        for fn in fs:
            total, bad = unitflow.typed_unprotected_reads(prog, fn)
            if not total:
                continue
            nt += 1
            prog.consulted.add(fn.relpath)
            run.obligation(rid, fn.short, not bad, key="typed-reads",
                           message="%s reads %s of an object it has established to be a FrequencyAxis outside "
                                   "energy_units('int'): the number is in the caller's units and scales a result that "
                                   "is stored without units" % (fn.short, sorted({norm(x) for x in bad})),
                           loc=fn.loc(bad[0]) if bad else fn.loc(), sample={"function": fn.short, "typed_reads": total})
    if nt < 2:
        raise AnalysisError("typed units-managed reads: only %d functions found (2 confirmed)" % nt)


def _module_level_functions(prog):
    for m in prog.modules.values():
        yield m


def rule_U1(run, prog):
    rid = "C05-U1"
    allowed_classes = set(CTX) | {"Manager"}
    n = 0
    for f in prog.all_functions():
        cname = f.cls.name if f.cls is not None else None
        for call in calls_in(f.node):
            nm = call_name(call)
            if nm in ("set_current_units", "unset_current_units") and isinstance(call.func, ast.Attribute):
                n += 1
                ok = cname in allowed_classes or (cname is None and f.name == "set_current_units"
                                                  and f.module.name == "quantarhei.core.managers")
                run.obligation(rid, f.qualname, ok, key="%s:%s" % (nm, norm(call)[:60]),
                               message="library code switches the units of its caller with a raw %s call "
                                       "(not restored on exceptions, single backup slot)" % nm,
                               loc=f.loc(call), sample={"site": f.qualname, "call": norm(call)})
        for nnode in walk_no_nested(f.node):
            tg = []
            if isinstance(nnode, ast.Assign):
                tg = nnode.targets
            elif isinstance(nnode, ast.AugAssign):
                tg = [nnode.target]
            for t in tg:
                d = norm(t)
                if ".current_units[" in d or d.endswith("._saved_units") or "._saved_units[" in d \
                        or d.endswith(".current_units"):
                    n += 1
                    run.obligation(rid, f.qualname, cname == "Manager", key="store:" + d[:50],
                                   message="unit bookkeeping written outside Manager", loc=f.loc(nnode),
                                   sample={"site": f.qualname, "store": d})
    # module-level statements of package modules (scripts inside the package)
    for m in prog.modules.values():
        for st in m.tree.body:
            if isinstance(st, (ast.FunctionDef, ast.ClassDef, ast.AsyncFunctionDef)):
                continue
            for call in [x for x in ast.walk(st) if isinstance(x, ast.Call)]:
                if call_name(call) in ("unset_current_units",) or \
                        (call_name(call) == "set_current_units" and isinstance(call.func, ast.Attribute)
                         and "manager" in norm(call.func.value).lower()):
                    n += 1
                    ok = m.name.startswith("quantarhei.wizard.examples") or m.name.startswith("quantarhei.scripts")
                    run.obligation(rid, m.name + ":<module>", ok, key="module-level:" + norm(call)[:50],
                                   message="module-level raw unit switch in library code", loc="%s:%d" % (m.relpath, call.lineno))
    if n < 4:
        raise AnalysisError("unit-switch sites found: %d (expected at least the context managers)" % n)


def rule_U2(run, prog):
    rid = "C05-U2"
    for cname, utype in (("energy_units", "energy"), ("length_units", "length")):
        cls = prog.cls(MGR + cname)
        ent, ext, ini = cls.methods["__enter__"], cls.methods["__exit__"], cls.methods["__init__"]

        def ob(f, ok, key, msg, sample=None):
            run.obligation(rid, "%s.%s" % (cname, f.name), ok, key=key, message=msg, loc=f.loc(),
                           sample=sample or {"context": cname, "clause": key})
        eb = [s for s in ent.node.body if not (isinstance(s, ast.Expr) and isinstance(s.value, ast.Constant))]
        texts = [norm(s) for s in eb]
        # backup (push of the current units of this type) before the switch
        backup = [k for k, s in enumerate(eb) if any(isinstance(n, ast.Call) and call_name(n) == "get_current_units"
                                                    and n.args and isinstance(n.args[0], ast.Constant)
                                                    and n.args[0].value == utype for n in ast.walk(s))]
        switch = [k for k, s in enumerate(eb) if any(isinstance(n, ast.Call) and call_name(n) == "set_current_units"
                                                    for n in ast.walk(s))]
        ok = len(backup) == 1 and len(switch) == 1 and backup[0] < switch[0]
        ob(ent, ok, "backup-before-switch",
           "__enter__ must read get_current_units(%r) into the context object before switching" % utype,
           {"context": cname, "enter": texts})
        # the backup is pushed on a per-object stack (re-entrancy) or stored in a fresh attribute
        bst = eb[backup[0]] if backup else None
        pushed = bst is not None and isinstance(bst, ast.Expr) and isinstance(bst.value, ast.Call) \
            and call_name(bst.value) == "append" and norm(bst.value.func.value).startswith("self.")
        ob(ent, pushed, "backup-stack",
           "the units to restore must be pushed on a per-object stack: a single attribute is "
           "overwritten when the same context object is entered again while active")
        battr = norm(bst.value.func.value) if pushed else None
        sw = [n for s in eb for n in ast.walk(s) if isinstance(n, ast.Call) and call_name(n) == "set_current_units"]
        ok = len(sw) == 1 and [norm(a) for a in sw[0].args] == ["self.utype", "self.units"]
        ob(ent, ok, "switch-args", "__enter__ must switch (self.utype, self.units)")
        # utype of the class is the literal type
        sup = [n for n in ast.walk(ini.node) if isinstance(n, ast.Call) and call_name(n) == "__init__"]
        ok = len(sup) == 1 and any(k.arg == "utype" and isinstance(k.value, ast.Constant) and k.value.value == utype
                                   for k in sup[0].keywords)
        ob(ini, ok, "utype", "%s must be a context of unit type %r" % (cname, utype))
        ok = any(isinstance(s, ast.If) and "self.manager.units[%r]" % utype in norm(s.test) for s in ini.node.body)
        ob(ini, ok, "known-units", "constructor must refuse units that are not in Manager.units[%r]" % utype)
        # __exit__
        xb = [s for s in ext.node.body if not (isinstance(s, ast.Expr) and isinstance(s.value, ast.Constant))]
        rest = [s for s in xb if isinstance(s, ast.Expr) and isinstance(s.value, ast.Call)
                and call_name(s.value) == "set_current_units"]
        ok = len(rest) == 1
        if ok:
            a = rest[0].value.args
            ok = len(a) == 2 and isinstance(a[0], ast.Constant) and a[0].value == utype and \
                isinstance(a[1], ast.Call) and call_name(a[1]) == "pop" and norm(a[1].func.value) == battr \
                and not a[1].args
        ob(ext, ok, "restore", "__exit__ must restore, unconditionally, the units popped from the same "
                               "per-object stack for unit type %r" % utype,
           {"context": cname, "exit": [norm(s) for s in xb]})
        bad = [n for n in walk_no_nested(ext.node) if isinstance(n, (ast.Return, ast.Raise, ast.Try))]
        ob(ext, not bad, "no-early-exit", "__exit__ must not return a value, raise or wrap the restore")
        ok = len(ext.node.args.args) == 4
        ob(ext, ok, "signature", "__exit__ must accept the three exception arguments")
        if cname == "energy_units":
            inc = [s for s in eb if isinstance(s, ast.AugAssign) and norm(s.target) == "self.manager._in_eu_count"]
            dec = [s for s in xb if isinstance(s, ast.AugAssign) and norm(s.target) == "self.manager._in_eu_count"]
            ok = len(inc) == 1 and len(dec) == 1 and isinstance(inc[0].op, ast.Add) and isinstance(dec[0].op, ast.Sub) \
                and norm(inc[0].value) == "1" and norm(dec[0].value) == "1"
            ob(ext, ok, "counter-balance", "_in_eu_count must be incremented once on enter and decremented once on exit")
            flag = [s for s in xb if isinstance(s, ast.If) and norm(s.test) == "self.manager._in_eu_count == 0"
                    and [norm(x) for x in s.body] == ["self.manager._in_energy_units_context = False"]]
            ok = len(flag) == 1 and "self.manager._in_energy_units_context = True" in texts
            ob(ext, ok, "flag", "_in_energy_units_context must be set on enter and cleared iff the count is zero")
    # the base class allocates the stack
    base = prog.cls(MGR + "units_context_manager").methods["__init__"]
    st = [norm(s) for s in base.node.body]
    run.obligation(rid, "units_context_manager.__init__", "self.units_backup = []" in st, key="stack-alloc",
                   message="the per-object backup stack must be created empty in the constructor", loc=base.loc())
    fu = prog.cls(MGR + "frequency_units")
    ok = [b.name for b in fu.bases if b is not None] == ["energy_units"] and not fu.methods
    run.obligation(rid, "frequency_units", ok, key="alias",
                   message="frequency_units must inherit the energy_units protocol unchanged", loc=fu.module.relpath)
    # Manager.get_current_units returns the table entry
    g = prog.func(MGR + "Manager.get_current_units")
    ok = any(isinstance(n, ast.Return) and norm(n.value) == "self.current_units[utype]" for n in ast.walk(g.node))
    run.obligation(rid, "Manager.get_current_units", ok, key="getter", message="must return current_units[utype]", loc=g.loc())
    s = prog.func(MGR + "Manager.set_current_units")
    ok = any(isinstance(n, ast.Assign) and norm(n) == "self.current_units[utype] = units" for n in ast.walk(s.node))
    run.obligation(rid, "Manager.set_current_units", ok, key="setter", message="must store current_units[utype] = units", loc=s.loc())


def rule_U3(run, prog):
    rid = "C05-U3"
    classes = {prog.cls(MGR + c) for c in ("energy_units", "frequency_units", "length_units")}
    n = 0

    def scan(node, where, resolver, locf):
        nonlocal n
        pm = None
        for call in [x for x in ast.walk(node) if isinstance(x, ast.Call)]:
            r = resolver(call.func)
            if r in classes:
                if pm is None:
                    pm = parents_map(node)
                par = pm.get(call)
                ok = isinstance(par, ast.withitem) and par.context_expr is call
                kind = "with-item"
                if not ok and isinstance(par, ast.Assign) and len(par.targets) == 1 and isinstance(par.targets[0], ast.Name):
                    # bound to a name that is only used as a with-item
                    v = par.targets[0].id
                    uses = [x for x in ast.walk(node) if isinstance(x, ast.Name) and x.id == v
                            and isinstance(x.ctx, ast.Load)]
                    ok = bool(uses) and all(isinstance(pm.get(u), ast.withitem) for u in uses)
                    kind = "named context used only as with-item"
                n += 1
                run.obligation(rid, where, ok, key="with:%s@%s" % (norm(call)[:40], kind),
                               message="units context constructed outside a 'with' item: exit (and the "
                                       "restore of the caller's units) is not guaranteed", loc=locf(call),
                               sample={"site": where, "use": kind})
    for f in prog.all_functions():
        scan(f.node, f.qualname, lambda e, f=f: prog.resolve_expr(f.module, e, f), lambda c, f=f: f.loc(c))
    for m in prog.modules.values():
        body = [s for s in m.tree.body if not isinstance(s, (ast.FunctionDef, ast.ClassDef, ast.AsyncFunctionDef))]
        if body:
            scan(ast.Module(body=body, type_ignores=[]), m.name + ":<module>",
                 lambda e, m=m: prog.resolve_expr(m, e), lambda c, m=m: "%s:%d" % (m.relpath, c.lineno))
    if n < 30:
        raise AnalysisError("only %d units-context constructions resolved (resolver broken?)" % n)


def _table(prog, modname, name):
    m = prog.module(modname)
    node = m.assigns.get(name)
    if not isinstance(node, ast.Dict):
        raise AnalysisError("%s.%s is not a dict literal" % (modname, name))
    return [const_value(k) for k in node.keys], node


def rule_U4(run, prog):
    rid = "C05-U4"
    mgr = prog.cls(MGR + "Manager")
    units_node = mgr.attrs.get("units")
    if not isinstance(units_node, ast.Dict):
        raise AnalysisError("Manager.units is not a dict literal")
    units = {const_value(k): const_value(v) for k, v in zip(units_node.keys, units_node.values)}
    for utype in ("energy", "frequency", "length"):
        keys, node = _table(prog, "quantarhei.core.units", "conversion_facs_" + utype)
        if len(set(keys)) != len(keys):
            run.obligation(rid, "units.conversion_facs_" + utype, False, key="duplicate-key",
                           message="duplicate key in conversion table", loc="quantarhei/core/units.py")
        for u in units[utype]:
            run.obligation(rid, "Manager.units[%s]" % utype, u in keys, key="unit:" + u,
                           message="unit %r of type %s is accepted by the contexts but has no conversion "
                                   "factor" % (u, utype), loc="quantarhei/core/managers.py",
                           sample={"type": utype, "unit": u})
    # "int" and the internal unit have factor one
    m = prog.module("quantarhei.core.units")
    for utype, internal in (("energy", "1/fs"), ("frequency", "1/fs"), ("length", "A")):
        node = m.assigns["conversion_facs_" + utype]
        d = {const_value(k): v for k, v in zip(node.keys, node.values)}
        for u in ("int", internal):
            ok = u in d and isinstance(d[u], ast.Constant) and d[u].value == 1.0
            run.obligation(rid, "units.conversion_facs_" + utype, ok, key="identity:" + u,
                           message="internal unit %r must have conversion factor 1" % u, loc=m.relpath,
                           sample={"type": utype, "unit": u})
    # energy and frequency tables agree on shared units (frequency_units is an alias of energy_units)
    ne = m.assigns["conversion_facs_energy"]
    nf = m.assigns["conversion_facs_frequency"]
    de = {const_value(k): norm(v) for k, v in zip(ne.keys, ne.values)}
    df = {const_value(k): norm(v) for k, v in zip(nf.keys, nf.values)}
    for u in sorted(set(de) & set(df)):
        if u in ("SI",):
            continue        # SI energy is the joule, SI frequency the hertz
        run.obligation(rid, "units.conversion_facs", de[u] == df[u], key="shared:" + u,
                       message="energy and frequency factors of unit %r differ: %s vs %s" % (u, de[u], df[u]),
                       loc=m.relpath, sample={"unit": u, "factor": de[u]})
    # conversion functions mutually inverse (scalar algebra on the return expressions)
    for utype in ("energy", "frequency", "length"):
        fi = prog.func(MGR + "Manager.convert_%s_2_internal_u" % utype)
        fc = prog.func(MGR + "Manager.convert_%s_2_current_u" % utype)
        for branch in (("linear", False),) + ((("reciprocal", True),) if utype == "energy" else ()):
            bname, recip = branch
            ei = _return_expr(fi, recip)
            ec = _return_expr(fc, recip)
            x = Expr.factor("x")
            c = Expr.factor("c")
            tbl = "conversion_facs_%s[self.current_units['%s']]" % (utype, utype)
            binds = lambda v: {"val": v, "cfact": c, tbl: c, "conversion_facs_%s[units]" % utype: c}
            try:
                yi = eval_with(prog, fi, ei, binds(x))
                back = eval_with(prog, fc, ec, binds(yi))
                if not isinstance(yi, Expr) or not isinstance(back, Expr):
                    raise TypeError("conversion expression reads something other than the value and "
                                    "the table entry of the current %s units" % utype)
            except (TypeError, AnalysisError) as e:
                run.obligation(rid, "Manager.convert_%s" % utype, False, key="inverse-" + bname,
                               message="conversion expressions of %s are not functions of the value and the "
                                       "factor of the current %s units only (%s)" % (utype, utype, e), loc=fi.loc())
                continue
            nfm = normal(back - x)
            run.obligation(rid, "Manager.convert_%s" % utype, not nfm, key="inverse-" + bname,
                           message="convert_%s_2_current_u(convert_%s_2_internal_u(x)) != x on the %s branch: %s"
                           % (utype, utype, bname, show_normal(nfm, 3)), loc=fi.loc(),
                           sample={"type": utype, "branch": bname, "to_internal": norm(ei), "to_current": norm(ec)})
            # direction: to_internal multiplies (divides in the reciprocal branch after inversion)
            want = (x * c) if not recip else (Expr.factor("x", (), False, -1) * Expr.factor("c", (), False, -1))
            nfm = normal(yi - want)
            run.obligation(rid, "Manager.convert_%s" % utype, not nfm, key="direction-" + bname,
                           message="convert_%s_2_internal_u must be %s" % (utype, "x*factor" if not recip else "(1/x)/factor"),
                           loc=fi.loc(), sample={"type": utype, "branch": bname})
        # the factor is looked up for the CURRENT units of this type, in both directions
        for f in (fi, fc):
            src = f.module.src.splitlines()[f.node.lineno - 1:f.node.end_lineno]
            lookups = [n for n in ast.walk(f.node) if isinstance(n, ast.Subscript)
                       and norm(n.value) == "conversion_facs_" + utype]
            ok = bool(lookups)
            for lk in lookups:
                key = norm(lk.slice)
                if key == "units":
                    defs = [s for s in f.node.body if isinstance(s, ast.Assign) and norm(s.targets[0]) == "units"]
                    ok = ok and len(defs) == 1 and norm(defs[0].value) == "self.current_units['%s']" % utype
                else:
                    ok = ok and key == "self.current_units['%s']" % utype
            run.obligation(rid, "Manager." + f.name, ok, key="lookup",
                           message="conversion factor must be looked up for the current %s units" % utype, loc=f.loc())
    # the reciprocal branch is selected for 'nm' on both sides
    for name in ("convert_energy_2_internal_u", "convert_energy_2_current_u"):
        f = prog.func(MGR + "Manager." + name)
        ifs = [s for s in f.node.body if isinstance(s, ast.If)]
        ok = len(ifs) == 1 and norm(ifs[0].test) == "units == 'nm'"
        run.obligation(rid, "Manager." + name, ok, key="nm-branch",
                       message="wavelength units must be handled by the reciprocal branch", loc=f.loc())
        if not ok:
            continue
        # the array path of the reciprocal branch: same map as the scalar fall-back, into an array that can hold it
        par = f.node.args.args[1].arg
        allocs = [n for s_ in ifs[0].body for n in ast.walk(s_) if isinstance(n, ast.Assign) and isinstance(n.value, ast.Call)
                  and call_name(n.value) in ("zeros", "zeros_like", "empty", "empty_like")]
        for a in allocs:
            dt = [k.value for k in a.value.keywords if k.arg == "dtype"] or a.value.args[1:2]
            like = call_name(a.value).endswith("_like")
            inherits = (like and not dt) or (dt and norm(dt[0]) in ("%s.dtype" % par, "%s.dtype.type" % par))
            run.obligation(rid, "Manager." + name, not inherits, key="nm-array-element-type",
                           message="the array of reciprocals is allocated with the element type of the input (%s): for "
                                   "whole-number wavelengths the reciprocals are truncated to zero" % norm(a.value),
                           loc=f.loc(a), sample={"allocation": norm(a.value)})
        if allocs:
            rn = norm(allocs[0].targets[0])
            stx = [norm(x) for s_ in ifs[0].body for x in ast.walk(s_) if isinstance(x, ast.stmt)]
            fill = [x for x in stx if x.startswith(rn + "[")]
            ok2 = len(fill) == 1 and fill[0].replace(" ", "") in (
                "%s[%s!=0.0]=1.0/%s[%s!=0]" % (rn, par, par, par), "%s[%s!=0]=1.0/%s[%s!=0]" % (rn, par, par, par),
                "%s[%s!=0.0]=1.0/%s[%s!=0.0]" % (rn, par, par, par)) and ("return %s / cfact" % rn) in stx
            run.obligation(rid, "Manager." + name, ok2, key="nm-array-map",
                           message="the array path of the wavelength branch must be (1/x)/factor on the non-zero entries "
                                   "and zero elsewhere, as the scalar path", loc=f.loc(allocs[0]),
                           sample={"fill": fill})


def _return_expr(f, reciprocal):
    ifs = [s for s in f.node.body if isinstance(s, ast.If)]
    if not ifs:
        rets = [s for s in f.node.body if isinstance(s, ast.Return)]
        if len(rets) != 1:
            raise AnalysisError("%s: single return expected" % f.short)
        return rets[0].value
    blk = ifs[0].body if reciprocal else ifs[0].orelse
    rets = [n for s in blk for n in ast.walk(s) if isinstance(n, ast.Return)]
    if reciprocal:
        # the scalar fall-back of the try/except
        rets = [r for r in rets if "ret" not in {x.id for x in ast.walk(r.value) if isinstance(x, ast.Name)}]
    if len(rets) != 1:
        raise AnalysisError("%s: cannot isolate the return expression (reciprocal=%s)" % (f.short, reciprocal))
    return rets[0].value


FACTORIES = {"units_managed_property": True, "units_managed_array_property": True,
             "managed_array_property": True}


def rule_U5(run, prog):
    rid = "C05-U5"
    m = prog.module("quantarhei.utils.types")
    for fac in FACTORIES:
        f = m.functions.get(fac)
        if f is None:
            raise AnalysisError("factory %s vanished" % fac)
        inner = [n for n in f.node.body if isinstance(n, ast.FunctionDef)]
        if len(inner) != 2:
            raise AnalysisError("factory %s: getter and setter expected" % fac)
        for fn in inner:
            if len(fn.args.args) == 1:
                rets = [n for n in ast.walk(fn) if isinstance(n, ast.Return)]
                ok = len(rets) == 1 and isinstance(rets[0].value, ast.Call) and \
                    norm(rets[0].value.func) == "self.convert_2_current_u"
                if ok:
                    arg = rets[0].value.args[0]
                    defs = [s for s in fn.body if isinstance(s, ast.Assign) and norm(s.targets[0]) == norm(arg)]
                    ok = len(defs) == 1 and norm(defs[0].value) == "getattr(self, storage_name)"
                run.obligation(rid, "utils.types.%s.getter" % fac, ok, key="convert-out",
                               message="getter must return convert_2_current_u(storage)", loc="%s:%d" % (m.relpath, fn.lineno),
                               sample={"factory": fac})
            else:
                sets = [n for n in ast.walk(fn) if isinstance(n, ast.Call) and call_name(n) == "setattr"]
                ok = len(sets) == 1 and len(sets[0].args) == 3 and isinstance(sets[0].args[2], ast.Call) and \
                    norm(sets[0].args[2].func) == "self.convert_2_internal_u" and norm(sets[0].args[1]) == "storage_name"
                run.obligation(rid, "utils.types.%s.setter" % fac, ok, key="convert-in",
                               message="setter must store convert_2_internal_u(value)", loc="%s:%d" % (m.relpath, fn.lineno),
                               sample={"factory": fac})
    # partial aliases of the factories
    alias = {}
    for name, node in m.assigns.items():
        if isinstance(node, ast.Call) and call_name(node) == "partial" and node.args and \
                isinstance(node.args[0], ast.Name) and node.args[0].id in FACTORIES:
            alias[name] = node.args[0].id
    if len(alias) < 6:
        raise AnalysisError("units-managed partial aliases not found")
    n = 0
    for c in prog.all_classes():
        for attr, val in c.attrs.items():
            if isinstance(val, ast.Call) and isinstance(val.func, ast.Name):
                r = prog.resolve_name(c.module, val.func.id)
                tgt = None
                if isinstance(r, tuple) and r[0] == "const" and r[1] is m:
                    tgt = alias.get(val.func.id)
                elif isinstance(r, FuncInfo) and r.module is m and r.name in FACTORIES:
                    tgt = r.name
                if tgt is None:
                    continue
                n += 1
                has = prog.find_method(c, "convert_2_internal_u") is not None and \
                    prog.find_method(c, "convert_2_current_u") is not None
                run.obligation(rid, "%s.%s" % (c.qualname, attr), has, key="converters",
                               message="class declares the units-managed property %r but does not provide "
                                       "convert_2_internal_u/convert_2_current_u (MRO)" % attr,
                               loc="%s:%d" % (c.module.relpath, val.lineno),
                               sample={"class": c.name, "property": attr, "factory": tgt})
                ok = val.args and isinstance(val.args[0], ast.Constant) and val.args[0].value == attr
                run.obligation(rid, "%s.%s" % (c.qualname, attr), bool(ok), key="storage-name",
                               message="units-managed property must be declared under its own name "
                                       "(storage '_%s')" % attr, loc="%s:%d" % (c.module.relpath, val.lineno))
    if n < 4:
        raise AnalysisError("only %d units-managed property declarations resolved" % n)
    # the converter mix-ins delegate to the manager functions of the same type and direction
    for cname, utype in (("EnergyUnitsManaged", "energy"), ("LengthUnitsManaged", "length")):
        c = prog.cls(MGR + cname)
        for d in ("internal", "current"):
            f = c.methods["convert_2_%s_u" % d]
            rets = [x for x in ast.walk(f.node) if isinstance(x, ast.Return)]
            ok = len(rets) == 1 and norm(rets[0].value) == "self.manager.convert_%s_2_%s_u(val)" % (utype, d)
            run.obligation(rid, "%s.convert_2_%s_u" % (cname, d), ok, key="delegate",
                           message="converter must delegate to Manager.convert_%s_2_%s_u" % (utype, d), loc=f.loc())
    c = prog.cls(MGR + "UnitsManaged")
    for utype in ("energy", "length"):
        for d in ("internal", "current"):
            f = c.methods["convert_%s_2_%s_u" % (utype, d)]
            rets = [x for x in ast.walk(f.node) if isinstance(x, ast.Return)]
            ok = len(rets) == 1 and norm(rets[0].value) == "self.manager.convert_%s_2_%s_u(val)" % (utype, d)
            run.obligation(rid, "UnitsManaged.convert_%s_2_%s_u" % (utype, d), ok, key="delegate",
                           message="converter must delegate to the manager function of the same name", loc=f.loc())


def rule_U6(run, prog):
    rid = "C05-U6"
    m = prog.module("quantarhei.core.wrappers")
    table = {"prevent_basis_context": ("_in_eigenbasis_of_context", False),
             "enforce_basis_context": ("_in_eigenbasis_of_context", True),
             "prevent_energy_units_context": ("_in_energy_units_context", False),
             "enforce_energy_units_context": ("_in_energy_units_context", True)}
    for name, (flag, negated) in table.items():
        f = m.functions.get(name)
        if f is None:
            raise AnalysisError("decorator %s vanished" % name)
        ifs = [n for n in ast.walk(f.node) if isinstance(n, ast.If)]
        ok = len(ifs) == 1 and any(isinstance(x, ast.Raise) for x in ifs[0].body)
        if ok:
            t = ifs[0].test
            ok = isinstance(t, ast.BoolOp) and isinstance(t.op, ast.And) and len(t.values) == 2
            if ok:
                a, b = t.values
                neg = isinstance(a, ast.UnaryOp) and isinstance(a.op, ast.Not)
                core = a.operand if neg else a
                ok = norm(core) == "m." + flag and neg == negated and norm(b) == "m._enforce_contexts"
        run.obligation(rid, "wrappers." + name, ok, key="flag",
                       message="%s must raise iff %s%s and contexts are enforced"
                       % (name, "not " if negated else "", flag), loc="%s:%d" % (m.relpath, f.node.lineno),
                       sample={"decorator": name, "flag": flag})
