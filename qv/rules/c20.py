"""C20 - distributed work ranges partition the index range exactly.

Decided statically: the block computed for a rank depends on ``start``
(def-use), the piecewise-affine summary of _calculate_ranges (three cases of
the rank against 0 and the remainder, obtained by interpreting the loop body
with the scalar algebra) satisfies N1(0)=start, N2(r)=N1(r+1) for every
feasible pair of cases, N2(size-1)=stop given stop-start = q*size+rem, and
block sizes in {q, q+1}; callers accumulate into an array that is reduced with
"sum" inside the parallel region.  Not decided: MPI behaviour.
"""
import ast

from ..loader import AnalysisError, norm, walk_no_nested, call_name, parents_map
from .. import ta
from ..ta import Expr, normal, show_normal
from ..ta_front import Interp, Obj

PAR = "quantarhei.core.parallel."


def check(run, prog, tier):
    run.explanation = (
        "Scalar-algebra interpretation of the body of the per-rank loop of _calculate_ranges under "
        "each of the three decision cases (finite evaluation of rank vs 0 and vs the remainder), "
        "followed by polynomial identities for start, contiguity across every feasible pair of "
        "cases, end point and block sizes, for all process counts, ranks and ranges; def-use of "
        "'start'; ordering/pairing of parallel region, distributed loop, accumulation and "
        "sum-reduction at the call sites; an independent concrete cross-check interprets _calculate_ranges and "
        "its list/array wrappers (qv/feval.py) for every process count up to 8 (thorough: 16), lengths up to 20 "
        "(50), three starts and three ranks. MPI itself is trusted.")
    run.trusted_base = ["Python // and % satisfy stop-start = q*size + rem with 0 <= rem < size",
                        "MPI allreduce(sum) adds the per-process arrays"]
    run.rule("C20-A", "block boundaries depend on the start of the range", minimum=3)
    run.rule("C20-B", "piecewise-affine summary: start, contiguity, end, sizes (exhaustive over cases)", minimum=12)
    run.rule("C20-C", "callers accumulate and sum-reduce inside the parallel region", minimum=3)
    f = prog.func(PAR + "_calculate_ranges")
    rule_A(run, prog, f)
    rule_B(run, prog, f)
    rule_C(run, prog)
    run.rule("C20-I", "'for every number of processes and every integer range': the blocks are a function of the arguments of the "
                      "call.  The range calculators read of the shared configuration only what identifies the process (size, rank) "
                      "or what they have stored themselves earlier in the same call on every path - never what an earlier call (of "
                      "this or another helper) left there", minimum=3)
    rule_I(run, prog)
    run.rule("C20-D", "concrete cross-check: the blocks of every rank partition the range (finite evaluation)", minimum=3)
    rule_D(run, prog, f, tier)
    run.rule("C20-E", "the public block helpers hand every rank exactly its block, with and without indices "
                      "(finite evaluation)", minimum=4)
    rule_E(run, prog, f, tier)
    run.extra["exhaustive"] = True
    run.rule("C20-F", "every block helper records the block it hands out, on the distributed and on the serial path (the "
                      "functions that collect the results read it)", minimum=6)
    rule_F(run, prog)
    run.rule("C20-G", "sums are taken exactly where the work was divided: the reductions act under the same condition under which "
                      "the helpers hand out blocks (parallel_level == 1) and pass through everywhere else", minimum=2)
    rule_G(run, prog)
    run.rule("C20-H", "every item collected from another process is received into an array of its own: the buffer of a receive in a "
                      "loop is allocated in the same pass of the loop when it is handed on (a setter that keeps the array by reference "
                      "would otherwise keep one array for all items of a process)", minimum=1)
    rule_H(run, prog)


def rule_I(run, prog):
    """config is one object per process and every helper writes into it (config.ranges, config.range).  A calculator that
    returns or tests something read from it - `config.ranges[config.rank]` under 'same length as last time', getattr of a
    remembered key - hands out the blocks of whichever loop ran last."""
    rid = "C20-I"
    ident = {"size", "rank"}
    n = 0
    for nme in ("_calculate_ranges", "_calculate_ranges_list", "_calculate_ranges_array"):
        f = prog.func(PAR + nme)
        prog.consulted.add(f.relpath)
        if not f.node.args.args:
            raise AnalysisError("%s has no parameters" % nme)
        cfg = f.node.args.args[0].arg
        n += 1
        bad = []
        # attributes of the configuration stored unconditionally at the top level of the body, with the line of the store
        stored = {}
        for st in f.node.body:
            if isinstance(st, ast.Assign):
                for t_ in st.targets:
                    if isinstance(t_, ast.Attribute) and isinstance(t_.value, ast.Name) and t_.value.id == cfg:
                        stored.setdefault(t_.attr, st.lineno)
        for x in walk_no_nested(f.node):
            attr = None
            if isinstance(x, ast.Attribute) and isinstance(x.ctx, ast.Load) and isinstance(x.value, ast.Name) and x.value.id == cfg:
                attr = x.attr
            elif isinstance(x, ast.Call) and call_name(x) in ("getattr", "hasattr") and len(x.args) >= 2 and \
                    isinstance(x.args[0], ast.Name) and x.args[0].id == cfg:
                attr = x.args[1].value if isinstance(x.args[1], ast.Constant) else "<computed>"
            elif isinstance(x, ast.Call) and any(isinstance(a_, ast.Call) and call_name(a_) == "vars" and a_.args
                                                 and isinstance(a_.args[0], ast.Name) and a_.args[0].id == cfg for a_ in [x]):
                attr = "<vars>"
            elif isinstance(x, ast.Attribute) and x.attr == "__dict__" and isinstance(x.value, ast.Name) and x.value.id == cfg:
                attr = "<__dict__>"
            if attr is None or attr in ident:
                continue
            if attr in stored and stored[attr] < x.lineno:
                continue
            bad.append((attr, x.lineno))
        run.obligation(rid, "core.parallel." + nme, not bad, key="function-of-arguments",
                       message="%s reads %s of the shared configuration, which this call has not stored: the blocks it hands out "
                               "depend on what an earlier distributed loop left there, not only on the range and the number of "
                               "processes" % (nme, ", ".join("%s.%s (line %d)" % (cfg, a_, l_) for a_, l_ in bad[:3])),
                       loc="%s:%d" % (f.relpath, (bad[0][1] if bad else f.node.lineno)),
                       sample={"function": nme, "reads": [a_ for a_, _ in bad]})
    if n < 3:
        raise AnalysisError("C20-I: the three range calculators were not found")


_FRESH_CTORS = ("zeros", "empty", "ones", "zeros_like", "empty_like", "ones_like", "full", "array", "copy", "ndarray")


def rule_H(run, prog):
    """'... so that sum-reduced results equal the serial result': the results of the blocks are put together by
    collect_block_distributed_data, item by item.  For every `comm.Recv(X, ...)` inside a loop whose buffer X is also
    handed to another call in the same loop: every assignment of X in the loop is a fresh allocation, or the name of one
    that is allocated in the loop unconditionally (not `if buffer is None: buffer = zeros(...)`, which is one array per
    outer pass)."""
    from ..loader import parents_map
    rid = "C20-H"
    n = 0
    prog.module(PAR[:-1])
    for f in list(prog.all_functions()):
        if f.module.name != PAR[:-1] or not hasattr(f.node, "args"):
            continue
        pm = parents_map(f.node)

        def fresh_call(v):
            return isinstance(v, ast.Call) and (call_name(v) or "").split(".")[-1] in _FRESH_CTORS

        for c in walk_no_nested(f.node):
            if not (isinstance(c, ast.Call) and isinstance(c.func, ast.Attribute) and c.func.attr == "Recv" and c.args
                    and isinstance(c.args[0], ast.Name)):
                continue
            L = pm.get(c)
            while L is not None and not isinstance(L, (ast.For, ast.While)):
                L = pm.get(L)
            if L is None:
                continue
            X = c.args[0].id
            handed = [k for k in ast.walk(L) if isinstance(k, ast.Call) and k is not c
                      and any(isinstance(a_, ast.Name) and a_.id == X for a_ in k.args)
                      and not (isinstance(k.func, ast.Attribute) and k.func.attr in ("Recv", "Send"))]
            if not handed:
                continue
            n += 1
            prog.consulted.add(f.relpath)

            def assigns(name):
                return [a_ for a_ in ast.walk(L) if isinstance(a_, ast.Assign) and any(isinstance(t_, ast.Name) and t_.id == name
                                                                                         for t_ in a_.targets)]

            def guarded_by_itself(a_, name):
                g = pm.get(a_)
                while g is not None and g is not L:
                    if isinstance(g, ast.If) and any(isinstance(x_, ast.Name) and x_.id == name for x_ in ast.walk(g.test)):
                        return True
                    g = pm.get(g)
                return False

            why = ""
            # the assignment that reaches the receive: the last one before it in the same block, else all in the loop
            blk = None
            p_ = pm.get(c)
            while p_ is not None and not isinstance(p_, ast.stmt):
                p_ = pm.get(p_)
            for fld in ("body", "orelse"):
                b_ = getattr(pm.get(p_), fld, None)
                if isinstance(b_, list) and p_ in b_:
                    blk = b_[:b_.index(p_)]
            reach = [a_ for a_ in (blk or []) if a_ in assigns(X)][-1:] or assigns(X)
            if not reach:
                why = "`%s` is allocated outside the loop" % X
            for a_ in reach:
                v = a_.value
                if fresh_call(v):
                    continue
                if isinstance(v, ast.Name):
                    ys = assigns(v.id)
                    if not ys:
                        why = "`%s` is `%s`, which is allocated outside the loop" % (X, v.id)
                    elif not all(fresh_call(y.value) for y in ys):
                        why = "`%s` is `%s`, which is not a fresh array in every pass" % (X, v.id)
                    elif any(guarded_by_itself(y, v.id) for y in ys):
                        why = "`%s` is `%s`, which is allocated only when it is not there yet (once, not once per item)" % (X, v.id)
                else:
                    why = "`%s = %s` is not a fresh allocation" % (X, norm(v)[:40])
            run.obligation(rid, f.short, not why, key="recv:" + X,
                           message="%s receives into `%s` and hands it to `%s`, but %s: all items received from one process are one "
                                   "array, and every item but the last is overwritten by the next receive"
                                   % (f.short, X, norm(handed[0].func), why),
                           loc=f.loc(c), sample={"buffer": X, "handed_to": norm(handed[0].func)})
    if n < 1:
        raise AnalysisError("C20-H: no receive into a buffer that is handed on found in quantarhei.core.parallel")


def rule_F(run, prog):
    """The block handed out must be the block recorded: collect_block_distributed_data and its siblings take the
    indices of this process from config.range.  Sibling agreement over the three helpers: where the work is distributed
    (the branch `config.parallel_level == 1`) every return of a block is preceded by `config.range = <that block>`.
    Where it is not distributed - a serial run, or a region nested in another one - the block is recorded exactly when
    the region is the outermost one (`config.parallel_region == 1`): recorded not at all, the collecting functions work
    with the block of an earlier loop; recorded unconditionally, a nested loop overwrites the record of the loop around it."""
    rid = "C20-F"
    from ..loader import parents_map
    n = 0
    for nme in ("block_distributed_range", "block_distributed_list", "block_distributed_array"):
        f = prog.func("quantarhei.core.parallel." + nme)
        prog.consulted.add(f.relpath)
        pm = parents_map(f.node)
        top = [x for x in f.node.body if isinstance(x, ast.If) and norm(x.test).replace(" ", "") == "config.parallel_level==1"]
        if len(top) != 1:
            raise AnalysisError("%s: branch on config.parallel_level == 1 not found" % nme)
        for branch, blk in (("distributing", top[0].body), ("not distributing", top[0].orelse)):
            rets = [x for st in blk for x in ast.walk(st) if isinstance(x, ast.Return) and x.value is not None]
            stores = [x for st in blk for x in ast.walk(st) if isinstance(x, ast.Assign) and any(norm(t_) == "config.range" for t_ in x.targets)]
            for r in rets:
                n += 1
                uncond = [s_ for s_ in stores if s_ in blk and s_.lineno < r.lineno]
                guarded = [s_ for s_ in stores if isinstance(pm.get(s_), ast.If) and pm.get(s_) in blk
                           and norm(pm.get(s_).test).replace(" ", "") == "config.parallel_region==1" and not pm.get(s_).orelse
                           and s_.lineno < r.lineno]
                if branch == "distributing":
                    ok = bool(uncond)
                    msg = ("%s hands out a block (%s) without recording it in config.range on this path: the collecting "
                           "functions then work with the block of an earlier call" % (nme, norm(r)[:50]))
                else:
                    ok = bool(guarded) and not uncond
                    msg = ("%s, when it does not distribute, %s: %s" % (
                        nme, "records the block unconditionally" if uncond else "does not record the block of the outermost region",
                        "a loop in a nested region overwrites the block recorded by the loop around it, whose data are then "
                        "collected for the wrong indices" if uncond else
                        "the collecting functions then work with the block of an earlier call"))
                run.obligation(rid, nme, ok, key="records-block:%s:%s" % (branch[:3], norm(r)[:40]), message=msg,
                               loc=f.loc(r), sample={"helper": nme, "branch": branch, "return": norm(r)[:60]})
        # a block handed out before the helper reaches that branch (a short cut for a special input) is a block as well
        inside = {id(x) for x in ast.walk(top[0])}
        nested = {id(x) for d in ast.walk(f.node) if d is not f.node and isinstance(d, (ast.FunctionDef, ast.Lambda))
                  for x in ast.walk(d)}
        for r in ast.walk(f.node):
            if not isinstance(r, ast.Return) or r.value is None or id(r) in inside or id(r) in nested:
                continue
            n += 1
            holder = pm.get(r)
            blk = next((b for b in (getattr(holder, "body", []), getattr(holder, "orelse", [])) if r in b), [])
            ok = any(isinstance(s_, ast.Assign) and any(norm(t_) == "config.range" for t_ in s_.targets)
                     for st in blk[:blk.index(r)] for s_ in ast.walk(st)) if blk else False
            run.obligation(rid, nme, ok, key="records-block:short-cut:%s" % norm(r)[:40],
                           message="%s hands out a block (%s) on a short cut taken before it looks at the parallel level and records "
                                   "nothing in config.range there: the collecting functions called after such a loop work with the "
                                   "block of an earlier loop (they copy and sum the rows of that loop once more)" % (nme, norm(r)[:50]),
                           loc=f.loc(r), sample={"helper": nme, "branch": "short cut", "return": norm(r)[:60]})
    if n < 6:
        raise AnalysisError("C20-F: only %d block returns found" % n)
    # the sum goes back into the reduced array whatever its rank
    ar = prog.func("quantarhei.core.parallel.DistributedConfiguration.allreduce")
    prog.consulted.add(ar.relpath)
    arr = ar.node.args.args[1].arg
    wb = [x for x in ast.walk(ar.node) if isinstance(x, ast.Assign) and isinstance(x.targets[0], ast.Subscript)
          and norm(x.targets[0].value) == arr]
    if not wb:
        raise AnalysisError("allreduce: write-back into the reduced array not found")
    for x in wb:
        sl = x.targets[0].slice
        ok = (isinstance(sl, ast.Constant) and sl.value is Ellipsis) or \
            (isinstance(sl, ast.Slice) and sl.lower is None and sl.upper is None and sl.step is None)
        run.obligation(rid, "DistributedConfiguration.allreduce", ok, key="write-back-any-rank",
                       message="allreduce writes the sum back with %s, which fixes the number of indices of the array: a result "
                               "vector (or a 3-index tensor) that is summed over the processes raises IndexError as soon as the work "
                               "is shared, although the same program runs serially" % norm(x.targets[0]), loc=ar.loc(x))


def rule_D(run, prog, f, tier):
    """_calculate_ranges and its list/array wrappers are interpreted (qv/feval.py) for every process
    count, rank, start and length up to a bound; the blocks must be contiguous from start to stop, in
    rank order, with sizes differing by at most one, and the value returned must be the block of the
    calling rank.  Independent of the symbolic summary of rule B (different engine, same source)."""
    from .. import feval
    from ..feval import Stub, Vec
    rid = "C20-D"
    maxsize, maxlen = (8, 20) if tier != "thorough" else (16, 50)
    wrappers = {"_calculate_ranges": None,
                "_calculate_ranges_list": prog.func(PAR + "_calculate_ranges_list"),
                "_calculate_ranges_array": prog.func(PAR + "_calculate_ranges_array")}
    for wname, wf in wrappers.items():
        bad = []
        ncfg = 0
        starts = (-3, 0, 7) if wf is None else (0,)
        for size in range(1, maxsize + 1):
            for start in starts:
                for ln in range(0, maxlen + 1):
                    stop = start + ln
                    for rank in sorted({0, size - 1, size // 2}):
                        ncfg += 1
                        cfg = Stub("DistributedConfiguration", size=size, rank=rank)
                        try:
                            if wf is None:
                                got = feval.Evaluator().call_function(f.node, {"config": cfg, "start": start, "stop": stop})
                            else:
                                # (arrays with more than one column: the blocks are blocks of rows)
                                arg = list(range(ln)) if "list" in wname else feval.Mat(Vec([0, 0, 0]) for _ in range(ln))
                                if "array" in wname and ln == 0:
                                    arg = Stub("ndarray", shape=(0, 3))
                                env = {wf.node.args.args[0].arg: cfg, wf.node.args.args[1].arg: arg,
                                       "_calculate_ranges": lambda c, a, b: feval.Evaluator().call_function(
                                           f.node, {"config": c, "start": a, "stop": b})}
                                got = feval.Evaluator().call_function(wf.node, env)
                        except feval.Unsupported as e:
                            raise AnalysisError("%s: outside the finite evaluator's vocabulary: %s" % (wname, e))
                        except feval.Raised as e:
                            bad.append((size, start, stop, rank, "raises %s" % e))
                            continue
                        blocks = [list(b) for b in cfg.attrs.get("ranges", [])]
                        why = None
                        if len(blocks) != size:
                            why = "%d blocks for %d processes" % (len(blocks), size)
                        elif blocks[0][0] != start or blocks[-1][1] != stop:
                            why = "blocks span %s..%s" % (blocks[0][0], blocks[-1][1])
                        elif any(blocks[r][1] != blocks[r + 1][0] for r in range(size - 1)):
                            why = "blocks are not contiguous: %s" % blocks
                        elif any(b[1] < b[0] for b in blocks):
                            why = "negative block: %s" % blocks
                        elif max(b[1] - b[0] for b in blocks) - min(b[1] - b[0] for b in blocks) > 1:
                            why = "block sizes differ by more than one: %s" % blocks
                        elif list(got) != blocks[rank]:
                            why = "rank %d is handed %s, its block is %s" % (rank, list(got), blocks[rank])
                        if why:
                            bad.append((size, start, stop, rank, why))
        run.obligation(rid, "parallel." + wname, not bad, key="finite:size<=%d,len<=%d" % (maxsize, maxlen),
                       message="%s does not partition the range on %d of %d configurations; first: size=%s start=%s "
                               "stop=%s rank=%s: %s" % ((wname, len(bad), ncfg) + (bad[0] if bad else ("",) * 5)),
                       loc=(wf or f).loc(), sample={"function": wname, "configurations": ncfg})


def rule_E(run, prog, f, tier):
    """block_distributed_range / _list / _array are interpreted (qv/feval.py) inside a declared parallel
    region at parallel level 1 for every process count and rank up to the bound: what rank r receives
    must be exactly the elements (or the (global index, element) pairs) of its block; over all ranks
    the pieces are pairwise disjoint and cover the input once."""
    from .. import feval
    from ..feval import Stub, Vec, Mat
    rid = "C20-E"
    maxsize, maxlen = (6, 13) if tier != "thorough" else (12, 30)
    ranges_f = {n_: prog.func(PAR + n_) for n_ in ("_calculate_ranges", "_calculate_ranges_list", "_calculate_ranges_array")}

    def interp(fn, args):
        return feval.Evaluator().call_function(fn.node, args)

    def make_env(cfg):
        env = {"Manager": lambda: mgr}
        mgr = Stub("Manager")
        mgr.methods = {"get_DistributedConfiguration": lambda: cfg}
        env["_calculate_ranges"] = lambda c, a, b: interp(ranges_f["_calculate_ranges"], {"config": c, "start": a, "stop": b})
        for nme in ("_calculate_ranges_list", "_calculate_ranges_array"):
            g = ranges_f[nme]
            p0, p1 = [a.arg for a in g.node.args.args]
            env[nme] = (lambda g, p0, p1: (lambda c, x: feval.Evaluator().call_function(
                g.node, {p0: c, p1: x, "_calculate_ranges": env["_calculate_ranges"]})))(g, p0, p1)
        return env
    cases = [("block_distributed_range", None), ("block_distributed_list", False), ("block_distributed_list", True),
             ("block_distributed_array", False), ("block_distributed_array", True)]
    for hname, with_index in cases:
        h = prog.func(PAR + hname)
        bad = []
        ncfg = 0
        for size in range(1, maxsize + 1):
            for ln in range(0, maxlen + 1):
                pieces = []
                for rank in range(size):
                    ncfg += 1
                    cfg = Stub("DistributedConfiguration", size=size, rank=rank, parallel_region=1, parallel_level=1)
                    env = make_env(cfg)
                    try:
                        if hname == "block_distributed_range":
                            env.update({"start": 2, "stop": 2 + ln})
                            got = list(feval.Evaluator().call_function(h.node, env))
                            want_universe = list(range(2, 2 + ln))
                        elif hname == "block_distributed_list":
                            data = [100 + k for k in range(ln)]
                            env.update({h.node.args.args[0].arg: data, "return_index": with_index})
                            got = list(feval.Evaluator().call_function(h.node, env))
                            want_universe = [(k, 100 + k) for k in range(ln)] if with_index else data
                        else:
                            data = Mat(Vec([100 + k, 200 + k]) for k in range(ln))
                            env.update({h.node.args.args[0].arg: data, "return_index": with_index})
                            got = list(feval.Evaluator().call_function(h.node, env))
                            got = [(g_[0], list(g_[1])[0]) if with_index else list(g_)[0] for g_ in got]
                            want_universe = [(k, 100 + k) for k in range(ln)] if with_index else [100 + k for k in range(ln)]
                    except feval.Unsupported as e:
                        raise AnalysisError("%s: outside the finite evaluator's vocabulary: %s" % (hname, e))
                    except feval.Raised as e:
                        bad.append((size, ln, rank, "raises %s" % e))
                        got = []
                    pieces.append(got)
                    blk = cfg.attrs.get("ranges")
                    if blk is not None and len(blk) == size:
                        lo, hi = blk[rank]
                        off = 2 if hname == "block_distributed_range" else 0
                        mine = want_universe[lo - off:hi - off]
                        if got != mine:
                            bad.append((size, ln, rank, "rank %d receives %s, its block %s holds %s" % (rank, got[:4], [lo, hi], mine[:4])))
                flat = [x for pc in pieces for x in pc]
                if sorted(flat, key=repr) != sorted(want_universe, key=repr) and not any(b[:2] == (size, ln) for b in bad):
                    bad.append((size, ln, -1, "the pieces of all ranks together are %d items, the input has %d"
                                % (len(flat), len(want_universe))))
        run.obligation(rid, "parallel.%s%s" % (hname, "" if with_index is None else "[return_index=%s]" % with_index),
                       not bad, key="finite:size<=%d,len<=%d" % (maxsize, maxlen),
                       message="%s does not hand every rank exactly its block on %d of %d (size, length, rank) "
                               "configurations; first: size=%s length=%s rank=%s: %s"
                               % ((hname, len(bad), ncfg) + (bad[0] if bad else ("",) * 4)),
                       loc=h.loc(), sample={"helper": hname, "return_index": with_index, "configurations": ncfg})


def rule_A(run, prog, f):
    rid = "C20-A"
    uses = [n for n in walk_no_nested(f.node) if isinstance(n, ast.Name) and n.id == "start"
            and isinstance(n.ctx, ast.Load)]
    inloop = [n for lp in walk_no_nested(f.node) if isinstance(lp, ast.For)
              for n in ast.walk(lp) if isinstance(n, ast.Name) and n.id == "start"]
    run.obligation(rid, "parallel._calculate_ranges", bool(inloop), key="start-used",
                   message="the per-rank block boundaries are not data-dependent on 'start' "
                           "(ranges not starting at zero are handed out as [0, stop-start))", loc=f.loc(),
                   sample={"uses_of_start": len(uses), "inside_rank_loop": len(inloop)})
    for name in ("_calculate_ranges_list", "_calculate_ranges_array"):
        g = prog.func(PAR + name)
        st = [norm(s) for s in g.node.body]
        ok = "start = 0" in st and "return _calculate_ranges(config, start, stop)" in st and \
            any(s in st for s in ("stop = ln",))
        run.obligation(rid, "parallel." + name, ok, key="wrapper",
                       message="list/array wrappers must distribute range(0, len)", loc=g.loc())


def rule_B(run, prog, f):
    rid = "C20-B"
    loops = [n for n in f.node.body if isinstance(n, ast.For)]
    if len(loops) != 1 or norm(loops[0].iter) != "range(config.size)":
        raise AnalysisError("_calculate_ranges: loop over ranks not found")
    lp = loops[0]
    pre = {norm(s) for s in f.node.body}
    ok = "whole_range = stop - start" in pre and "per_worker = whole_range // config.size" in pre and \
        "remainder = whole_range % config.size" in pre
    run.obligation(rid, "parallel._calculate_ranges", ok, key="quotient-remainder",
                   message="block size and remainder must be (stop-start) // size and (stop-start) % size",
                   loc=f.loc(), sample={"definitions": sorted(x for x in pre if "whole_range" in x)})
    # the decision structure: tests only compare rank with remainder / 0
    tests = [n.test for n in ast.walk(lp) if isinstance(n, ast.If)]
    for t in tests:
        names = {n.id for n in ast.walk(t) if isinstance(n, ast.Name)}
        if not names <= {lp.target.id, "remainder"}:
            raise AnalysisError("_calculate_ranges: unexpected decision %s" % norm(t))
    r, q, rem, st, size = (Expr.factor(x) for x in ("rank", "q", "rem", "start", "size"))

    # ordering classes of (rank, remainder): the decisions only compare rank with 0 and with the
    # remainder, so these five classes are all the decision structure can distinguish
    REP = {"Z0": (0, 0), "Z+": (0, 3), "L": (1, 3), "E": (3, 3), "H": (5, 3)}

    def run_case(case):
        rv, mv = REP[case]

        def oracle(it, test, env):
            def val(n):
                if isinstance(n, ast.Name):
                    if n.id == lp.target.id:
                        return rv
                    if n.id == "remainder":
                        return mv
                if isinstance(n, ast.Constant):
                    return n.value
                raise AnalysisError("decision outside vocabulary: %s" % norm(test))
            if isinstance(test, ast.Compare) and len(test.ops) == 1:
                x, y = val(test.left), val(test.comparators[0])
                op = type(test.ops[0])
                return {ast.LtE: x <= y, ast.Lt: x < y, ast.GtE: x >= y, ast.Gt: x > y,
                        ast.Eq: x == y, ast.NotEq: x != y}[op]
            if isinstance(test, ast.BoolOp):
                vs = [oracle(it, v, env) for v in test.values]
                return all(vs) if isinstance(test.op, ast.And) else any(vs)
            return None
        env = {lp.target.id: r, "per_worker": q, "remainder": rem, "start": st,
               "config": Obj("config"), "ranges": None}
        it = Interp(prog, lenient=True, branch_oracle=oracle)
        it.stack.append(f)
        it.exec_body(lp.body, env)
        it.stack.pop()
        apps = [n for n in ast.walk(lp) if isinstance(n, ast.Call) and call_name(n) == "append"]
        if len(apps) != 2:
            raise AnalysisError("_calculate_ranges: block must be built by two appends")
        n1 = env.get(norm(apps[0].args[0]))
        n2 = env.get(norm(apps[1].args[0]))
        if not isinstance(n1, Expr) or not isinstance(n2, Expr):
            raise AnalysisError("_calculate_ranges: block boundaries not affine (%r, %r)" % (n1, n2))
        return n1, n2
    N = {c: run_case(c) for c in REP}
    sample = {c: [show_normal(normal(N[c][0])), show_normal(normal(N[c][1]))] for c in REP}

    def ob(key, expr, msg):
        nf = normal(expr)
        run.obligation(rid, "parallel._calculate_ranges", not nf, key=key,
                       message="%s; residue %s" % (msg, show_normal(nf, 3)), loc=f.loc(lp),
                       sample={"identity": key, "summary": sample})

    def fix(e, **kw):
        for k, v in kw.items():
            e = e.subst_scalar(k, v)
        return e
    ob("first-block:Z0", fix(N["Z0"][0], rank=0, rem=0) - st, "first block does not begin at start (rem = 0)")
    ob("first-block:Z+", fix(N["Z+"][0], rank=0) - st, "first block does not begin at start (rem > 0)")
    # contiguity N2(r) = N1(r+1) for every feasible transition of classes
    ob("contiguous:Z0->H", fix(N["Z0"][1], rank=0, rem=0) - fix(N["H"][0], rank=1, rem=0), "rank 0 -> 1 with rem = 0")
    ob("contiguous:Z+->L", fix(N["Z+"][1], rank=0) - fix(N["L"][0], rank=1), "rank 0 -> 1 with rem > 1")
    ob("contiguous:Z+->E", fix(N["Z+"][1], rank=0, rem=1) - fix(N["E"][0], rank=1, rem=1), "rank 0 -> 1 with rem = 1")
    ob("contiguous:L->L", N["L"][1] - fix(N["L"][0], rank=r + 1), "consecutive ranks below the remainder")
    ob("contiguous:L->E", fix(N["L"][1], rank=rem - 1) - fix(N["E"][0], rank=rem), "rank rem-1 -> rem")
    ob("contiguous:E->H", fix(N["E"][1], rank=rem) - fix(N["H"][0], rank=rem + 1), "rank rem -> rem+1")
    ob("contiguous:H->H", N["H"][1] - fix(N["H"][0], rank=r + 1), "consecutive ranks above the remainder")
    stop = st + q * size + rem
    ob("end:H", fix(N["H"][1], rank=size - 1) - stop, "last block does not end at stop (size-1 > rem)")
    ob("end:E", fix(fix(N["E"][1], rank=size - 1) - stop, rem=size - 1), "last block does not end at stop (size-1 = rem)")
    ob("end:Z0", fix(fix(N["Z0"][1], rank=0) - stop, size=1, rem=0), "a single process does not get the whole range")
    for c in REP:
        d = N[c][1] - N[c][0]
        if c in ("Z0",):
            d = fix(d, rank=0, rem=0)
        if c == "Z+":
            d = fix(d, rank=0)
        if c == "E":
            d = fix(d, rank=rem)
        okq = not normal(d - q)
        okq1 = not normal(d - q - 1)
        run.obligation(rid, "parallel._calculate_ranges", okq or okq1, key="size:" + c,
                       message="block size in class %s is neither q nor q+1: %s" % (c, show_normal(normal(d))),
                       loc=f.loc(lp), sample={"class": c, "size": "q" if okq else "q+1"})
    # result handed back
    rets = [n for n in f.node.body if isinstance(n, ast.Return)]
    ok = len(rets) == 1 and norm(rets[0].value) == "ranges[config.rank]"
    run.obligation(rid, "parallel._calculate_ranges", ok, key="own-block",
                   message="each process must receive the block of its own rank", loc=f.loc())
    g = prog.func(PAR + "block_distributed_range")
    st_ = [norm(s) for s in ast.walk(g.node) if isinstance(s, ast.stmt)]
    ok = "rng = _calculate_ranges(config, start, stop)" in st_ and "return range(rng[0], rng[1])" in st_ \
        and "return range(start, stop)" in st_
    run.obligation(rid, "parallel.block_distributed_range", ok, key="iterator",
                   message="the iterator must be range(N1, N2) of the computed block, or the whole range "
                           "outside parallel level 1", loc=g.loc())


def rule_C(run, prog):
    rid = "C20-C"
    sites = [("quantarhei.qm.liouvillespace.redfieldtensor.RedfieldRelaxationTensor._implementation", "Lm"),
             ("quantarhei.qm.liouvillespace.redfieldtensor.RedfieldRelaxationTensor._convert_operators_2_tensor", "RR"),
             ("quantarhei.implementations.python.redfieldrates.ssRedfieldRateMatrix", "RR")]
    for q, arr in sites:
        f = prog.func(q)
        prog.consulted.add(f.relpath)
        body = f.node.body
        idx = {"start": None, "loop": None, "reduce": None, "close": None}
        for k, s in enumerate(body):
            if isinstance(s, ast.Expr) and isinstance(s.value, ast.Call):
                nm = call_name(s.value)
                if nm == "start_parallel_region" and idx["start"] is None:
                    idx["start"] = k
                if nm == "close_parallel_region":
                    idx["close"] = k
                if nm == "allreduce":
                    a = s.value
                    if a.args and norm(a.args[0]) == arr and \
                            any(kw.arg == "operation" and norm(kw.value) == "'sum'" for kw in a.keywords):
                        idx["reduce"] = k
            if isinstance(s, ast.For) and isinstance(s.iter, ast.Call) and call_name(s.iter) == "block_distributed_range":
                idx["loop"] = k
                lp = s
        ok = all(v is not None for v in idx.values()) and idx["start"] < idx["loop"] < idx["reduce"] < idx["close"]
        run.obligation(rid, f.short, ok, key="region-order",
                       message="distributed loop, sum-reduction of %s and region close must follow "
                               "start_parallel_region in this order (found %s)" % (arr, idx), loc=f.loc(),
                       sample={"site": f.short, "array": arr, "order": idx})
        if not ok:
            continue
        # inside the distributed loop the array is only accumulated (directly or in a callee that accumulates)
        bad = []
        for n in ast.walk(lp):
            if isinstance(n, ast.Assign):
                for t in n.targets:
                    if isinstance(t, ast.Subscript) and norm(t.value) == arr:
                        bad.append(norm(n)[:60])
        acc = [n for n in ast.walk(lp) if isinstance(n, ast.AugAssign) and isinstance(n.target, ast.Subscript)
               and norm(n.target.value) == arr and isinstance(n.op, ast.Add)]
        via = []
        for c in [n for n in ast.walk(lp) if isinstance(n, ast.Call)]:
            if any(isinstance(a, ast.Name) and a.id == arr for a in c.args):
                for t in prog.resolve_call(f, c, may=False):
                    ps = [a.arg for a in t.node.args.args]
                    if t.cls is not None:
                        ps = ps[1:]
                    pos = [k for k, a in enumerate(c.args) if isinstance(a, ast.Name) and a.id == arr]
                    pn = ps[pos[0]] if pos and pos[0] < len(ps) else None
                    stores = [n for n in ast.walk(t.node) if isinstance(n, (ast.Assign, ast.AugAssign))
                              and isinstance(n.targets[0] if isinstance(n, ast.Assign) else n.target, ast.Subscript)
                              and norm((n.targets[0] if isinstance(n, ast.Assign) else n.target).value) == pn]
                    if stores and all(isinstance(n, ast.AugAssign) and isinstance(n.op, (ast.Add, ast.Sub)) for n in stores):
                        via.append(t.short)
                    elif stores:
                        bad.append("plain store in %s" % t.short)
        run.obligation(rid, f.short, not bad and bool(acc or via), key="accumulate-only",
                       message="inside the distributed loop %s must only be accumulated (+=): %s" % (arr, bad),
                       loc=f.loc(lp), sample={"site": f.short, "accumulated_in": [norm(a)[:50] for a in acc] + via})
        # nothing else leaves the distributed loop unreduced: every array that receives a store inside the loop (directly
        # or in a callee it is handed to) and is used after the loop must be sum-reduced between loop and region close
        written = set()
        for n in ast.walk(lp):
            tg = n.targets if isinstance(n, ast.Assign) else ([n.target] if isinstance(n, ast.AugAssign) else [])
            for t in tg:
                b = t
                sub = False
                while isinstance(b, ast.Subscript):
                    b, sub = b.value, True
                if sub and isinstance(b, ast.Name):
                    written.add(b.id)
            if isinstance(n, ast.Call):
                for t in prog.resolve_call(f, n, may=False):
                    ps = [a.arg for a in t.node.args.args]
                    if t.cls is not None:
                        ps = ps[1:]
                    stored = set()
                    for m_ in ast.walk(t.node):
                        tg2 = m_.targets if isinstance(m_, ast.Assign) else ([m_.target] if isinstance(m_, ast.AugAssign) else [])
                        for t2 in tg2:
                            b2 = t2
                            while isinstance(b2, ast.Subscript):
                                b2 = b2.value
                            if isinstance(b2, ast.Name) and isinstance(t2, ast.Subscript):
                                stored.add(b2.id)
                    for k, a in enumerate(n.args):
                        if isinstance(a, ast.Name) and k < len(ps) and ps[k] in stored:
                            written.add(a.id)
        reduced = {norm(s.value.args[0]) for s in body[idx["loop"] + 1:idx["close"]] if isinstance(s, ast.Expr)
                   and isinstance(s.value, ast.Call) and call_name(s.value) == "allreduce" and s.value.args}
        used_after = {x.id for s in body[idx["loop"] + 1:] for x in ast.walk(s) if isinstance(x, ast.Name)
                      and isinstance(x.ctx, ast.Load)}
        loopvars = {x.id for x in ast.walk(lp.target) if isinstance(x, ast.Name)}
        unreduced = sorted((written & used_after) - reduced - loopvars)
        run.obligation(rid, f.short, not unreduced, key="all-reduced",
                       message="%s is filled inside the distributed loop - every process fills only its own block - and is "
                               "used after the loop without a sum-reduction: on more than one process the other blocks "
                               "stay as allocated" % unreduced, loc=f.loc(lp),
                       sample={"site": f.short, "written_in_loop": sorted(written), "reduced": sorted(reduced)})
        # zero before the region: allocated with zeros in this function, or a parameter documented as zero
        alloc = [s for s in body[:idx["start"]] if isinstance(s, ast.Assign) and norm(s.targets[0]) == arr
                 and isinstance(s.value, ast.Call) and call_name(s.value) == "zeros"]
        is_param = arr in [a.arg for a in f.node.args.args]
        run.obligation(rid, f.short, bool(alloc) or is_param, key="zero-before",
                       message="%s must be a fresh zero array (or a caller-provided accumulator) before the "
                               "region" % arr, loc=f.loc(), sample={"site": f.short, "fresh_zeros": bool(alloc),
                                                                    "parameter": is_param})


def rule_G(run, prog):
    """'... so that sum-reduced results equal the serial result': the block helpers divide the range among the processes
    only when config.parallel_level == 1; in a nested region every process gets the whole range.  A reduction must then do
    nothing: summing over the processes what every process has computed in full multiplies it by the number of processes.
    So in each reduction of DistributedConfiguration the first collective call is dominated by an early return whose test
    is exactly `self.parallel_level != 1` (the negation of the helpers' condition); any other state flag (inparallel, which
    stays set at every depth) is a different condition."""
    rid = "C20-G"
    cls = prog.cls("quantarhei.core.parallel.DistributedConfiguration")
    n = 0
    for nme in ("reduce", "allreduce"):
        f = cls.methods[nme]
        prog.consulted.add(f.relpath)
        coll = [x for x in walk_no_nested(f.node) if isinstance(x, ast.Call) and isinstance(x.func, ast.Attribute)
                and x.func.attr in ("Reduce", "Allreduce", "reduce", "allreduce") and norm(x.func.value) == "self.comm"]
        if not coll:
            raise AnalysisError("%s: collective call not found" % f.short)
        n += 1
        guards = [st for st in f.node.body if isinstance(st, ast.If) and len(st.body) == 1 and isinstance(st.body[0], ast.Return)
                  and not st.orelse and st.lineno < coll[0].lineno]
        tests = [norm(g.test).replace(" ", "") for g in guards]
        ok = "self.parallel_level!=1" in tests and len(tests) == 1
        run.obligation(rid, f.short, ok, key="acts-where-work-was-divided",
                       message="%s passes through under %s; the helpers divide the work exactly when parallel_level == 1: under any "
                               "other condition a nested region sums results every process computed in full (times the number of "
                               "processes), or skips the sum of divided work" % (f.short, tests or "no condition"),
                       loc=f.loc(guards[0] if guards else coll[0]), sample={"early_returns": tests})
    # the helpers' own condition
    for nme in ("block_distributed_range", "block_distributed_list", "block_distributed_array"):
        h = prog.func("quantarhei.core.parallel." + nme)
        top = [x for x in h.node.body if isinstance(x, ast.If) and "parallel_level" in norm(x.test)]
        ok = len(top) == 1 and norm(top[0].test).replace(" ", "") == "config.parallel_level==1"
        run.obligation(rid, nme, ok, key="divides-at-level-1", message="%s no longer divides the work exactly at parallel_level == 1" % nme,
                       loc=h.loc(top[0] if top else h.node))
