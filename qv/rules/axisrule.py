"""One record per axis (shared by C13-G and C17-H): see qv/axisrec.py."""
from ..loader import AnalysisError
from .. import axisrec

AXES = ("quantarhei.core.valueaxis.ValueAxis", "quantarhei.core.time.TimeAxis", "quantarhei.core.frequency.FrequencyAxis")


def check(run, prog, rid, what):
    classes = [prog.cls(q) for q in AXES]
    getters = axisrec.start_getters(prog, classes)
    n = decided = 0
    for cls in classes:
        for f, w in axisrec.writers(cls):
            prog.consulted.add(f.relpath)
            res = axisrec.check_method(f, getters)
            for i, (node, verdict, detail) in enumerate(res):
                n += 1
                decided += verdict != "undecided"
                run.obligation(rid, f.short, verdict != "broken", key="exit%d" % i,
                               message="%s changes %s of the axis, and %s: the array of points and the (start, step, length) "
                                       "description no longer describe the same axis (%s)" % (f.short, " and ".join(sorted(w)), detail, what),
                               loc=f.loc(node if node is not None else f.node),
                               sample={"writes": sorted(w), "verdict": verdict, "state": detail})
    if decided < 2:
        raise AnalysisError("%s: only %d exits of axis-changing methods decided (TimeAxis.shift_to_zero has two)" % (rid, decided))
    return n
