"""C02 - propagated density matrices stay valid states and follow the generator.

Decided statically: every propagation routine is the order-L Taylor scheme
around its generator (recogniser, C02-A); every generator term is trace-free
and Hermiticity-preserving as an identity in its inputs (TA, C02-B); the
Lindblad tensor is the GKSL generator term by term (C02-C); rotating-wave
bookkeeping (C02-D); no in-place update of the caller's state (C02-E).
Not decided: positivity of the truncated expansion, truncation error sizes.
"""
import ast

from ..loader import AnalysisError, norm, walk_no_nested, call_name, parents_map, protocol_body
from .. import ta
from ..ta import Expr, Array, Facts, normal, show_normal, a_dot, a_transpose, a_conj
from ..ta_front import Interp, Obj, Index
from . import taylor, tensors
from .tensors import LS

RDM = "quantarhei.qm.propagators.rdmpropagator.ReducedDensityMatrixPropagator"
SV = "quantarhei.qm.propagators.svpropagator.StateVectorPropagator"


def _nonherm(value):
    def oracle(it, test, env):
        if norm(test) == "has_NonHerm":
            return value
        return None
    return oracle


def _oti_env(prog, func, loop):
    """For routines calling _OTI: verify by def-use that the Kd argument is
    the transposed Km argument and that Lm/Ld come from the same tensor
    object; returns an extra_env builder binding the four names."""
    calls = [n for n in ast.walk(loop) if isinstance(n, ast.Call) and call_name(n) == "_OTI"]
    if not calls:
        return None, []
    c = calls[0]
    names = [norm(a) for a in c.args]
    km, kd, lm, ld = names[1:5]
    notes = []
    # Kd = transpose(Km) by the filling loop
    fill = None
    for n in walk_no_nested(func.node):
        if isinstance(n, ast.For) and any(isinstance(s, ast.Assign) and isinstance(s.targets[0], ast.Subscript)
                                          and norm(s.targets[0].value) == kd for s in n.body):
            fill = n
    if fill is None:
        raise AnalysisError("%s: no loop filling %s found" % (func.short, kd))
    # the generator K rho Ld + Lm rho K+ - K+ Lm rho - rho Ld K is the Redfield / Lindblad one only with the Hermitian
    # conjugate K+: the operators are complex in the eigenbasis of a complex Hermitian operator, where the plain
    # transpose is not the conjugate (it is for real operators only)
    K = Array.opaque("A:" + km, 3)
    Kd = Array.zeros(3, name=kd)
    it = Interp(prog, lenient=False)
    it.stack.append(func)
    it.exec_body([fill], {km: K, kd: Kd})
    it.stack.pop()
    d = Kd.at("m", "i", "j") - K.at("m", "j", "i").conj()
    if normal(d):
        return ("kd", "the array passed to _OTI as Kd is not the Hermitian conjugate of the one passed as Km: %s"
                % "; ".join(show_normal(normal(Kd.at("m", "i", "j")), 3))), []
    alloc = [n for n in walk_no_nested(func.node) if isinstance(n, ast.Assign) and norm(n.targets[0]) == kd
             and isinstance(n.value, ast.Call) and call_name(n.value) in ("zeros", "zeros_like", "empty")]
    for a_ in alloc:
        dt = [norm(k_.value) for k_ in a_.value.keywords if k_.arg == "dtype"]
        if call_name(a_.value) != "zeros_like" and dt and dt[0] in ("numpy.float64", "REAL", "float", "qr.REAL", "numpy.double"):
            return ("kd", "the array passed to _OTI as Kd is allocated with the real element type %s: the imaginary parts of the "
                          "conjugated operators are dropped" % dt[0]), []
    # Lm / Ld from the same tensor object
    src = {}
    for n in walk_no_nested(func.node):
        if isinstance(n, ast.Assign) and isinstance(n.targets[0], ast.Name) and n.targets[0].id in (lm, ld, km):
            v = n.value
            sub = ""
            if isinstance(v, ast.Subscript):
                sub = norm(v.slice)
                v = v.value
            src[n.targets[0].id] = (norm(v), sub)
    ok = lm in src and ld in src and src[lm][0].endswith(".Lm") and src[ld][0].endswith(".Ld") \
        and src[lm][0][:-3] == src[ld][0][:-3] and src[lm][1] == src[ld][1] \
        and km in src and src[km][0] == src[lm][0][:-3] + ".Km"
    if not ok:
        return ("lm-ld", "the arrays passed to _OTI as Km/Lm/Ld are not the Km/Lm/Ld attributes of one "
                         "tensor object taken at the same index: %s" % src), []

    def extra_env(selfo):
        Km_ = Array.opaque("A:" + km, 3)
        Lm_ = Array.opaque("A:" + lm, 3)
        return {km: Km_, kd: Array.from_fn(3, lambda m, i, j: Km_.at(m, j, i)),
                lm: Lm_, ld: Array.from_fn(3, lambda m, i, j: Lm_.at(m, j, i).conj())}
    return extra_env, ["A:" + km]


def routine_obligations(run, rid_a, rid_b, prog, f):
    """Taylor-scheme and generator obligations for one propagation routine of rdmpropagator.py;
    returns the number of expansion loops recognised (also used by C07 for the two routines whose
    agreement it claims)."""
    loops = taylor.find_taylor_loops(prog, f)
    if not loops:
        return 0
    nloops = 0
    extra_env = None
    realnames = []
    bad = None
    r = _oti_env(prog, f, loops[0])
    if r[0] is not None:
        if isinstance(r[0], tuple):
            bad = r[0]
        else:
            extra_env, realnames = r
    if bad is not None:
        run.obligation(rid_b, f.short, False, key="oti-" + bad[0], message=bad[1], loc=f.loc())
        return 1
    for nh in (False, True):
        uses_nh = any(isinstance(n, ast.keyword) and n.arg == "has_NonHerm" for n in ast.walk(f.node))
        if nh and not uses_nh:
            continue
        res = taylor.analyse(run, rid_a, prog, f, 2, branch_oracle=_nonherm(nh),
                             expect_sources=("A:IR",), extra_env=extra_env)
        for x in res:
            nloops += 1
            if x.get("failed"):
                continue
            _step_rule(run, prog, f, x, rid=rid_a)
            _generator_rule(run, f, x, nh, realnames, rid=rid_b)
    return nloops


def check(run, prog, tier):
    run.explanation = (
        "Taylor-step recogniser on every propagation routine of rdmpropagator.py and "
        "svpropagator.py (one iteration of each expansion loop is interpreted with the index "
        "algebra: linearity in the iterate, the factor dt/ll, accumulation, restart, loop nesting, "
        "storage), TA identities showing every generator term is trace-free and maps Hermitian to "
        "Hermitian, TA identity Lindblad tensor = GKSL generator, rotating-wave flag pairing and an "
        "ownership rule on the caller's initial state. Decides the structure of the integrator and "
        "of the generator for all inputs; does not decide truncation error or positivity of the "
        "truncated series.")
    run.trusted_base = ["helper parameter ranks of _COM/_TTI/_OTI (qv/rules/taylor.py HELPER_RANKS)",
                        "C01: stored relaxation tensors are trace-free and Hermiticity-preserving "
                        "(used as facts about RR); Ld = Lm^+ for stored operator forms"]
    run.rule("C02-A", "every propagation routine is the order-L Taylor scheme with step dt/ll", minimum=80)
    run.rule("C02-B", "generator terms are trace-free and Hermiticity-preserving (TA)", minimum=20)
    run.rule("C02-C", "Lindblad tensor equals the GKSL generator (TA)", minimum=1)
    run.rule("C02-D", "rotating-wave bookkeeping", minimum=10)
    run.rule("C02-E", "no in-place update of the caller's state", minimum=14)
    run.rule("C02-G", "the Hamiltonian matrix is read through its basis-managed property by the routine that uses it "
                      "(no representation kept on the propagator between calls)", minimum=2)
    run.rule("C02-F", "pure-dephasing factors are derived from the time step in force (derived-state "
                      "freshness)", minimum=2)

    run.rule("C02-H", "the propagators read the Hamiltonian (and the rotating-wave data derived from it) under "
                      "internal units", minimum=20)
    from . import intunits
    intunits.check_classes(run, prog, "C02-H", [RDM, SV, "quantarhei.qm.propagators.dmevolution.DensityMatrixEvolution",
                                                 "quantarhei.qm.propagators.statevectorevolution.StateVectorEvolution"], 22,
                           "the time step is in femtoseconds: the expansion diverges or follows a different generator")

    run.rule("C02-I", "every generator component the propagator reads under a flag was assigned on every constructor "
                      "path that sets the flag (constructor typestate; 'with and without pure dephasing' includes pure "
                      "dephasing without a relaxation tensor)", minimum=40)
    from .. import typestate
    typestate.check(run, "C02-I", prog, prog.cls(RDM), "propagate", "propagate()")

    run.rule("C02-J", "the requested expansion order reaches the routine that does the expansion: every routine that "
                      "receives L and hands over to another routine with an order parameter passes it on", minimum=3)
    from .. import apiexist
    nfw = 0
    for q in (RDM, SV):
        nfw += apiexist.check_option_forwarding(run, "C02-J", prog, prog.cls(q), names={"L"},
                                                what="every expansion order 2, 4, 6 is claimed")
    if nfw < 3:
        raise AnalysisError("C02-J: only %d delegations between routines with an order parameter found" % nfw)
    run.rule("C02-K", "the state stored for a grid time is the one at() hands out for that time (nearest grid point, not the "
                      "lower neighbour of a rounded quotient)", minimum=2)
    from . import handout
    for q, ctor in (("quantarhei.qm.propagators.dmevolution.DensityMatrixEvolution", "DensityMatrix"),
                    ("quantarhei.qm.propagators.dmevolution.ReducedDensityMatrixEvolution", "ReducedDensityMatrix")):
        handout.check_nearest(run, "C02-K", prog, prog.cls(q), "TimeAxis", ctor,
                              "the state read at a stored time is that of the previous step and deviates from the exact exponential")
    handout.check_axis_lookup(run, "C02-K", prog)
    run.rule("C02-M", "the rotating frame is undone at the times of the time axis: every phase factor of a conversion from or to "
                      "the frame takes its time from the axis' own points (which include its start)", minimum=3)
    rule_M(run, prog)
    run.rule("C02-N", "every comparison of a pure-dephasing type with a string names one of the types the class knows", minimum=8)
    rule_N(run, prog)
    run.rule("C02-O", "an evolution answers from the states it has stored: a state object handed to it at construction, whose "
                      "values were copied into the storage, is the caller's and is not read again for a result", minimum=1)
    rule_O(run, prog)
    run.rule("C02-S", "the tensor representation of an operator-form generator is computed in the basis in force: no raw storage of "
                      "the managed operators in a method that assigns the managed data (shared with C04-B14)", minimum=15)
    from . import c04
    from ..report import RuleProxy
    c04.rule_B14(RuleProxy(run, "C02-S"), prog, rid="C02-S")
    run.rule("C02-R", "the density matrix made of a state vector is |psi><psi|: the amplitude of the column index is the conjugated one", minimum=3)
    rule_R(run, prog)
    run.rule("C02-Q", "the Hamiltonian hands out its matrices (also the rotating-frame one) for the basis and units in force at the "
                      "call: nothing computed for an earlier propagation is kept", minimum=1)
    from . import memorule
    memorule.check(run, prog, "C02-Q", ["quantarhei.qm.hilbertspace.hamiltonian.Hamiltonian"],
                   "a propagation in another basis context then combines the old rotating-frame Hamiltonian with a transformed tensor and state")
    run.rule("C02-P", "the stored states are of degree one in the initial state in every propagation routine without a field (degree "
                      "analysis): no renormalisation of trace or norm, no clipping, no added constant between rho(0) and rho(t)", minimum=9)
    rule_P(run, prog)
    run.rule("C02-L", "what the propagated state is measured with is Hermitian: the scalar product of state vectors conjugates its "
                      "first vector; the eigenvector matrix of a Hamiltonian is inverted by its Hermitian conjugate", minimum=5)
    rule_L(run, prog)

    cls = prog.cls(RDM)
    nloops = 0
    routines = [f for name, f in cls.methods.items() if name.startswith("__propagate")]
    for f in routines:
        nloops += routine_obligations(run, "C02-A", "C02-B", prog, f)
    if nloops < 11:
        raise AnalysisError("only %d Taylor loops recognised in rdmpropagator (11 confirmed)" % nloops)
    svc = prog.cls(SV)
    nsv = 0
    for name, f in svc.methods.items():
        if "short_exp" in name:
            res = taylor.analyse(run, "C02-A", prog, f, 1)
            for x in res:
                nsv += 1
                if x.get("failed"):
                    continue
                _step_rule(run, prog, f, x)
                _sv_generator_rule(run, f, x)
    if nsv < 3:
        raise AnalysisError("only %d Taylor loops recognised in svpropagator (3 confirmed)" % nsv)
    _refinement_rule(run, prog)
    from .. import fresh, unitflow
    for q, holders in ((RDM, ("self.Hamiltonian", "Ham", "ham")), (SV, ("self.ham", "ham", "Ham"))):
        pc = prog.cls(q)
        cached = [x for x in unitflow.cached_managed_reads(prog, pc, managed=("data",), holders=holders) if x[3]]
        # get_RWA_data() results kept on self count as well
        for f_ in pc.methods.values():
            for n_ in walk_no_nested(f_.node):
                if isinstance(n_, ast.Assign) and isinstance(n_.value, ast.Call) and call_name(n_.value) == "get_RWA_data":
                    for t_ in n_.targets:
                        if isinstance(t_, ast.Attribute) and norm(t_.value) == "self":
                            cached.append((t_.attr, f_, n_, ["(any later call)"]))
        run.obligation("C02-G", pc.name, not cached, key="no-cached-representation",
                       message="%s keeps a representation of the Hamiltonian on itself: %s; the managed property returns "
                               "the matrix in the basis current at that moment, a later propagation in another basis "
                               "context pairs it with a state in a different basis" % (
                                   pc.name, ["self.%s = %s (in %s, used in %s)" % (a, norm(n.value)[:40], sf.short.split(".")[-1],
                                                                                 [getattr(l, "short", l).split(".")[-1] for l in ld][:3])
                                             for a, sf, n, ld in cached[:3]]),
                       loc=cached[0][1].loc(cached[0][2]) if cached else pc.module.relpath,
                       sample={"class": pc.name, "holders": list(holders)})
    r = fresh.check(run, "C02-F", prog, cls, "_BOOT_DEPH", "pure dephasing")
    if "dt" not in r["inputs"] or not r["derived"]:
        raise AnalysisError("_BOOT_DEPH no longer derives its factors from self.dt: %s" % r)
    rule_C(run, prog)
    rule_D(run, prog, routines + [f for n, f in svc.methods.items() if "short_exp" in n])
    rule_E(run, prog, routines + [f for n, f in svc.methods.items() if "short_exp" in n])
    run.rule("C02-T", "'agree with the Lindblad generator' of the operators that were submitted: the array in which the system-bath "
                      "interaction collects its operators can hold every one of them - it is allocated with a fixed floating element "
                      "type (or the default), never with an element type taken from one of the inputs (an integer first operator "
                      "would truncate all later ones on assignment)", minimum=1)
    rule_T(run, prog)


def rule_T(run, prog):
    """All methods of SystemBathInteraction: `self.X = numpy.zeros/empty/ones(..., dtype=E)` where self.X is then filled by
    subscripted stores: E is not a local of the method (a value computed from the arguments) and is not an attribute of one of
    the inputs (`.dtype`)."""
    rid = "C02-T"
    cls = prog.cls("quantarhei.qm.liouvillespace.systembathinteraction.SystemBathInteraction")
    n = 0
    for name, f in sorted(cls.methods.items()):
        if not isinstance(f.node, ast.FunctionDef):
            continue
        locals_ = {t_.id for x in walk_no_nested(f.node) if isinstance(x, ast.Assign) for t_ in x.targets if isinstance(t_, ast.Name)}
        locals_ |= {a_.arg for a_ in f.node.args.args}
        filled = {norm(t_.value) for x in walk_no_nested(f.node) if isinstance(x, (ast.Assign, ast.AugAssign))
                  for t_ in (x.targets if isinstance(x, ast.Assign) else [x.target]) if isinstance(t_, ast.Subscript)}
        for x in walk_no_nested(f.node):
            if not (isinstance(x, ast.Assign) and isinstance(x.value, ast.Call) and call_name(x.value) in ("zeros", "empty", "ones", "full")):
                continue
            tg = [norm(t_) for t_ in x.targets if norm(t_).startswith("self.")]
            if not tg or tg[0] not in filled:
                continue
            n += 1
            prog.consulted.add(f.relpath)
            dt = [k.value for k in x.value.keywords if k.arg == "dtype"]
            bad = None
            if dt:
                names = {y.id for y in ast.walk(dt[0]) if isinstance(y, ast.Name)}
                if names & locals_:
                    bad = "`%s` is computed in the method from its inputs" % norm(dt[0])
                elif any(isinstance(y, ast.Attribute) and y.attr == "dtype" for y in ast.walk(dt[0])):
                    bad = "`%s` is the element type of one input" % norm(dt[0])
            run.obligation(rid, f.short, bad is None, key="element-type:" + tg[0],
                           message="%s allocates %s with an element type that depends on what was submitted (%s): operators "
                                   "assigned into it later are converted to that type (integers truncate), and the generator is "
                                   "that of other operators than the submitted ones" % (f.short, tg[0], bad),
                           loc=f.loc(x), sample={"method": f.short, "array": tg[0], "dtype": norm(dt[0]) if dt else "default"})
    if n < 1:
        raise AnalysisError("C02-T: SystemBathInteraction no longer allocates an array that it fills operator by operator")


# ----------------------------------------------------------------------
def _step_rule(run, prog, f, x, rid="C02-A"):
    """the step used is the refined step"""
    ok = True
    detail = []
    for s in x["steps"]:
        if s == "self.dt":
            detail.append("self.dt")
            continue
        # local dt: must be defined as <bath step> * stride
        defs = [n for n in walk_no_nested(f.node) if isinstance(n, ast.Assign)
                and norm(n.targets[0]) == s]
        good = len(defs) == 1 and norm(defs[0].value) in ("sysstep * stride", "stride * sysstep")
        strides = [n for n in walk_no_nested(f.node) if isinstance(n, ast.Assign)
                   and norm(n.targets[0]) == "stride"]
        good = good and len(strides) == 1 and norm(strides[0].value) == "Nref_max // Nref_req"
        ok = ok and good
        detail.append("%s := %s" % (s, norm(defs[0].value) if defs else "?"))
    ok = ok and len(x["steps"]) == 1
    run.obligation(rid, x["construct"], ok, key="step",
                   message="the step of the expansion must be the refined step (self.dt, or "
                           "dt = sysstep*stride with stride = Nref_max//Nref_req); found %s" % detail,
                   loc=f.loc(x["loop"]), sample={"loop": x["construct"], "step": detail})


def _refinement_rule(run, prog):
    f = prog.func(RDM + ".setDtRefinement")
    body = {norm(s) for s in f.node.body}
    ok = "self.Nref = Nref" in body and ("self.dt = self.Odt / self.Nref" in body or
                                         "self.dt = self.Odt / Nref" in body)
    run.obligation("C02-A", "ReducedDensityMatrixPropagator.setDtRefinement", ok, key="refined-step",
                   message="setDtRefinement must set Nref and dt = Odt/Nref", loc=f.loc(),
                   sample={"statements": sorted(body)[:4]})


def _linear_part(y, xname):
    return Expr([t for t in y.terms if any(f.name == xname for f in t.factors)])


def _generator_rule(run, f, x, nonherm, realnames, rid="C02-B"):
    xname = "x:" + x["x1"]
    i0, i1 = x["idx"]
    y = _linear_part(x["y"], xname)
    names = y.names()
    herm = [xname] + [n for n in names if n.startswith("A:") and n[2:] in ("HH", "MuE", "hh")]
    if nonherm:
        herm = [xname] + [n for n in names if n.startswith("A:MuE")]
    rr = [n for n in names if n.startswith("A:RR")]
    facts = Facts(real=["dt", "ll", "L"] + realnames, hermitian=herm, superherm=rr, traceless4=rr)
    he = normal(y.conj() - y.subst({i0: "$s"}).subst({i1: i0}).subst({"$s": i1}), facts)
    tag = "nonherm" if nonherm else "herm"
    run.obligation(rid, x["construct"], not he, key="hermiticity-" + tag,
                   message="one expansion step does not map Hermitian to Hermitian "
                           "(facts %s); residue: %s" % (facts.describe(), "; ".join(show_normal(he, 3))),
                   loc=f.loc(x["loop"]),
                   sample={"loop": x["construct"], "identity": "G(rho)^+ = G(rho) for rho^+=rho",
                           "facts": facts.describe()})
    if not nonherm:
        tr = normal(y.subst({i1: i0}).sum_over(i0), facts)
        run.obligation(rid, x["construct"], not tr, key="trace",
                       message="one expansion step is not trace-free; residue: %s"
                       % "; ".join(show_normal(tr, 3)), loc=f.loc(x["loop"]),
                       sample={"loop": x["construct"], "identity": "tr G(rho) = 0"})
    if rr:
        run.assume("relaxation tensors handed to the propagator satisfy the C01 identities "
                   "(used as rewrite facts superherm/traceless4 on RR)")


def _sv_generator_rule(run, f, x):
    rid = "C02-B"
    xname = "x:" + x["x1"]
    (i0,) = x["idx"]
    y = x["y"]
    hn = [n for n in y.names() if n.startswith("A:")]
    facts = Facts(real=["dt", "ll", "L"], hermitian=hn)
    # norm conservation to first order: <psi|G psi> + <G psi|psi> = 0 for G = -i H dt/ll
    psi = Expr.factor(xname, (i0,))
    e = (psi.conj() * y + y.conj() * psi).sum_over(i0)
    nf = normal(e, facts)
    run.obligation(rid, x["construct"], not nf, key="anti-hermitian-generator",
                   message="state-vector generator is not anti-Hermitian (norm not conserved to first "
                           "order); residue: %s" % "; ".join(show_normal(nf, 3)), loc=f.loc(x["loop"]),
                   sample={"loop": x["construct"], "identity": "<psi|G psi> + c.c. = 0",
                           "G psi": show_normal(normal(y, facts), 2)})
    # same generator as the density-matrix commutator: y = -i (dt/ll) H psi
    H = hn[0] if len(hn) == 1 else None
    ok = False
    if H:
        exp = (Expr.const(ta.C(0, -1)) * Expr.factor("dt") * Expr.factor("ll", (), False, -1) *
               Expr.factor(H, (i0, "k")) * Expr.factor(xname, ("k",))).sum_over("k")
        ok = not normal(y - exp, facts)
    run.obligation(rid, x["construct"], ok, key="schroedinger",
                   message="state-vector step is not -i (dt/ll) H psi", loc=f.loc(x["loop"]),
                   sample={"loop": x["construct"], "identity": "G psi = -i (dt/ll) H psi"})


# ----------------------------------------------------------------------
def rule_C(run, prog):
    selfo, it = tensors.assemble(prog, LS + "lindbladform.LindbladForm", as_operators=False)
    RR = selfo.get("data")
    f = prog.find_method(prog.cls(LS + "lindbladform.LindbladForm"), "_implementation")
    facts = tensors.real_facts(it, extra_real=["KK", "rates"])
    rho = Array.opaque("rho", 2)
    act = (RR.at("a", "b", "c", "d") * rho.at("c", "d")).sum_over("c").sum_over("d")
    K = Array.from_fn(2, lambda i, j: Expr.factor("KK", ("m", i, j)))
    Kt = a_transpose(K)
    KtK = a_dot(Kt, K)
    half = Expr.const(ta.C(ta.Fraction(1, 2)))
    g = (a_dot(K, a_dot(rho, Kt)).at("a", "b") - half * a_dot(KtK, rho).at("a", "b")
         - half * a_dot(rho, KtK).at("a", "b")) * Expr.factor("rates", ("m",))
    g = g.sum_over("m")
    nf = normal(act - g, facts)
    run.obligation("C02-C", "LindbladForm._implementation->data", not nf, key="gksl",
                   message="the assembled Lindblad tensor is not sum_m gamma_m (K rho K^T - 1/2 {K^T K, rho}); "
                           "difference: %s" % "; ".join(show_normal(nf, 4)), loc=f.loc(),
                   sample={"identity": "R rho = sum_m gamma_m (K_m rho K_m^T - 1/2{K_m^T K_m, rho})",
                           "facts": facts.describe()})
    run.assume("GKSL form with gamma_m >= 0 gives a completely positive exact semigroup (textbook); "
               "positivity of the truncated series is not decided")


# ----------------------------------------------------------------------
def rule_D(run, prog, routines):
    rid = "C02-D"
    for f in routines:
        if not taylor.find_taylor_loops(prog, f):
            continue
        uses_direct = [n for n in walk_no_nested(f.node) if isinstance(n, ast.Call)
                       and call_name(n) == "get_RWA_data"]
        uses_init = [n for n in walk_no_nested(f.node) if isinstance(n, ast.Call)
                     and call_name(n) == "_INIT_RWA"]
        marks_direct = [n for n in walk_no_nested(f.node) if isinstance(n, ast.If)
                        and norm(n.test).endswith(".has_rwa")
                        and any(norm(s) == "pr.is_in_rwa = True" for s in n.body)]
        marks_close = [n for n in walk_no_nested(f.node) if isinstance(n, ast.Call)
                       and call_name(n) == "_CLOSE_RWA"]
        uses = bool(uses_direct or uses_init)
        # the mark must be a top-level statement of the routine (every exit passes it) and
        # be followed only by the return of the evolution object
        top = [s for s in f.node.body]
        mark_top = [s for s in top if (s in marks_direct) or
                    (isinstance(s, ast.Expr) and isinstance(s.value, ast.Call) and s.value in marks_close)]
        rets = [n for n in walk_no_nested(f.node) if isinstance(n, ast.Return) and n.value is not None
                and not isinstance(n.value, ast.Call)]
        ok = (not uses) or (len(mark_top) == 1 and len(rets) == 1 and top.index(mark_top[0]) < top.index(rets[0])
                            if rets and rets[0] in top else False)
        run.obligation(rid, f.short, ok, key="rwa-flag",
                       message="routine propagates with the rotating-wave Hamiltonian but does not mark "
                               "its result is_in_rwa on the path to its return", loc=f.loc(),
                       sample={"routine": f.short, "uses_rwa": uses,
                               "mark": "direct" if marks_direct else ("_CLOSE_RWA" if marks_close else None)})
    # helpers
    ini = prog.func(RDM + "._INIT_RWA")
    first = [s for s in ini.node.body if isinstance(s, ast.If)]
    ok = bool(first) and norm(first[0].test) == "self.Hamiltonian.has_rwa" and \
        [norm(s) for s in first[0].body] == ["HH = self.Hamiltonian.get_RWA_data()"] and \
        [norm(s) for s in first[0].orelse] == ["HH = self.Hamiltonian.data"]
    run.obligation(rid, "ReducedDensityMatrixPropagator._INIT_RWA", ok, key="init",
                   message="_INIT_RWA must select get_RWA_data() iff the Hamiltonian has RWA", loc=ini.loc())
    clo = prog.func(RDM + "._CLOSE_RWA")
    ifs = [s for s in clo.node.body if isinstance(s, ast.If)]
    ok = len(ifs) == 1 and norm(ifs[0].test) == "self.Hamiltonian.has_rwa" and \
        [norm(s) for s in ifs[0].body] == ["pr.is_in_rwa = True"]
    run.obligation(rid, "ReducedDensityMatrixPropagator._CLOSE_RWA", ok, key="close",
                   message="_CLOSE_RWA must mark the result iff the Hamiltonian has RWA", loc=clo.loc())
    # get_RWA_data = data - diag(skeleton)
    g = prog.func("quantarhei.qm.hilbertspace.hamiltonian.Hamiltonian.get_RWA_data")
    rets = [n for n in g.node.body if isinstance(n, ast.Return)]
    ok = len(rets) == 1 and norm(rets[0].value) == "self.data - numpy.diag(self.get_RWA_skeleton())"
    run.obligation(rid, "Hamiltonian.get_RWA_data", ok, key="rwa-data",
                   message="RWA Hamiltonian must be data minus the diagonal RWA skeleton", loc=g.loc())
    # convert_from_RWA: rho_t -> U rho U^+ with U diagonal of unit-modulus phases
    cf = prog.func("quantarhei.qm.propagators.dmevolution.DensityMatrixEvolution.convert_from_RWA")
    loops = [n for n in walk_no_nested(cf.node) if isinstance(n, ast.For)]
    if len(loops) != 1:
        raise AnalysisError("convert_from_RWA: expected one loop over times")
    lp = loops[0]
    if norm(lp.iter) != "enumerate(self.TimeAxis.data)" or not isinstance(lp.target, ast.Tuple):
        raise AnalysisError("convert_from_RWA: loop not over enumerate(self.TimeAxis.data)")
    iname, tname = [e.id for e in lp.target.elts]
    data = Array.opaque("D", 3)
    selfo = Obj("self", attrs={"_data": data}, alias={"data": "_data"})
    w = Array.opaque("w", 1)
    it = Interp(prog, lenient=False)
    it.stack.append(cf)
    env = {"self": selfo, "HOmega": w, iname: Index("i"), tname: Expr.factor("t"),
           "sgn": Expr.factor("sgn")}
    it.loops = []
    it.exec_body(lp.body, env)
    it.stack.pop()
    new = selfo.get("data")
    unit = []
    for nm, (fn, arg, idx) in it.fn_args.items():
        if fn == "exp":
            argt = arg.template if isinstance(arg, Array) else arg
            if not normal(argt.conj() + argt, Facts(real=["w", "t", "sgn"])):
                unit.append(nm)
    facts = Facts(real=["w", "t", "sgn"], unit_modulus=unit)
    got = new.at("i", "a", "b")
    tr = normal(new.at("i", "x", "x").sum_over("x") - Expr.factor("D", ("i", "x", "x")).sum_over("x"), facts)
    run.obligation(rid, "DensityMatrixEvolution.convert_from_RWA", not tr, key="trace",
                   message="RWA conversion changes the trace; residue %s" % show_normal(tr, 3),
                   loc=cf.loc(), sample={"identity": "tr(U rho U^+) = tr rho", "unit_modulus": unit,
                                         "rho'": show_normal(normal(got, facts), 2)})
    hf = Facts(real=["w", "t", "sgn"], unit_modulus=unit)
    # Hermiticity: conj(new[i,b,a]) == new[i,a,b] when conj(D[i,b,a]) = D[i,a,b]
    lhs = new.at("i", "b", "a").conj()
    # replace conj(D[i,x,y]) by D[i,y,x]
    lhs = Expr([ta.Term(t.coeff, [ta.F(f.name, (f.idx[0], f.idx[2], f.idx[1]), False, f.pow)
                                  if (f.name == "D" and f.conj) else f for f in t.factors],
                        t.deltas, t.sums) for t in lhs.terms])
    he = normal(lhs - got, hf)
    run.obligation(rid, "DensityMatrixEvolution.convert_from_RWA", not he, key="hermiticity",
                   message="RWA conversion does not keep Hermiticity; residue %s" % show_normal(he, 3),
                   loc=cf.loc(), sample={"identity": "(U rho U^+)^+ = U rho U^+"})
    # the sibling conversion of state-vector evolutions: psi_a(t) -> u_a(t) psi_a(t), component by
    # component, with the same unit-modulus phases
    sf = prog.func("quantarhei.qm.propagators.statevectorevolution.StateVectorEvolution.convert_from_RWA")
    sloops = [n for n in walk_no_nested(sf.node) if isinstance(n, ast.For)]
    if len(sloops) != 1 or norm(sloops[0].iter) != "enumerate(self.TimeAxis.data)":
        raise AnalysisError("StateVectorEvolution.convert_from_RWA: loop over enumerate(self.TimeAxis.data) not found")
    slp = sloops[0]
    si, st_ = [e.id for e in slp.target.elts]
    sdata = Array.opaque("P", 2)
    sself = Obj("self", attrs={"_data": sdata}, alias={"data": "_data"})
    it2 = Interp(prog, lenient=False)
    it2.stack.append(sf)
    it2.loops = []
    ok_sv, detail = True, ""
    try:
        it2.exec_body(slp.body, {"self": sself, "HOmega": Array.opaque("w", 1), si: Index("i"),
                                 st_: Expr.factor("t"), "sgn": Expr.factor("sgn")})
        snew = sself.get("data")
        unit2 = []
        for nm, (fn, arg, idx) in it2.fn_args.items():
            if fn == "exp":
                argt = arg.template if isinstance(arg, Array) else arg
                if not normal(argt.conj() + argt, Facts(real=["w", "t", "sgn"])):
                    unit2.append(nm)
        f2 = Facts(real=["w", "t", "sgn"], unit_modulus=unit2)
        g2 = snew.at("i", "a")
        res = normal(g2 * g2.conj() - Expr.factor("P", ("i", "a")) * Expr.factor("P", ("i", "a")).conj(), f2)
        ok_sv = not res and bool(unit2)
        detail = "psi'[i,a] = %s" % show_normal(normal(g2, f2), 3)
    finally:
        it2.stack.pop()
    run.obligation(rid, "StateVectorEvolution.convert_from_RWA", ok_sv, key="componentwise-phases",
                   message="the conversion of a state-vector evolution must multiply every component by its own "
                           "unit-modulus phase (|psi'_a| = |psi_a|); found %s" % detail, loc=sf.loc(),
                   sample={"identity": "|u_a psi_a|^2 = |psi_a|^2 for every component"})
    # origin of the rotating frame: the conversions use the absolute times of the axis, so the frame
    # coincides with the laboratory frame at t = 0, not at the start of the axis.  The propagators
    # take the initial state as the state at the first point of the axis; they must bring it into
    # the rotating frame there, with the conjugate of the phases the conversion applies at that time.
    from .. import pat
    absolute = all(not any(isinstance(x, ast.Sub) for x in ast.walk(a.value))
                   for l_ in (lp, slp) for a in ast.walk(l_) if isinstance(a, ast.Assign)
                   and isinstance(a.value, ast.Call) and "exp" in norm(a.value))
    pairs = (("quantarhei.qm.propagators.rdmpropagator.ReducedDensityMatrixPropagator", "self.Hamiltonian", "self.TimeAxis"),
             ("quantarhei.qm.propagators.svpropagator.StateVectorPropagator", "self.ham", "self.timeaxis"))
    for q, hexpr, texpr in pairs:
        pc = prog.cls(q)
        pf, pbody = protocol_body(prog, pc, "propagate")
        p0 = pf.node.args.args[1].arg
        ok, why = True, ""
        if absolute:
            top = [s_ for s_ in pbody if isinstance(s_, ast.If) and norm(s_.test) == hexpr + ".has_rwa"]
            helper = None
            for s_ in top:
                for b_ in s_.body:
                    if isinstance(b_, ast.Assign) and norm(b_.targets[0]) == p0 and isinstance(b_.value, ast.Call) \
                            and isinstance(b_.value.func, ast.Attribute) and norm(b_.value.func.value) == "self" \
                            and [norm(a_) for a_ in b_.value.args] == [p0]:
                        helper = prog.find_method(pc, b_.value.func.attr)
                        site = s_
            if helper is None:
                ok, why = False, "propagate() does not bring the initial state into the rotating frame when the " \
                                 "Hamiltonian has RWA set"
            else:
                # the conversion must precede every dispatch to a propagation routine
                disp = [n for n in walk_no_nested(pf.node) if isinstance(n, ast.Return) and n.value is not None
                        and isinstance(n.value, ast.Call) and "propagate" in norm(n.value.func)
                        and not norm(n.value.func).endswith(".propagate")]
                late = [n for n in disp if n.lineno < site.lineno]
                htx = [norm(x) for x in ast.walk(helper.node) if isinstance(x, ast.stmt)]
                hp = helper.node.args.args[1].arg
                e1, _ = pat.seq(htx, ["$T0 = %s.data[0]" % texpr, "$W = %s.get_RWA_skeleton()" % hexpr])
                phase_ok = e1 is not None and any(
                    ("numpy.exp(1j * %s * %s)" % (e1["W"], e1["T0"])) in x for x in htx)
                mut = [x for x in ast.walk(helper.node) if isinstance(x, (ast.Assign, ast.AugAssign))
                       and any(norm(t_).startswith(hp + ".") or norm(t_).startswith(hp + "[")
                               for t_ in (x.targets if isinstance(x, ast.Assign) else [x.target]))]
                if late:
                    ok, why = False, "a propagation routine is entered before the initial state is converted"
                elif not phase_ok:
                    ok, why = False, "the helper %s does not apply exp(+i Omega t0) with t0 the first point of the " \
                                     "axis and Omega the RWA skeleton" % helper.short
                elif mut:
                    ok, why = False, "the helper writes into the caller's initial state"
        run.obligation(rid, pc.name + ".propagate", ok, key="frame-origin",
                       message="rotating frame and initial state: %s (the conversions use %s times)"
                               % (why, "absolute" if absolute else "relative"), loc=pf.loc(),
                       sample={"conversion_times": "absolute" if absolute else "relative to the start of the axis"})
    # the frame flag: every evolution class that converts from the rotating frame defines the flag when it is created
    # (a propagation without RWA never sets it), and an evolution derived from another one is in the same frame
    EVOLS = ("DensityMatrixEvolution", "ReducedDensityMatrixEvolution", "StateVectorEvolution")
    nflag = 0
    for c_ in sorted(prog.all_classes(), key=lambda c: c.qualname):
        if c_.name not in EVOLS + ("EvolutionSuperOperator",) or ".tests." in c_.qualname:
            continue
        conv = prog.find_method(c_, "convert_from_RWA")
        if conv is None:
            continue
        init = prog.find_method(c_, "__init__")
        defined = any("is_in_rwa" in b_.attrs for b_ in prog.mro(c_) if b_ is not None)
        if init is not None and not defined:
            # assigned on the main path of the constructor (not only under a condition)
            defined = any(isinstance(n_, ast.Assign) and any(norm(t_) == "self.is_in_rwa" for t_ in n_.targets)
                          for n_ in init.node.body)
            if not defined:
                # or by a base constructor that is always called
                for n_ in ast.walk(init.node):
                    if isinstance(n_, ast.Call) and isinstance(n_.func, ast.Attribute) and n_.func.attr == "__init__":
                        b_ = prog.find_method(c_, "__init__", after=init.cls)
                        if b_ is not None and any(isinstance(m_, ast.Assign) and any(norm(t_) == "self.is_in_rwa" for t_ in m_.targets)
                                                  for m_ in b_.node.body):
                            defined = True
        nflag += 1
        run.obligation(rid, c_.name, defined, key="frame-flag-defined",
                       message="%s.convert_from_RWA reads self.is_in_rwa, which the constructor does not define: the "
                               "conversion raises AttributeError on the result of a propagation without rotating-wave "
                               "approximation" % c_.name, loc="%s:%d" % (c_.module.relpath, c_.node.lineno))
        for fn_ in c_.methods.values():
            for n_ in walk_no_nested(fn_.node):
                if isinstance(n_, ast.Assign) and isinstance(n_.value, ast.Call) and call_name(n_.value) in EVOLS \
                        and isinstance(n_.targets[0], ast.Name):
                    var = n_.targets[0].id
                    kw = [k for k in n_.value.keywords if k.arg == "is_in_rwa"]
                    carried = any(norm(k.value) == "self.is_in_rwa" for k in kw) or any(
                        isinstance(m_, ast.Assign) and norm(m_.targets[0]) == var + ".is_in_rwa"
                        and norm(m_.value) == "self.is_in_rwa" for m_ in walk_no_nested(fn_.node))
                    nflag += 1
                    run.obligation(rid, fn_.short, carried, key="frame-flag-carried:" + call_name(n_.value),
                                   message="%s builds a %s from the values of this evolution but does not hand on the frame "
                                           "they are in: derived from a rotating-frame result it is marked as laboratory "
                                           "frame and convert_from_RWA() does nothing" % (fn_.short, call_name(n_.value)),
                                   loc=fn_.loc(n_))
    if nflag < 4:
        raise AnalysisError("frame-flag rule: only %d instances" % nflag)
    # inverse: sgn -> -sgn gives the inverse phases (u(sgn) * u(-sgn) = 1): structural
    ut = [n for n in ast.walk(lp) if isinstance(n, ast.Assign) and norm(n.targets[0]) == "Ut"]
    ok = len(ut) == 1 and norm(ut[0].value) == "numpy.diag(numpy.exp(-sgn * 1j * HOmega * t))"
    run.obligation(rid, "DensityMatrixEvolution.convert_from_RWA", ok, key="phases",
                   message="conversion phases must be exp(-sgn*i*Omega*t) on the diagonal "
                           "(sgn=-1 is then the inverse of sgn=+1)", loc=cf.loc())
    # flags
    body = cf.node.body
    flag = [s for s in body if isinstance(s, ast.If) and norm(s.test) == "sgn == 1"
            and [norm(x) for x in s.body] == ["self.is_in_rwa = False"]]
    run.obligation(rid, "DensityMatrixEvolution.convert_from_RWA", len(flag) == 1, key="flag",
                   message="convert_from_RWA must clear is_in_rwa after a forward conversion", loc=cf.loc())


# ----------------------------------------------------------------------
def rule_E(run, prog, routines):
    rid = "C02-E"
    for f in routines:
        loops = taylor.find_taylor_loops(prog, f)
        if not loops:
            continue
        params = [a.arg for a in f.node.args.args][1:2]
        if not params:
            continue
        init = params[0]
        # names aliasing the caller's state: X = <init>.data
        alias = set()
        for n in walk_no_nested(f.node):
            if isinstance(n, ast.Assign) and norm(n.value) in ("%s.data" % init, init):
                for t in n.targets:
                    if isinstance(t, ast.Name):
                        alias.add(t.id)
            if isinstance(n, ast.Assign) and isinstance(n.value, ast.Call) and call_name(n.value) == "_INIT_EXP":
                if isinstance(n.targets[0], ast.Tuple):
                    for t in n.targets[0].elts[1:]:
                        alias.add(t.id)
        bad = []
        for n in walk_no_nested(f.node):
            if isinstance(n, ast.AugAssign):
                b = n.target
                while isinstance(b, ast.Subscript):
                    b = b.value
                if isinstance(b, ast.Name) and b.id in alias:
                    bad.append(norm(n))
            if isinstance(n, ast.Assign):
                for t in n.targets:
                    if isinstance(t, ast.Subscript):
                        b = t
                        while isinstance(b, ast.Subscript):
                            b = b.value
                        if isinstance(b, ast.Name) and b.id in alias:
                            bad.append(norm(n))
            if isinstance(n, ast.Call):
                for tgt in prog.resolve_call(f, n, may=False):
                    # helper mutating its first parameter in place
                    ps = [a.arg for a in tgt.node.args.args]
                    if tgt.cls is not None:
                        ps = ps[1:]
                    mut = {m.target.id for m in ast.walk(tgt.node)
                           if isinstance(m, ast.AugAssign) and isinstance(m.target, ast.Name)}
                    for k, a in enumerate(n.args):
                        if k < len(ps) and ps[k] in mut and isinstance(a, ast.Name) and a.id in alias:
                            bad.append(norm(n)[:80])
        run.obligation(rid, f.short, not bad and bool(alias), key="no-inplace",
                       message="in-place update of a value that aliases the caller's initial state "
                               "(%s): %s" % (sorted(alias), bad[:3]), loc=f.loc(),
                       sample={"routine": f.short, "aliases_of_initial_state": sorted(alias)})
    # the evolution object copies the initial condition
    ie = prog.func(RDM + "._INIT_EXP")
    txt = [norm(s) for s in ie.node.body]
    ok = "pr = ReducedDensityMatrixEvolution(self.TimeAxis, rhoi)" in txt
    run.obligation(rid, "ReducedDensityMatrixPropagator._INIT_EXP", ok, key="fresh-evolution",
                   message="_INIT_EXP must create a fresh evolution object per call", loc=ie.loc())
    sic = prog.func("quantarhei.qm.propagators.dmevolution.DensityMatrixEvolution.set_initial_condition") \
        if prog.has_func("quantarhei.qm.propagators.dmevolution.DensityMatrixEvolution.set_initial_condition") else None
    if sic is not None:
        stores = [n for n in ast.walk(sic.node) if isinstance(n, ast.Assign)
                  and isinstance(n.targets[0], ast.Subscript)]
        ok = any(norm(s.targets[0]).startswith("self.data[0") or norm(s.targets[0]).startswith("self._data[0")
                 for s in stores)
        run.obligation(rid, "DensityMatrixEvolution.set_initial_condition", ok, key="copy-in",
                       message="the initial condition must be copied into slot 0 of the evolution's own "
                               "array (element store), not aliased", loc=sic.loc())


def rule_L(run, prog):
    """'With no relaxation the norm is conserved / the propagated matrix stays Hermitian' - for complex amplitudes and a
    complex Hermitian Hamiltonian too.  (i) StateVector.norm and StateVector.dot are the scalar product <a|b> = sum conj(a_i)
    b_i: every product they form uses numpy.vdot or conjugates the first factor; numpy.dot(a, b) alone is bilinear and
    gives norm (1, i)/sqrt(2) = 0.  (ii) Hamiltonian.diagonalize / undiagonalize transform with the eigenvector matrix SS
    of eigh, which is unitary: wherever its transpose stands for the inverse it is conjugated (numpy.conj(SS.T), SS.conj().T);
    the bare transpose returns a non-Hermitian Hamiltonian after the round trip."""
    rid = "C02-L"
    sv = prog.cls("quantarhei.qm.hilbertspace.statevector.StateVector")
    for nme in ("dot", "norm"):
        f = sv.methods[nme]
        prog.consulted.add(f.relpath)
        prods = [n for n in ast.walk(f.node) if isinstance(n, ast.Call) and call_name(n) in ("dot", "vdot", "inner", "sum", "einsum")]
        if not prods:
            raise AnalysisError("StateVector.%s forms no product" % nme)
        for c in prods:
            ok = call_name(c) == "vdot" or (c.args and any(isinstance(x, ast.Call) and call_name(x) in ("conj", "conjugate")
                                                            for x in ast.walk(c.args[0])))
            run.obligation(rid, "StateVector.%s" % nme, ok, key="antilinear:" + norm(c)[:40],
                           message="StateVector.%s forms %s without conjugating the first vector: the norm of a complex state is then "
                                   "not its length ((1, i)/sqrt(2) has 'norm' 0) and is not conserved under Hamiltonian propagation"
                                   % (nme, norm(c)[:50]), loc=f.loc(c), sample={"product": norm(c)[:60]})
    hm = prog.cls("quantarhei.qm.hilbertspace.hamiltonian.Hamiltonian")
    nT = 0
    for nme in ("diagonalize", "undiagonalize"):
        f = hm.methods[nme]
        prog.consulted.add(f.relpath)
        from ..loader import parents_map
        pm = parents_map(f.node)
        for x in ast.walk(f.node):
            if isinstance(x, ast.Attribute) and x.attr == "T" and norm(x.value) in ("SS", "self.SS"):
                nT += 1
                p_ = pm.get(x)
                conj = isinstance(p_, ast.Call) and call_name(p_) in ("conj", "conjugate")
                conj = conj or (isinstance(x.value, ast.Call) and call_name(x.value) in ("conj", "conjugate"))
                conj = conj or (isinstance(p_, ast.Attribute) and p_.attr in ("conj", "conjugate"))
                run.obligation(rid, "Hamiltonian.%s" % nme, conj, key="unitary-inverse:%d" % nT,
                               message="Hamiltonian.%s uses the bare transpose %s of the eigenvector matrix as its inverse: for a "
                                       "complex Hermitian Hamiltonian the inverse is the Hermitian conjugate, and diagonalize() followed "
                                       "by undiagonalize() returns a different, non-Hermitian matrix" % (nme, norm(x)), loc=f.loc(x))
    if nT < 3:
        raise AnalysisError("Hamiltonian.diagonalize/undiagonalize: only %d uses of the transposed eigenvector matrix (3 confirmed)" % nT)


def rule_M(run, prog):
    """The propagators rotate the initial state with exp(i Omega t0) at the first point t0 of the time axis (the frame is tied
    to absolute time), so a stored state at time t differs from the laboratory one by phases exp(-i (Om_a - Om_b) t) with
    the absolute t.  In every convert_from_RWA of the evolution classes and of the evolution superoperator each
    exponential that contains the frame frequencies has a time factor taken from the points of the object's own time
    axis (<axis>.data, or a loop variable running over them).  A grid rebuilt as step*arange(length) forgets the start
    of the axis: on an axis that does not start at zero the converted states keep a residual rotation."""
    rid = "C02-M"
    n = 0
    for q in ("quantarhei.qm.propagators.dmevolution.DensityMatrixEvolution",
              "quantarhei.qm.propagators.statevectorevolution.StateVectorEvolution",
              "quantarhei.qm.liouvillespace.evolutionsuperoperator.EvolutionSuperOperator"):
        cls = prog.cls(q)
        f = cls.methods.get("convert_from_RWA")
        if f is None:
            raise AnalysisError("%s.convert_from_RWA not found" % cls.name)
        prog.consulted.add(f.relpath)
        axis_points = set()       # names bound to points of the axis
        for x in ast.walk(f.node):
            if isinstance(x, ast.For):
                it = x.iter
                src = it.args[0] if isinstance(it, ast.Call) and call_name(it) == "enumerate" and it.args else it
                if isinstance(src, ast.Attribute) and src.attr == "data" and norm(src.value) in ("self.TimeAxis", "self.time", "self.timeaxis"):
                    tg = x.target.elts[-1] if isinstance(x.target, ast.Tuple) else x.target
                    if isinstance(tg, ast.Name):
                        axis_points.add(tg.id)
            if isinstance(x, ast.Assign) and isinstance(x.targets[0], ast.Name):
                v = x.value
                b = v
                while isinstance(b, ast.Subscript):
                    b = b.value
                if isinstance(b, ast.Attribute) and b.attr == "data" and norm(b.value) in ("self.TimeAxis", "self.time", "self.timeaxis"):
                    axis_points.add(x.targets[0].id)
        exps = [c for c in ast.walk(f.node) if isinstance(c, ast.Call) and call_name(c) == "exp"
                and any(isinstance(y, ast.Name) and "Om" in y.id for y in ast.walk(c))]
        if not exps:
            raise AnalysisError("%s.convert_from_RWA: no phase factor with the frame frequencies found" % cls.name)
        for c in exps:
            n += 1
            ok = any((isinstance(y, ast.Name) and y.id in axis_points) or
                     (isinstance(y, ast.Attribute) and y.attr == "data" and norm(y.value) in ("self.TimeAxis", "self.time", "self.timeaxis"))
                     for y in ast.walk(c))
            run.obligation(rid, f.short, ok, key="absolute-times:" + norm(c)[:40],
                           message="%s forms the phase factor %s with a time that is not taken from the points of the time axis: a grid "
                                   "rebuilt from step and length starts at zero, the frame of the propagators at the start of the axis - "
                                   "on an axis with a non-zero start the converted states keep a rotation exp(-i Omega t0)"
                                   % (f.short, norm(c)[:60]), loc=f.loc(c))
    if n < 3:
        raise AnalysisError("only %d phase factors found in the conversions from the rotating frame (3 confirmed)" % n)


LINEAR_ROUTINES = (
    ("quantarhei.qm.propagators.svpropagator.StateVectorPropagator",
     ("_propagate_short_exp", "_propagate_short_exp_tdep", "_initial_state_in_RWA")),
    ("quantarhei.qm.propagators.rdmpropagator.ReducedDensityMatrixPropagator",
     ("__propagate_short_exp", "__propagate_short_exp_with_relaxation", "__propagate_short_exp_with_rel_operators",
      "__propagate_short_exp_with_TD_relaxation", "__propagate_short_exp_with_TDrel_operators", "_initial_state_in_RWA")),
)


def rule_P(run, prog, rid="C02-P", routines=LINEAR_ROUTINES, floor=9):
    """'... agree with the exact exponential of the GKSL generator', 'norm, purity and energy are conserved within the
    truncation bound': exp(L t) rho0 is linear in rho0, and the conservation laws are consequences of the generator, not
    something the integrator may enforce.  Every propagation routine (state vector, density matrix with and without
    relaxation, both tensor forms, time-dependent tensors) is followed from the initial state to the evolution it returns
    (qv/lin.py: zero / independent of the state / linear / anything else; the helpers _COM, _TTI, _OTI and the
    constructors of the evolutions are followed, `apply` and `initial_term` of the relaxation tensor are taken as linear
    in their argument).  A division by the trace or the norm of the running state, a clipping of populations, an added
    constant give 'anything else': the result is right for states of one particular normalisation only - and wrong for
    the differences of states and the basis elements from which the evolution superoperator is built."""
    from .. import lin
    n = 0
    for q, names in routines:
        cls = prog.cls(q)
        for nme in names:
            f = cls.methods.get(nme) or cls.methods.get("_%s%s" % (cls.name, nme))
            if f is None:
                raise AnalysisError("%s.%s: propagation routine not found" % (cls.name, nme))
            prog.consulted.add(f.relpath)
            par = f.node.args.args[1].arg
            dg = lin.Degrees(prog, cls, func=f, linear_methods=("apply", "initial_term", "get_RWA_data"))
            env = {a.arg: lin.C for a in f.node.args.args[1:]}
            env[par] = lin.L
            d = dg.run(f.node, env)
            n += 1
            at = dg.trace[-1] if dg.trace else f.node
            run.obligation(rid, f.short, d == lin.L, key="linear-in-initial-state",
                           message="%s returns states of degree %s in %s (L = linear); linearity is lost at `%s`.  The propagated "
                                   "state then equals exp(L t) rho0 only for initial states of one normalisation; applied to the "
                                   "basis elements |a><b| (trace 0 or 1) it gives an evolution superoperator that does not "
                                   "reproduce propagation" % (f.short, d, par, norm(at)[:70] if dg.trace else ""),
                           loc=f.loc(at) if dg.trace and hasattr(at, "lineno") else f.loc(f.node), sample={"degree": d})
    if n < floor:
        raise AnalysisError("%s: only %d propagation routines analysed" % (rid, n))


def ketbra_sites(fnode):
    """Statements that form |psi><psi| element-wise or as an outer product: (statement, row factors, column factors)
    where a factor is an expression of the product.  Element form: target X[.., i, j] = product with factors subscripted
    by the name i (row) or j (column) last.  Outer form: numpy.outer(A, B) - A is the row factor, B the column one."""
    out = []
    for st in walk_no_nested(fnode):
        if not isinstance(st, ast.Assign):
            continue
        v = st.value
        outers = [c for c in ast.walk(v) if isinstance(c, ast.Call) and (call_name(c) or "").split(".")[-1] == "outer" and len(c.args) == 2]
        if outers:
            out.append((st, [outers[0].args[0]], [outers[0].args[1]]))
            continue
        t_ = st.targets[0]
        if not (isinstance(t_, ast.Subscript) and isinstance(t_.slice, ast.Tuple) and len(t_.slice.elts) >= 2):
            continue
        i_, j_ = t_.slice.elts[-2], t_.slice.elts[-1]
        if not (isinstance(i_, ast.Name) and isinstance(j_, ast.Name)) or i_.id == j_.id:
            continue
        if not (isinstance(v, ast.BinOp) and isinstance(v.op, ast.Mult)):
            continue
        facs = []

        def flat(e):
            if isinstance(e, ast.BinOp) and isinstance(e.op, ast.Mult):
                flat(e.left)
                flat(e.right)
            else:
                facs.append(e)
        flat(v)

        def last_index(e):
            for x in ast.walk(e):
                if isinstance(x, ast.Subscript):
                    sl = x.slice.elts[-1] if isinstance(x.slice, ast.Tuple) else x.slice
                    if isinstance(sl, ast.Name):
                        return sl.id
            return None
        rows = [f_ for f_ in facs if last_index(f_) == i_.id]
        cols = [f_ for f_ in facs if last_index(f_) == j_.id]
        if len(rows) == 1 and len(cols) == 1 and len(facs) == 2:
            out.append((st, rows, cols))
    return out


def rule_R(run, prog):
    """'State-vector and density-matrix propagation agree': the density matrix of a state vector is |psi><psi|,
    rho[i, j] = psi[i] conj(psi[j]) - the amplitude of the row index as it is, that of the column index conjugated.
    With the conjugate on the row factor the result is the transposed (complex conjugated) matrix: still Hermitian, of
    unit trace and pure, so no conservation law notices, but it is the state with all relative phases reversed and it
    evolves away from |psi(t)><psi(t)|.  Every element-wise product rho[.., i, j] = a[i] * b[j] and every
    numpy.outer(a, b) in the state-vector classes has the conjugation on the column factor and on it alone."""
    rid = "C02-R"
    n = 0
    for q, names in (("quantarhei.qm.hilbertspace.statevector.StateVector", ("get_DensityMatrix",)),
                     ("quantarhei.qm.propagators.statevectorevolution.StateVectorEvolution", ("get_DensityMatrixEvolution",))):
        cls = prog.cls(q)
        for nme in names:
            f = cls.methods[nme]
            prog.consulted.add(f.relpath)
            sites = ketbra_sites(f.node)
            if not sites:
                raise AnalysisError("%s: no product of amplitudes found" % f.short)
            for st, rows, cols in sites:
                n += 1

                def conj_in(e):
                    return any(isinstance(x, ast.Call) and (call_name(x) or "").split(".")[-1] in ("conj", "conjugate") for x in ast.walk(e))
                ok = all(conj_in(c) for c in cols) and not any(conj_in(r) for r in rows)
                run.obligation(rid, f.short, ok, key="bra-is-conjugated:" + norm(st)[:40],
                               message="%s forms `%s`: the conjugation belongs to the factor of the column index (<psi|) and to it "
                                       "alone; here the result is the complex conjugate of |psi><psi| - a valid state, but the one with "
                                       "reversed relative phases, which does not follow the propagated state vector"
                                       % (f.short, norm(st)[:80]), loc=f.loc(st), sample={"statement": norm(st)[:80]})
    if n < 3:
        raise AnalysisError("C02-R: only %d products of amplitudes found (3 confirmed)" % n)


def rule_O(run, prog):
    """'State-vector and density-matrix propagation agree': the density matrices made of a state-vector evolution are
    |psi(t_i)><psi(t_i)| of the amplitudes the evolution has stored, at every time including the first.  The constructor of
    an evolution copies the values of the initial state into row 0 of its storage and may also keep the state object
    itself (for display).  That object is the caller's: it is the vector the caller propagates next, it is changed in
    place by conversions to the rotating frame.  The stored row and the kept object are equal only until one of them is
    touched.  Any method other than the constructor and the string conversions that reads the kept object computes from
    something that is not the evolution's record."""
    rid = "C02-O"
    n = 0
    for cls in prog.all_classes():
        if not cls.qualname.startswith("quantarhei.qm.propagators.") or ".tests." in cls.qualname:
            continue
        for mname, f in cls.methods.items():
            if not hasattr(f.node, "args"):
                continue
            params = {a.arg for a in f.node.args.args} - {"self"}
            kept, copied = {}, set()
            for st in walk_no_nested(f.node):
                if not isinstance(st, ast.Assign):
                    continue
                for t_ in st.targets:
                    if isinstance(t_, ast.Attribute) and norm(t_.value) == "self" and isinstance(st.value, ast.Name) \
                            and st.value.id in params:
                        kept[st.value.id] = t_.attr
                    b_ = t_
                    while isinstance(b_, ast.Subscript):
                        b_ = b_.value
                    if b_ is not t_ and isinstance(b_, ast.Attribute) and norm(b_.value) == "self" and b_.attr in ("data", "_data"):
                        for y in ast.walk(st.value):
                            if isinstance(y, ast.Attribute) and y.attr in ("data", "_data") and isinstance(y.value, ast.Name) \
                                    and y.value.id in params:
                                copied.add(y.value.id)
            for p_ in sorted(set(kept) & copied):
                attr = kept[p_]
                n += 1
                prog.consulted.add(f.relpath)
                readers = []
                for oname, g in cls.methods.items():
                    if oname in (mname, "__str__", "__repr__"):
                        continue
                    for y in walk_no_nested(g.node):
                        if isinstance(y, ast.Attribute) and y.attr == attr and norm(y.value) == "self" and isinstance(y.ctx, ast.Load):
                            readers.append((g, y))
                run.obligation(rid, "%s.%s" % (cls.name, attr), not readers, key="borrowed-copy-not-read",
                               message="%s reads self.%s - the object handed to %s, whose values were copied into the stored array "
                                       "there.  The object belongs to the caller (the next initial condition is written into it, a "
                                       "frame conversion changes it in place) and the stored row is converted with the evolution: the "
                                       "two differ as soon as either is touched, and the result is not the evolution's first state"
                                       % (readers[0][0].short if readers else "", attr, f.short),
                               loc=readers[0][0].loc(readers[0][1]) if readers else f.loc(f.node), sample={"kept": attr, "from": p_})
    if n < 1:
        raise AnalysisError("C02-O: no evolution keeps the object whose values it copies (StateVectorEvolution.psi_i confirmed)")


def rule_N(run, prog):
    """'With and without pure dephasing': the kind of dephasing (Lorentzian: exp(-g t), Gaussian: exp(-(g t)^2)) selects the
    propagation routine and the conversion between the two.  PureDephasing.dtypes lists the names.  A branch that compares
    a dephasing type with any other string (a misspelling) is never taken: the conversion, or the Gaussian routine, is
    silently skipped.  Every comparison of `<something>.dtype` / `dtype` with a string constant in the PureDephasing class,
    the propagators and the evolution superoperator uses a member of that list."""
    rid = "C02-N"
    pd = prog.cls("quantarhei.qm.liouvillespace.puredephasing.PureDephasing")
    try:
        names = ast.literal_eval(pd.attrs["dtypes"])
    except Exception:
        raise AnalysisError("PureDephasing.dtypes is no longer a literal list")
    n = 0
    for mq in ("quantarhei.qm.liouvillespace.puredephasing", "quantarhei.qm.propagators.rdmpropagator",
               "quantarhei.qm.liouvillespace.evolutionsuperoperator", "quantarhei.qm.propagators.svpropagator"):
        mod = prog.module(mq)
        for fn in [f for c in mod.classes.values() for f in c.methods.values()] + list(mod.functions.values()):
            for cmp_ in [x for x in ast.walk(fn.node) if isinstance(x, ast.Compare) and len(x.ops) == 1 and isinstance(x.ops[0], (ast.Eq, ast.NotEq))]:
                for a, b in ((cmp_.left, cmp_.comparators[0]), (cmp_.comparators[0], cmp_.left)):
                    is_type = (isinstance(a, ast.Attribute) and a.attr == "dtype" and "data" not in norm(a.value).split(".")[-1:]) or \
                        (isinstance(a, ast.Name) and a.id == "dtype" and mq.endswith("puredephasing"))
                    if is_type and isinstance(b, ast.Constant) and isinstance(b.value, str):
                        n += 1
                        prog.consulted.add(fn.relpath)
                        run.obligation(rid, fn.short, b.value in names, key="dephasing-type:%s:%s" % (norm(cmp_)[:40], b.value),
                                       message="%s compares a dephasing type with %r, which is not one of %s: the branch is never taken"
                                               % (fn.short, b.value, names), loc=fn.loc(cmp_), sample={"compare": norm(cmp_)})
    if n < 8:
        raise AnalysisError("only %d comparisons of a dephasing type with a string found (8 confirmed)" % n)
