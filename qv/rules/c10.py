"""C10 - vibronic structure follows the displaced-oscillator model (thin).

Decided statically: set_HR/get_HR are mutually inverse and shift = sqrt(2 S)
(A, scalar algebra); the generator of the shift operator is anti-Hermitian:
the creation operator is the transpose of the annihilation operator and the
combination is (d a^+ - conj(d) a)/sqrt(2), exponentiated through
S exp(diag) S^-1 (B, index algebra); the Franck-Condon factor multiplies one
overlap per mode over all modes, the full-space signature generator is
ndindex over all level counts, dipoles and couplings are multiplied by that
factor (C); the APIs on the full-space path exist (D).  Not decided: the
overlap values (a matrix exponential in a 100-level basis), truncation, the
approximate state generators.
"""
import ast

from ..loader import parents_map, AnalysisError, norm, walk_no_nested, call_name
from .. import ta, apiexist
from ..ta import Expr, Array, Facts, normal, show_normal
from ..ta_front import Interp, Obj, Index

HO = "quantarhei.qm.oscillators.ho.operator_factory."
MO = "quantarhei.builders.modes.Mode."
AB = "quantarhei.builders.aggregate_base.AggregateBase."


def check(run, prog, tier):
    run.explanation = (
        "Scalar algebra on Mode.set_HR/get_HR, index algebra on the ladder operators and on the "
        "generator of the shift operator (anti-Hermiticity, spectral exponentiation), statement-level "
        "rules on fc_factor / vsignatures / transition_dipole, and API existence on the full-space "
        "path. The Poisson law itself is a property of exp of that generator and is trusted.")
    run.trusted_base = ["<n|exp((d a^+ - d* a)/sqrt 2)|0> is Poisson-amplitude distributed with mean |d|^2/2 = S",
                        "numpy.linalg.eig/inv semantics"]
    run.rule("C10-A", "Huang-Rhys convention: shift = sqrt(2 S), set/get inverse", minimum=2)
    run.rule("C10-B", "shift-operator generator is anti-Hermitian; ladder operators are transposes", minimum=4)
    run.rule("C10-C", "overlap product over all modes; full state space; factor applied to dipoles and couplings", minimum=5)
    run.rule("C10-D", "APIs on the full-space path exist", minimum=8)
    rule_A(run, prog)
    rule_B(run, prog)
    rule_C(run, prog)
    rule_D(run, prog)
    run.rule("C10-E", "an element that is reset and then accumulated in inner loops is addressed with the same indices both times "
                      "(a dropped component index broadcasts every term into all Cartesian components)", minimum=3)
    rule_E(run, prog)
    run.rule("C10-G", "the electronic dipole of an element is that of the two levels between which the molecule changes", minimum=1)
    rule_G(run, prog)
    rule_G2(run, prog)
    run.rule("C10-H", "the electronic level that selects a molecule's sub-modes is read at the molecule's position in the "
                      "aggregate", minimum=1)
    rule_H(run, prog)
    run.rule("C10-F", "what the aggregate calls on its molecules exists in Molecule (modes are declared through these calls)", minimum=25)
    rule_F(run, prog)
    run.rule("C10-I", "the look-up table of Franck-Condon matrices keeps shifts and matrices in step: every operation that changes "
                      "the order or length of one list is mirrored, with the same position, on the other", minimum=2)
    rule_I(run, prog)
    run.rule("C10-J", "a stored Franck-Condon matrix is handed out for the shift it was computed for: the look-up table is searched "
                      "for the shift itself (equality), never for a shift 'close to' it - two modes whose Huang-Rhys factors differ "
                      "a little have different overlaps", minimum=2)
    rule_J(run, prog)
    run.rule("C10-K", "'the number of vibronic states per electronic state is the product of the declared level counts of all modes': "
                      "a molecule keeps its modes in a list and their number in a counter, and the state generators and the Hamiltonian "
                      "run over the counter.  Every method that lengthens the list advances the counter in the same block, with no way "
                      "out of the method in between (list and counter in step)", minimum=1)
    rule_K(run, prog)


def rule_K(run, prog):
    rid = "C10-K"
    mol = prog.cls("quantarhei.builders.molecules.Molecule")
    n = 0
    for name, f in sorted(mol.methods.items()):
        if not isinstance(f.node, ast.FunctionDef) or name == "__init__":
            continue
        pm = parents_map(f.node)
        for c in walk_no_nested(f.node):
            if not (isinstance(c, ast.Call) and norm(c.func) in ("self.modes.append", "self.modes.insert", "self.modes.extend")):
                continue
            n += 1
            prog.consulted.add(f.relpath)
            st = c
            while st is not None and not isinstance(st, ast.stmt):
                st = pm.get(st)
            blk = None
            for fld in ("body", "orelse", "finalbody"):
                b_ = getattr(pm.get(st), fld, None)
                if isinstance(b_, list) and st in b_:
                    blk = b_
            ok, why = False, "the counter self.nmod is not advanced in the block in which the mode is put on the list"
            if blk is not None:
                cnt = [k for k, x in enumerate(blk) if (isinstance(x, ast.AugAssign) and norm(x.target) == "self.nmod"
                                                        and isinstance(x.op, ast.Add))
                       or (isinstance(x, ast.Assign) and norm(x.targets[0]) == "self.nmod"
                           and ("len(self.modes)" in norm(x.value) or "self.nmod + 1" in norm(x.value)))]
                if cnt:
                    i0 = blk.index(st)
                    lo, hi = min(i0, cnt[0]), max(i0, cnt[0])
                    between = blk[lo:hi + 1]
                    esc = [x for b_ in between for x in ast.walk(b_) if isinstance(x, (ast.Return, ast.Raise))
                           and not (b_ is blk[lo] and hi == lo)]
                    # an exit between the two statements (an early return for a special case) leaves them out of step;
                    # a refusal (raise) before anything was changed is fine, so only exits after the first of the two count
                    esc = [x for x in esc if x.lineno > blk[lo].lineno]
                    if esc:
                        why = "between `%s` and the advance of self.nmod the method can be left (line %d)" % (norm(st)[:40], esc[0].lineno)
                    else:
                        ok = True
            run.obligation(rid, f.short, ok, key="list-and-counter",
                           message="%s: %s - get_number_of_modes()/get_Mode() then report a mode the state generators and the "
                                   "Hamiltonian (which run over nmod) do not see" % (f.short, why),
                           loc=f.loc(st), sample={"method": f.short})
    if n < 1:
        raise AnalysisError("C10-K: no method of Molecule puts a mode on self.modes")


_TOLERANT = ("isclose", "allclose", "round", "around", "round_", "rint", "floor", "ceil", "trunc", "float32", "float16", "searchsorted",
             "argmin", "nearest", "locate", "digitize", "isclose_")


def rule_J(run, prog):
    """'... follow the displaced-oscillator law ... for all Huang-Rhys factors': AggregateBase.fc_factor computes the shift
    operator only when fcstorage.lookup(shift) says the shift is new, and takes matrix number fcstorage.index(shift)
    otherwise.  Every method of fcstorage that takes the shift and reads the table of shifts compares the shift itself:
    no call of a tolerant comparison or rounding on it, no ordering comparison (|a - b| < eps)."""
    rid = "C10-J"
    cls = prog.cls("quantarhei.qm.oscillators.ho.fcstorage")
    n = 0
    for nme, f in cls.methods.items():
        if not isinstance(f.node, ast.FunctionDef) or "shift" not in [a.arg for a in f.node.args.args]:
            continue
        reads = [x for x in walk_no_nested(f.node) if isinstance(x, ast.Attribute) and isinstance(x.ctx, ast.Load)
                 and norm(x) == "self._shifts"]
        stores = any(isinstance(c, ast.Call) and isinstance(c.func, ast.Attribute) and c.func.attr in _LIST_MUT
                     and norm(c.func.value) == "self._shifts" for c in walk_no_nested(f.node))
        if not reads or stores:
            continue
        n += 1
        prog.consulted.add(f.relpath)
        bad = None
        for c in walk_no_nested(f.node):
            if isinstance(c, ast.Call) and (call_name(c) or "").split(".")[-1] in _TOLERANT:
                bad = c
                break
            if isinstance(c, ast.Compare) and any(isinstance(o, (ast.Lt, ast.LtE, ast.Gt, ast.GtE)) for o in c.ops) \
                    and any(isinstance(b_, ast.BinOp) and isinstance(b_.op, ast.Sub)
                            and any(isinstance(x, ast.Name) and x.id == "shift" for x in ast.walk(b_)) for b_ in ast.walk(c)):
                bad = c
                break
        run.obligation(rid, f.short, bad is None, key="exact-key",
                       message="%s searches the table of shifts with `%s`: a shift that is only close to a stored one is answered with "
                               "the matrix of the stored one, and the overlaps of that mode are those of another Huang-Rhys factor"
                               % (f.short, norm(bad)[:60] if bad is not None else ""), loc=f.loc(bad if bad is not None else f.node))
    if n < 2:
        raise AnalysisError("C10-J: only %d searching methods of fcstorage found (lookup and index confirmed)" % n)


_LIST_MUT = ("append", "pop", "insert", "remove", "clear", "extend", "sort", "reverse")


def list_ops(stmts, attrs, recv=("self",)):
    """Order-changing operations on self.<attr> (attr in attrs) directly in the statement list `stmts`, in source order:
    [(attr, (op, position text))]; nested blocks are returned as ('block', [...]) entries so that lockstep is demanded
    per block (both lists changed under the same condition)."""
    out = []
    for st in stmts:
        found = []
        if isinstance(st, ast.Expr) and isinstance(st.value, ast.Call) and isinstance(st.value.func, ast.Attribute) \
                and st.value.func.attr in _LIST_MUT and isinstance(st.value.func.value, ast.Attribute) \
                and norm(st.value.func.value.value) in recv and st.value.func.value.attr in attrs:
            c = st.value
            op = c.func.attr
            pos = ""
            if op == "pop":
                pos = norm(c.args[0]) if c.args else "-1"
            elif op == "insert":
                pos = norm(c.args[0])
            found.append((c.func.value.attr, (op, pos), st))
        elif isinstance(st, ast.Delete):
            for t_ in st.targets:
                if isinstance(t_, ast.Subscript) and isinstance(t_.value, ast.Attribute) and norm(t_.value.value) in recv \
                        and t_.value.attr in attrs:
                    found.append((t_.value.attr, ("del", norm(t_.slice)), st))
        elif isinstance(st, (ast.Assign, ast.AugAssign)):
            tg = st.targets if isinstance(st, ast.Assign) else [st.target]
            for t_ in tg:
                b_ = t_
                sub = None
                if isinstance(b_, ast.Subscript):
                    sub, b_ = b_, b_.value
                if isinstance(b_, ast.Attribute) and norm(b_.value) in recv and b_.attr in attrs:
                    if sub is None:
                        found.append((b_.attr, ("rebind", norm(st.value) if isinstance(st.value, (ast.List, ast.Constant)) else "?"), st))
                    elif isinstance(sub.slice, ast.Slice):
                        found.append((b_.attr, ("slice", norm(sub.slice)), st))
                    else:
                        found.append((b_.attr, ("setitem", norm(sub.slice)), st))
        # a pop/insert whose value is used (x = self.L.pop(0)) is an operation as well
        if not found:
            for c in ast.walk(st) if not isinstance(st, (ast.If, ast.For, ast.While, ast.With, ast.Try)) else []:
                if isinstance(c, ast.Call) and isinstance(c.func, ast.Attribute) and c.func.attr in _LIST_MUT \
                        and isinstance(c.func.value, ast.Attribute) and norm(c.func.value.value) in recv and c.func.value.attr in attrs:
                    pos = (norm(c.args[0]) if c.args else "-1") if c.func.attr in ("pop", "insert") else ""
                    found.append((c.func.value.attr, (c.func.attr, pos), st))
        out.extend(found)
        for fld in ("body", "orelse", "finalbody", "handlers"):
            sub = getattr(st, fld, None)
            if isinstance(sub, list) and sub and not isinstance(st, (ast.FunctionDef, ast.ClassDef)):
                blk = []
                for h in sub:
                    blk.extend(h.body if isinstance(h, ast.ExceptHandler) else [h])
                out.append(("block", list_ops(blk, attrs, recv), st))
    return out


def lockstep_mismatch(ops, attrs):
    """First block in which the per-list sequences of operations differ: (statement, {attr: sequence})."""
    seqs = {a: [o for (a_, o, _s) in [x for x in ops if x[0] != "block"] if a_ == a] for a in attrs}
    vals = list(seqs.values())
    if any(v != vals[0] for v in vals[1:]):
        first = next(x[2] for x in ops if x[0] != "block")
        return first, seqs
    for x in ops:
        if x[0] == "block":
            r = lockstep_mismatch(x[1], attrs)
            if r:
                return r
    return None


def rule_I(run, prog):
    """'Franck-Condon factors ... are the products of the overlaps': Aggregate.fc_factor takes the overlap matrix of a shift
    from fcstorage, which keeps two lists - the shifts and, at the same positions, their matrices (index() searches the
    first, get() reads the second).  The table is right only while the two lists are permuted, extended and shortened
    together: per method and per block, the operations on the one list must be the operations on the other, with the same
    positions.  An eviction that pops the oldest shift and the newest matrix, a sort of the shifts, a removal by value -
    each leaves every later look-up returning the matrix of another shift."""
    rid = "C10-I"
    cls = prog.cls("quantarhei.qm.oscillators.ho.fcstorage")
    ini = cls.methods["__init__"]
    prog.consulted.add(ini.relpath)
    attrs = [t_.attr for st in ini.node.body if isinstance(st, ast.Assign) and isinstance(st.value, ast.List) and not st.value.elts
             for t_ in st.targets if isinstance(t_, ast.Attribute) and norm(t_.value) == "self"]
    if len(attrs) != 2:
        raise AnalysisError("fcstorage: two parallel lists expected, found %s" % attrs)
    n = 0
    for nme, f in cls.methods.items():
        ops = list_ops(f.node.body, attrs)

        def flat(o):
            return [x for x in o if x[0] != "block"] + [y for x in o if x[0] == "block" for y in flat(x[1])]
        if not flat(ops):
            continue
        n += 1
        mm = lockstep_mismatch(ops, attrs)
        run.obligation(rid, f.short, mm is None, key="lists-in-step",
                       message="%s changes the parallel lists of the look-up table out of step: %s - after it, the matrix found for "
                               "a shift is the matrix of another shift, and the Franck-Condon factors of the aggregate are those of "
                               "other Huang-Rhys factors" % (f.short, "; ".join("self.%s: %s" % (a, ", ".join(
                                   "%s(%s)" % o for o in q) or "nothing") for a, q in mm[1].items()) if mm else ""),
                       loc=f.loc(mm[0]) if mm else f.loc(f.node), sample={"lists": attrs})
    if n < 2:
        raise AnalysisError("fcstorage: only %d methods change the lists (constructor and add confirmed)" % n)
    # and nobody outside the class reaches into the lists
    for f in prog.all_functions():
        if f.qualname.startswith(cls.qualname + ".") or ".tests." in f.qualname:
            continue
        for x in walk_no_nested(f.node):
            if isinstance(x, ast.Attribute) and x.attr in attrs and norm(x.value) != "self":
                run.obligation(rid, f.short, False, key="lists-private:" + x.attr,
                               message="%s reaches into the look-up table's list %s from outside the class" % (f.short, x.attr),
                               loc=f.loc(x))


def rule_A(run, prog):
    rid = "C10-A"
    s = prog.func(MO + "set_HR")
    g = prog.func(MO + "get_HR")
    st = [norm(x) for x in s.node.body if isinstance(x, (ast.Assign, ast.Expr)) and not (isinstance(x, ast.Expr) and isinstance(x.value, ast.Constant))]
    ok = "sh = numpy.sqrt(2.0 * hr)" in st and "self.set_shift(N, sh)" in st
    run.obligation(rid, "Mode.set_HR", ok, key="shift", message="shift must be sqrt(2*HR)", loc=s.loc(), sample={"statements": st})
    rets = [n for n in ast.walk(g.node) if isinstance(n, ast.Return)]
    ok = len(rets) == 1 and norm(rets[0].value) == "self.submodes[N].shift ** 2 / 2.0"
    run.obligation(rid, "Mode.get_HR", ok, key="inverse",
                   message="get_HR must be shift^2/2, the inverse of set_HR", loc=g.loc(),
                   sample={"return": norm(rets[0].value) if rets else None})
    ss = prog.func(MO + "set_shift")
    st2 = [norm(n) for n in ast.walk(ss.node) if isinstance(n, ast.Assign)]
    ok = "self.submodes[N].shift = shift" in st2 or ("sbm = self.submodes[N]" in st2 and "sbm.shift = shift" in st2)
    run.obligation(rid, "Mode.set_shift", ok, key="store", message="set_shift must store the shift of the Nth submode", loc=ss.loc())


def rule_B(run, prog):
    rid = "C10-B"
    an = prog.func(HO + "anihilation_operator")
    cr = prog.func(HO + "creation_operator")
    # structural: a[n, n+1] = sqrt(n+1); a^+[n+1, n] = sqrt(n+1)
    def elems(f, arr):
        ifs = [n for n in ast.walk(f.node) if isinstance(n, ast.If)]
        stores = [n for n in ast.walk(f.node) if isinstance(n, ast.Assign) and norm(n.targets[0]) == "%s[ng, mg]" % arr]
        return (norm(ifs[0].test) if ifs else None, norm(stores[0].value) if stores else None)
    ta_, tv = elems(an, "aa")
    tc, cv = elems(cr, "ad")
    ok = ta_ == "ng == mg - 1" and tv == "numpy.sqrt(numpy.real(mg))" and tc == "ng == mg + 1" and \
        cv == "numpy.sqrt(numpy.real(mg + 1))"
    run.obligation(rid, "operator_factory ladder operators", ok, key="ladder",
                   message="a[n-1,n] = sqrt(n) and a^+[n+1,n] = sqrt(n+1) expected (a^+ is the transpose of a): "
                           "found a: %s -> %s ; a^+: %s -> %s" % (ta_, tv, tc, cv), loc=an.loc(),
                   sample={"a": [ta_, tv], "a+": [tc, cv]})
    for f, nm in ((an, "aa"), (cr, "ad")):
        z = [n for n in ast.walk(f.node) if isinstance(n, ast.Assign) and norm(n.targets[0]) == nm
             and isinstance(n.value, ast.Call) and call_name(n.value) == "zeros"]
        run.obligation(rid, f.short, len(z) == 1 and "REAL" in norm(z[0].value), key="real-zero-start",
                       message="ladder operator must be built in a real zero matrix", loc=f.loc())
    sh = prog.func(HO + "shift_operator")
    d = Expr.factor("d")
    aa = Array.opaque("a", 2)
    ad = Array.from_fn(2, lambda i, j: aa.at(j, i))       # a^+ = a^T (real a), by the ladder rule above
    gen = [n for n in ast.walk(sh.node) if isinstance(n, ast.Assign) and norm(n.targets[0]) == "Dd_large"
           and isinstance(n.value, ast.BinOp)]
    if len(gen) != 1:
        raise AnalysisError("shift_operator: generator assignment not found")
    it = Interp(prog, lenient=False)
    it.stack.append(sh)
    G = it.eval(gen[0].value, {"dd_": d, "ad": ad, "aa": aa})
    it.stack.pop()
    if not isinstance(G, Array):
        raise AnalysisError("shift_operator: generator not algebraic")
    facts = Facts(real=["a"] + [n for n in G.template.names() if n.startswith("sqrt{")])
    anti = normal(G.at("i", "j").conj() + G.at("j", "i"), facts)
    run.obligation(rid, "operator_factory.shift_operator", not anti, key="anti-hermitian",
                   message="the generator (d a^+ - conj(d) a)/sqrt(2) is not anti-Hermitian (the shift operator "
                           "would not be unitary / the overlap matrix not orthogonal): %s" % show_normal(anti, 3),
                   loc=sh.loc(gen[0]), sample={"generator": show_normal(normal(G.at("i", "j"), facts), 3)})
    want = None
    names = [n for n in G.template.names() if n.startswith("sqrt{")]
    ok = len(names) == 1
    if ok:
        s2 = Expr.factor(names[0], (), False, -1)
        want = (d * aa.at("j", "i") - d.conj() * aa.at("i", "j")) * s2
        ok = not normal(G.at("i", "j") - want, facts)
    run.obligation(rid, "operator_factory.shift_operator", ok, key="generator",
                   message="generator must be (d a^+ - conj(d) a)/sqrt(2)", loc=sh.loc(gen[0]))
    st = [norm(s) for s in ast.walk(sh.node) if isinstance(s, ast.stmt)]
    ok = "A, S = numpy.linalg.eig(Dd_large)" in st and "S1 = numpy.linalg.inv(S)" in st and \
        "Dd_large = numpy.diag(numpy.exp(A))" in st and "return numpy.dot(S, numpy.dot(Dd_large, S1))" in st
    run.obligation(rid, "operator_factory.shift_operator", ok, key="spectral-exponential",
                   message="the exponential must be S . diag(exp(eigenvalues)) . S^-1 of the generator", loc=sh.loc())


def rule_C(run, prog):
    rid = "C10-C"
    f = prog.func(AB + "fc_factor")
    # the factor is a function of the two states' quantum numbers and mode shifts as they are now:
    # every value returned is the product computed by this call (or a literal), and state kept on
    # self between calls may only be keyed by values that determine the overlap
    params = [a.arg for a in f.node.args.args if a.arg != "self"]

    def _roots(expr, depth=0):
        """attribute chains rooted at the parameters that an expression is computed from"""
        out = set()
        for n in ast.walk(expr):
            if isinstance(n, ast.Attribute):
                base = n
                while isinstance(base, (ast.Attribute, ast.Subscript)):
                    base = base.value
                if isinstance(base, ast.Name) and base.id in params:
                    out.add(norm(n))
            elif isinstance(n, ast.Name) and n.id in params:
                out.add(n.id)
            elif isinstance(n, ast.Name) and depth < 4:
                for b in walk_no_nested(f.node):
                    if isinstance(b, ast.Assign) and any(isinstance(t_, ast.Name) and t_.id == n.id for t_ in b.targets):
                        out |= _roots(b.value, depth + 1)
        # keep the longest chains only ('state1.index' subsumes 'state1')
        return {c for c in out if not any(o != c and o.startswith(c + ".") for o in out)}
    memo = []
    for n in walk_no_nested(f.node):
        if isinstance(n, ast.Assign) and isinstance(n.targets[0], ast.Subscript):
            b = n.targets[0].value
            if isinstance(b, ast.Attribute) and isinstance(b.value, ast.Name) and b.value.id == "self":
                roots = _roots(n.targets[0].slice)
                ident = sorted(c for c in roots if not (c.endswith(".vsig") or c.endswith(".shift") or ".vsig[" in c))
                memo.append((b.attr, norm(n.targets[0].slice), ident, n))
    rets = [n for n in walk_no_nested(f.node) if isinstance(n, ast.Return)]
    last = f.node.body[-1]
    sound_memos = {a for a, _, i_, _ in memo} - {a for a, _, i_, _ in memo if i_}

    def _from_sound_memo(e):
        return isinstance(e, ast.Subscript) and isinstance(e.value, ast.Attribute) and isinstance(e.value.value, ast.Name) \
            and e.value.value.id == "self" and e.value.attr in sound_memos
    foreign = [norm(r) for r in rets if not (r is last or r.value is None or isinstance(r.value, ast.Constant)
                                             or _from_sound_memo(r.value))]
    run.obligation(rid, "AggregateBase.fc_factor", not foreign and isinstance(last, ast.Return), key="computed-result",
                   message="fc_factor returns a value it did not compute in this call (%s): the overlaps then do not "
                           "follow later changes of the mode parameters" % foreign, loc=f.loc(),
                   sample={"returns": len(rets)})
    bad = [(a, k, i) for a, k, i, _ in memo if i]
    run.obligation(rid, "AggregateBase.fc_factor", not bad, key="memo-keyed-by-values",
                   message="results are remembered on self under keys that do not determine the overlap %s: after a "
                           "change of a mode's shift or number of levels the remembered factor is returned for the "
                           "new parameters" % [("self." + a, k, "key uses " + ", ".join(i)) for a, k, i in bad],
                   loc=f.loc(bad and memo[0][3]) if bad else f.loc(), sample={"memo_stores": len(memo)})
    if not any(x.rule == rid and x.construct == "AggregateBase.fc_factor" for x in run.findings):
        # finite evaluation: the factor is the product over ALL modes of the overlap
        # <qn1_k| D(shift1_k - shift2_k) |qn2_k>, taken from the shift operator of the difference
        import itertools
        from .. import feval
        from ..feval import Stub, Sym, SymArr
        for nmodes in (0, 1, 2, 3):
            bad = []
            ncfg = 0
            shift_sets = list(itertools.product((0.0, 0.5, 1.25), repeat=nmodes))[:6]
            for sh1 in shift_sets:
                for sh2 in shift_sets[::-1][:4]:
                    for q1 in list(itertools.product((0, 1, 2), repeat=nmodes))[::3][:5]:
                        for q2 in list(itertools.product((0, 1, 2), repeat=nmodes))[1::4][:4]:
                            store = {}

                            class _FC(Stub):
                                pass
                            fcs = _FC("fcstorage")
                            keys = []
                            fcs.methods = {
                                "lookup": lambda x: x in keys,
                                "add": lambda x, arr: (keys.append(x), store.__setitem__(x, arr))[0],
                                "index": lambda x: keys.index(x),
                                "get": lambda ii: store[keys[ii]],
                            }
                            ops = Stub("operator_factory")
                            ops.methods = {"shift_operator": lambda x: SymArr("D(%g)" % x)}
                            selfo = Stub("AggregateBase", FC=fcs, ops=ops)
                            st1 = Stub("VibronicState", vsig=q1, index=None,
                                       elstate=Stub("ElectronicState", vibmodes=[Stub("SubMode", shift=x) for x in sh1]))
                            st2 = Stub("VibronicState", vsig=q2, index=None,
                                       elstate=Stub("ElectronicState", vibmodes=[Stub("SubMode", shift=x) for x in sh2]))
                            ncfg += 1
                            try:
                                got = feval.Evaluator().call_function(f.node, {"self": selfo, "state1": st1, "state2": st2})
                            except feval.Unsupported as e:
                                raise AnalysisError("fc_factor(): construct outside the finite evaluator's vocabulary: %s" % e)
                            except feval.Raised as e:
                                got = "raise %s" % e
                            exp = Sym(1.0)
                            for k in range(nmodes):
                                exp = exp * SymArr("D(%g)" % (sh1[k] - sh2[k])).at((q1[k], q2[k]))
                            if isinstance(got, (int, float)):
                                got = Sym(got)
                            if not isinstance(got, Sym) or not got.same(exp):
                                bad.append((sh1, sh2, q1, q2, repr(got), repr(exp)))
            run.obligation(rid, "AggregateBase.fc_factor", not bad, key="finite:modes=%d" % nmodes,
                           message="the Franck-Condon factor must be the product over all modes of <n1|D(shift difference)|n2>; "
                                   "deviates on %d of %d configurations, first: shifts %s / %s, quanta %s / %s gives %s, expected %s"
                                   % ((len(bad), ncfg) + (bad[0] if bad else ("",) * 6)), loc=f.loc(),
                           sample={"modes": nmodes, "configurations": ncfg})
        # states with different numbers of modes are refused
        selfo = Stub("AggregateBase", FC=Stub("fcstorage"), ops=Stub("operator_factory"))
        st1 = Stub("VibronicState", vsig=(0,), index=None, elstate=Stub("ElectronicState", vibmodes=[Stub("SubMode", shift=0.0)]))
        st2 = Stub("VibronicState", vsig=(0, 0), index=None,
                   elstate=Stub("ElectronicState", vibmodes=[Stub("SubMode", shift=0.0), Stub("SubMode", shift=0.0)]))
        try:
            feval.Evaluator().call_function(f.node, {"self": selfo, "state1": st1, "state2": st2})
            refused = False
        except feval.Raised:
            refused = True
        except feval.Unsupported:
            refused = False
        run.obligation(rid, "AggregateBase.fc_factor", refused, key="same-modes",
                       message="states with different numbers of modes must be refused", loc=f.loc())
    v = prog.func("quantarhei.builders.aggregate_states.ElectronicState.vsignatures")
    st = [norm(s) for s in ast.walk(v.node) if isinstance(s, ast.stmt)]
    ok = "vibmax.append(sm.nmax)" in st and any(isinstance(n, ast.If) and norm(n.test) == "approx is None"
                                                and [norm(s) for s in n.body] == ["return numpy.ndindex(tuple(vibmax))"]
                                                for n in ast.walk(v.node))
    loops = [n for n in v.node.body if isinstance(n, ast.For) and norm(n.iter) == "self.vibmodes"]
    ok = ok and len(loops) == 1
    run.obligation(rid, "ElectronicState.vsignatures", ok, key="full-space",
                   message="without approximation the vibrational signatures must be ndindex over the level counts "
                           "of all modes (state count = product of the level counts)", loc=v.loc())
    # the overlap product multiplies the electronic dipole and the resonance coupling: the finite
    # evaluations of C03 carry the opaque factor 'fc' returned by fc_factor in their expected values
    from . import c03
    t = prog.func(AB + "transition_dipole")
    bad, npairs, _ = c03.eval_transition_dipole(prog, 3)
    run.obligation(rid, "AggregateBase.transition_dipole", not bad, key="dipole-times-overlap",
                   message="vibronic transition dipole must be the electronic one times the overlap product; deviates "
                           "on %d of %d pairs of states of a trimer, first: %s" % (len(bad), npairs, bad[:1]), loc=t.loc(),
                   sample={"pairs": npairs})
    c = prog.func(AB + "coupling")
    bad, npairs, _ = c03.eval_coupling(prog, "VibronicState", 3, 2)
    run.obligation(rid, "AggregateBase.coupling", not bad, key="coupling-times-overlap",
                   message="vibronic couplings must be the resonance coupling times the overlap product; deviates on %d "
                           "of %d pairs of states of a trimer, first: %s" % (len(bad), npairs, bad[:1]), loc=c.loc(),
                   sample={"pairs": npairs})
    bad, npairs, _ = c03.eval_coupling(prog, "VibronicState", 3, 1, full=True)
    run.obligation(rid, "AggregateBase.coupling", not bad, key="coupling-times-overlap:full-model",
                   message="with full=True (fem_full build) states two bands apart that differ by raising two "
                           "molecules must be coupled by J times the overlap product; deviates on %d of %d pairs of "
                           "states of a trimer, first: %s" % (len(bad), npairs, bad[:1]), loc=c.loc(),
                   sample={"pairs": npairs, "full": True})
    # shift operator evaluated in the large basis and cut
    # the table that is looked up with the quantum numbers must come from the shift operator of the operator
    # factory (computed in its large basis) and must not be cut at a fixed size: a level count above the cut is
    # a legitimate declaration ("for all level counts") and the look-up then fails
    srcs = [n for n in ast.walk(f.node) if isinstance(n, ast.Call) and isinstance(n.func, ast.Attribute)
            and n.func.attr == "shift_operator"]
    pmf = parents_map(f.node)
    cuts = []
    for c_ in srcs:
        p_ = pmf.get(c_)
        while isinstance(p_, ast.Subscript) and p_.value is not None:
            sl = p_.slice
            for x in (sl.elts if isinstance(sl, ast.Tuple) else [sl]):
                if isinstance(x, ast.Slice) and isinstance(x.upper, ast.Constant) and isinstance(x.upper.value, int):
                    cuts.append(x.upper.value)
            p_ = pmf.get(p_)
    # the basis in which the shift operator is exponentiated: overlaps are those of the displaced oscillator only for
    # levels far below the truncation.  The size confirmed on this tree is the reference; a smaller one narrows the
    # range of Huang-Rhys factors and level counts for which the Poisson law holds
    CONFIRMED_BASIS = 100
    ofc = prog.cls("quantarhei.qm.oscillators.ho.operator_factory")
    oinit = ofc.methods["__init__"]
    dflt = None
    oargs = oinit.node.args
    names_ = [a.arg for a in oargs.args]
    if "N" in names_:
        k_ = names_.index("N") - (len(names_) - len(oargs.defaults))
        if 0 <= k_ < len(oargs.defaults) and isinstance(oargs.defaults[k_], ast.Constant):
            dflt = oargs.defaults[k_].value
    made = [n for fn_ in prog.cls(AB.rstrip(".")).methods.values() for n in ast.walk(fn_.node)
            if isinstance(n, ast.Assign) and norm(n.targets[0]) == "self.ops" and isinstance(n.value, ast.Call)
            and call_name(n.value) == "operator_factory"]
    sizes = []
    for m_ in made:
        given = [k.value for k in m_.value.keywords if k.arg == "N"] or list(m_.value.args[:1])
        sizes.append(given[0].value if given and isinstance(given[0], ast.Constant) else (None if given else dflt))
    ok_basis = bool(made) and all(isinstance(x, int) and x >= CONFIRMED_BASIS for x in sizes)
    run.obligation(rid, "AggregateBase.fc_factor", ok_basis, key="basis-size",
                   message="the aggregate computes its overlaps from a shift operator exponentiated in a basis of %s states "
                           "(confirmed: %d): the overlaps of the higher levels then deviate from the displaced-oscillator "
                           "values already for moderate Huang-Rhys factors" % (sizes, CONFIRMED_BASIS), loc=f.loc(),
                   sample={"basis_sizes": sizes, "confirmed": CONFIRMED_BASIS})
    run.obligation(rid, "AggregateBase.fc_factor", bool(srcs) and not cuts, key="large-basis",
                   message="overlaps must be taken from the shift operator computed in the large basis of the operator "
                           "factory; the table is cut at the fixed size %s, so a state with a quantum number at or above "
                           "it (a mode declared with more levels) cannot be looked up" % sorted(set(cuts)), loc=f.loc(),
                   sample={"sources": [norm(c_) for c_ in srcs], "fixed_cuts": sorted(set(cuts))})


def rule_D(run, prog):
    rid = "C10-D"
    funcs = [prog.func(HO + n) for n in ("anihilation_operator", "creation_operator", "shift_operator", "unity_operator")]
    funcs += [prog.func(AB + "fc_factor"), prog.func(AB + "transition_dipole"),
              prog.func("quantarhei.builders.aggregate_states.ElectronicState.vsignatures"),
              prog.func(MO + "set_HR"), prog.func(MO + "get_HR")]
    n = apiexist.check_functions(run, rid, prog, funcs, "building vibronic states")
    if n < 8:
        raise AnalysisError("API scan saw only %d external references" % n)


def rule_E(run, prog):
    """'Every dipole element between vibronic states equals the electronic quantity times the product of the overlaps':
    the conversions and builders of the aggregate write such elements as `X[i, j, a] = 0.0` followed, in inner loops, by
    `X[...] += term`.  The accumulation has to address the element that was reset: with an index missing (`X[i, j] +=`)
    numpy broadcasts the term over the remaining axis and every component gets the sum of all components."""
    from ..loader import parents_map
    rid = "C10-E"
    n = 0
    mod = prog.module("quantarhei.builders.aggregate_base")
    for c in mod.classes.values():
        for fn in c.methods.values():
            pm = parents_map(fn.node)
            for st in walk_no_nested(fn.node):
                if not (isinstance(st, ast.Assign) and isinstance(st.targets[0], ast.Subscript) and isinstance(st.value, ast.Constant)
                        and st.value.value in (0, 0.0)):
                    continue
                base = norm(st.targets[0].value)
                blk = None
                p_ = pm.get(st)
                for fld in ("body", "orelse"):
                    b_ = getattr(p_, fld, None)
                    if isinstance(b_, list) and st in b_:
                        blk = b_
                if blk is None:
                    continue
                # a later reset of the same array in the same block ends the scope
                after = blk[blk.index(st) + 1:]
                accs = []
                for nx in after:
                    if isinstance(nx, ast.Assign) and isinstance(nx.targets[0], ast.Subscript) and norm(nx.targets[0].value) == base \
                            and isinstance(nx.value, ast.Constant):
                        break
                    if isinstance(nx, (ast.For, ast.While)):
                        accs += [x for x in ast.walk(nx) if isinstance(x, ast.AugAssign) and isinstance(x.target, ast.Subscript)
                                 and norm(x.target.value) == base]
                for a_ in accs:
                    n += 1
                    prog.consulted.add(fn.relpath)
                    run.obligation(rid, fn.short, norm(a_.target.slice) == norm(st.targets[0].slice),
                                   key="same-element:%s:%s" % (base, norm(a_.target)[:40]),
                                   message="%s resets %s and accumulates into %s: the two do not address the same element, the term is "
                                           "broadcast over the missing index (every Cartesian component gets the sum of the components)"
                                           % (fn.short, norm(st.targets[0]), norm(a_.target)), loc=fn.loc(a_))
    if n < 3:
        raise AnalysisError("only %d reset-then-accumulate pairs found in aggregate_base (3 confirmed)" % n)


def rule_F(run, prog):
    """Modes, dipoles and energies of the molecules are declared and read through methods the aggregate calls on the
    elements of self.monomers.  Each attribute it uses there - on a name bound to self.monomers[...] or iterating over
    self.monomers, or directly on self.monomers[...] - is a method or attribute of Molecule (or its bases).  A call of a
    method that does not exist raises AttributeError, which the by-name accessors swallow in a bare except."""
    rid = "C10-F"
    mol = prog.cls("quantarhei.builders.molecules.Molecule")
    names = set()
    for b in prog.mro(mol):
        if b is None:
            continue
        names |= set(b.methods) | set(b.attrs)
        for fn in b.methods.values():
            for x in ast.walk(fn.node):
                if isinstance(x, ast.Attribute) and norm(x.value) == "self" and isinstance(x.ctx, ast.Store):
                    names.add(x.attr)
    n = 0
    for q in ("quantarhei.builders.aggregate_base", "quantarhei.builders.aggregates", "quantarhei.builders.aggregate_spectroscopy",
              "quantarhei.builders.aggregate_excitonanalysis", "quantarhei.builders.opensystem"):
        mod = prog.module(q)
        for c in mod.classes.values():
            for fn in c.methods.values():
                vars_ = set()
                for x in walk_no_nested(fn.node):
                    if isinstance(x, ast.Assign) and isinstance(x.value, ast.Subscript) and norm(x.value.value) == "self.monomers" \
                            and isinstance(x.targets[0], ast.Name):
                        vars_.add(x.targets[0].id)
                    if isinstance(x, ast.For) and norm(x.iter) == "self.monomers" and isinstance(x.target, ast.Name):
                        vars_.add(x.target.id)
                for x in walk_no_nested(fn.node):
                    on_mono = isinstance(x, ast.Attribute) and (
                        (isinstance(x.value, ast.Name) and x.value.id in vars_) or
                        (isinstance(x.value, ast.Subscript) and norm(x.value.value) == "self.monomers"))
                    if not on_mono:
                        continue
                    n += 1
                    prog.consulted.add(fn.relpath)
                    run.obligation(rid, fn.short, x.attr in names, key="molecule-api:" + norm(x)[:40],
                                   message="%s uses %s on a molecule of the aggregate; Molecule has no attribute '%s' (%s): the call "
                                           "raises AttributeError" % (fn.short, norm(x), x.attr,
                                                                      "did you mean " + ", ".join(sorted(k for k in names if k.lower() == x.attr.lower())[:2])
                                                                      if any(k.lower() == x.attr.lower() for k in names) else "no similar name"),
                                   loc=fn.loc(x))
    if n < 25:
        raise AnalysisError("only %d uses of molecule attributes found (25 confirmed)" % n)


def rule_G(run, prog):
    """'Every dipole element between vibronic states equals the electronic quantity times the product of the overlaps, for
    all level counts per molecule': the electronic quantity of the element <state1|D|state2> is the transition dipole of
    the molecule `exindx` that changes its state, between its levels in the two states - elsignature[exindx] of state1
    and of state2.  Constant levels (0, 1) are that transition only for two-level molecules; _get_exindx lets band
    differences of one and two through, so the 1->2 and 0->2 transitions of a three-level molecule reach this line."""
    rid = "C10-G"
    f = prog.func("quantarhei.builders.aggregate_base.AggregateBase.transition_dipole")
    prog.consulted.add(f.relpath)
    calls = [c for c in walk_no_nested(f.node) if isinstance(c, ast.Call) and norm(c.func) == "self.get_dipole"]
    if len(calls) != 1 or len(calls[0].args) != 3:
        raise AnalysisError("transition_dipole: the call self.get_dipole(molecule, level, level) not found")
    c = calls[0]
    mol = norm(c.args[0])
    # names bound to the signature entries of the two states at the changing molecule
    lev = {}
    for st in walk_no_nested(f.node):
        if isinstance(st, ast.Assign) and isinstance(st.targets[0], ast.Name) and isinstance(st.value, ast.Subscript) \
                and norm(st.value.value).endswith(".elstate.elsignature") and norm(st.value.slice) == mol:
            lev[st.targets[0].id] = norm(st.value.value).split(".")[0]

    # names derived from them (min / max / sorted, possibly unpacked)
    changed = True
    multi = {}
    while changed:
        changed = False
        for st in walk_no_nested(f.node):
            if isinstance(st, ast.Assign):
                srcs = set()
                for x in ast.walk(st.value):
                    if isinstance(x, ast.Name) and x.id in lev:
                        srcs.add(lev[x.id])
                    if isinstance(x, ast.Name) and x.id in multi:
                        srcs |= multi[x.id]
                if not srcs:
                    continue
                for t_ in st.targets:
                    for y in (t_.elts if isinstance(t_, (ast.Tuple, ast.List)) else [t_]):
                        if isinstance(y, ast.Name) and y.id not in lev and multi.get(y.id) != srcs:
                            multi[y.id] = srcs
                            changed = True

    def from_states(e):
        src = set()
        for x in ast.walk(e):
            if isinstance(x, ast.Name) and x.id in multi:
                src |= multi[x.id]
        for x in ast.walk(e):
            if isinstance(x, ast.Name) and x.id in lev:
                src.add(lev[x.id])
            if isinstance(x, ast.Subscript) and norm(x.value).endswith(".elstate.elsignature") and norm(x.slice) == mol:
                src.add(norm(x.value).split(".")[0])
        return src
    params = [a.arg for a in f.node.args.args[1:3]]
    ok = from_states(c.args[1]) == set(params) and from_states(c.args[2]) == set(params) or \
        (from_states(c.args[1]) | from_states(c.args[2])) == set(params) and not any(isinstance(a, ast.Constant) for a in c.args[1:])
    run.obligation(rid, "AggregateBase.transition_dipole", ok, key="levels-of-the-transition",
                   message="transition_dipole takes %s for every pair of states: the levels are not read from the electronic "
                           "signatures of the two states at the molecule that changes, so for a molecule with more than two levels "
                           "the 1->2 and 0->2 elements carry the 0->1 dipole" % norm(c), loc=f.loc(c), sample={"call": norm(c)})


def rule_G2(run, prog):
    """The same clause, decided by finite evaluation of transition_dipole() together with _get_exindx() (qv/feval.py) over
    all pairs of electronic signatures of two and three molecules with up to three levels each, bands 0-2: whenever the
    two states differ on exactly one molecule k - by one level or by two (the direct 0->2 transition of a three-level
    molecule) - the element is d_k[lower -> upper] times the overlap factor; it is zero when they differ on no molecule
    or on more than one.  A selection rule on the band difference that lets only neighbouring bands through silently
    zeroes every 0->2 element."""
    from .. import feval
    from ..feval import Stub, Sym
    from .c03 import _signatures
    rid = "C10-G"
    AB_ = "quantarhei.builders.aggregate_base.AggregateBase."
    td = prog.func(AB_ + "transition_dipole")
    ex = prog.func(AB_ + "_get_exindx")
    fc = Sym(1.0, ("fc",))
    for n in (2, 3):
        states = [(band, sig) for band in (0, 1, 2) for sig in _signatures(n, 2, band)]
        selfo = Stub("AggregateBase", nmono=n)

        def _exindx(a, b):
            return feval.Evaluator().call_function(ex.node, {"self": selfo, "state1": a, "state2": b})
        selfo.methods = {"fc_factor": lambda a, b: fc, "_get_exindx": _exindx,
                         "get_dipole": lambda k, lo, hi: Sym(1.0, ("d%d[%d->%d]" % (k, lo, hi),))}
        objs = [Stub("VibronicState", elstate=Stub("ElectronicState", band=b, elsignature=sig, index=i), index=i)
                for i, (b, sig) in enumerate(states)]
        bad, npairs = [], 0
        for i, (b1, a) in enumerate(states):
            for j, (b2, b) in enumerate(states):
                npairs += 1
                try:
                    got = feval.Evaluator().call_function(td.node, {"self": selfo, "state1": objs[i], "state2": objs[j]})
                except feval.Unsupported as e:
                    raise AnalysisError("transition_dipole(): construct outside the finite evaluator's vocabulary: %s" % e)
                except feval.Raised as e:
                    got = "raise %s" % e
                diff = [k for k in range(n) if a[k] != b[k]]
                if len(diff) == 1:
                    k = diff[0]
                    exp = Sym(1.0, ("d%d[%d->%d]" % (k, min(a[k], b[k]), max(a[k], b[k])),)) * fc
                else:
                    exp = Sym(0.0)
                if isinstance(got, (int, float)):
                    got = Sym(got)
                if not isinstance(got, Sym) or not got.same(exp):
                    bad.append((a, b, repr(got), repr(exp)))
        run.obligation(rid, "AggregateBase.transition_dipole", not bad, key="finite-three-levels:N=%d" % n,
                       message="transition_dipole() deviates from 'dipole of the one molecule that changes its level (by one or two "
                               "levels) times the overlaps, zero otherwise' on %d of %d pairs of signatures with up to three levels; "
                               "first: %s -> %s gives %s, expected %s" % ((len(bad), npairs) + (bad[0] if bad else ("", "", "", ""))),
                       loc=td.loc(), sample={"molecules": n, "states": len(states), "pairs": npairs})


def rule_H(run, prog):
    """'For all numbers of modes per molecule': the vibrational sub-modes of an electronic state are those of each molecule
    in the electronic level that molecule has in the state, elsignature[position of the molecule in aggregate.monomers].
    In ElectronicState.__init__ the index into the signature next to get_SubMode is the position of the molecule: the
    loop runs over aggregate.monomers itself (or enumerate of it) and the index is the enumeration index, or a counter
    that starts at 0 and is advanced exactly once per molecule, unconditionally.  Counting only some of the molecules
    (those with modes) shifts the levels of all later molecules."""
    rid = "C10-H"
    f = prog.func("quantarhei.builders.aggregate_states.ElectronicState.__init__")
    prog.consulted.add(f.relpath)
    calls = [c for c in walk_no_nested(f.node) if isinstance(c, ast.Call) and call_name(c) == "get_SubMode" and c.args]
    if not calls:
        raise AnalysisError("ElectronicState.__init__: get_SubMode call not found")
    from ..loader import parents_map
    pm = parents_map(f.node)
    for c in calls:
        arg = c.args[0]
        idx = arg.slice if isinstance(arg, ast.Subscript) else None
        ok, why = False, "the level is not read from the signature by an index"
        if isinstance(idx, ast.Name):
            # the loop over the molecules
            node, loop = c, None
            while node is not None and node is not f.node:
                p_ = pm.get(node)
                if isinstance(p_, ast.For):
                    it = p_.iter
                    src = it.args[0] if isinstance(it, ast.Call) and call_name(it) == "enumerate" and it.args else it
                    if norm(src).endswith(".monomers"):
                        loop = p_
                        break
                    if isinstance(src, ast.Name) or not norm(src).startswith("range"):
                        # a loop over something else than the list of molecules that binds the molecule
                        if any(isinstance(y, ast.Name) and y.id in {t_.id for t_ in ast.walk(p_.target) if isinstance(t_, ast.Name)}
                               for y in ast.walk(c.func)):
                            loop = p_
                            break
                node = p_
            if loop is None:
                why = "no loop over the molecules found"
            else:
                it = loop.iter
                src = it.args[0] if isinstance(it, ast.Call) and call_name(it) == "enumerate" and it.args else it
                over_all = norm(src).endswith(".monomers")
                if not over_all:
                    why = "the loop runs over %s, not over the list of all molecules" % norm(src)
                elif isinstance(it, ast.Call) and call_name(it) == "enumerate" and isinstance(loop.target, ast.Tuple) \
                        and isinstance(loop.target.elts[0], ast.Name) and loop.target.elts[0].id == idx.id:
                    ok = True
                else:
                    incs = [st for st in loop.body if isinstance(st, ast.AugAssign) and norm(st.target) == idx.id
                            and isinstance(st.op, ast.Add) and isinstance(st.value, ast.Constant) and st.value.value == 1]
                    other = [st for st in ast.walk(loop) if isinstance(st, (ast.AugAssign, ast.Assign)) and st not in incs
                             and any(norm(t_) == idx.id for t_ in (st.targets if isinstance(st, ast.Assign) else [st.target]))]
                    ok = len(incs) == 1 and not other
                    why = "the counter %s is not advanced exactly once per molecule" % idx.id
        run.obligation(rid, "ElectronicState.__init__", ok, key="level-of-this-molecule:" + norm(c)[:40],
                       message="ElectronicState.__init__ selects the sub-mode with %s, but %s: a molecule without modes placed before one "
                               "with modes shifts the electronic levels under which the later molecules' modes are looked up"
                               % (norm(arg), why), loc=f.loc(c))
